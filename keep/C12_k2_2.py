#!/usr/bin/env python3
# Check for change 2 (LiteDRAMDMAWriter: new `enable` input gating command, sink acknowledge and
# FIFO write together; driven by the enable CSR in CSR mode).
#
# Drives the real LiteDRAMDMAWriter (native and AXI port, fifo_depth 1..16, buffered or not) with
# random (address, data, last) streams, random producer gaps, random command / data back-pressure
# and - in half of the runs - a randomly toggling `enable`, and checks:
#   - every accepted (address, data) pair is stored exactly once: the n-th command carries the
#     n-th accepted address / last, the n-th data word the n-th accepted data, all byte enables set;
#   - sink handshake <=> command handshake (same cycle), nothing is accepted while disabled;
#   - a data word never reaches the port before its command, and the number of commands whose data
#     is still pending never exceeds the FIFO capacity;
#   - wdata is stable while the port stalls;
#   - with enable left at 1 the module is cycle-exact with a copy of the original implementation;
#   - CSR mode still writes base..base+length-1 with `last` on the final word.
# Run from the root of the tree with the change applied. Exits 0 on success.

import os
import sys
import random

sys.path.insert(0, os.getcwd())

from math import log2

from migen import *

from litex.soc.interconnect import stream

from litedram.common import LiteDRAMNativePort
from litedram.frontend.axi import LiteDRAMAXIPort
from litedram.frontend.dma import LiteDRAMDMAWriter

AW = 16
DW = 32


def _patch_csr_naming():
    # The CSR classes find their name by decoding the bytecode of the caller, which does not work with
    # every Python version (CSRs can then not be created at all). Only for this check: use `dis`.
    import dis
    import inspect
    from litex.soc.interconnect import csr

    def get_obj_var_name(override=None, default=None):
        if override:
            return override
        frame = inspect.currentframe().f_back
        ourclass = frame.f_locals["self"].__class__
        while "self" in frame.f_locals and isinstance(frame.f_locals["self"], ourclass):
            frame = frame.f_back
        for ins in dis.get_instructions(frame.f_code):
            if ins.offset > frame.f_lasti and ins.opname in ("STORE_ATTR", "STORE_FAST", "STORE_NAME", "STORE_DEREF"):
                name = ins.argval
                if len(name) > 2 and name[0] == "_" and name[1] != "_":
                    name = name[1:]
                return name
        return default
    csr.get_obj_var_name = get_obj_var_name


_patch_csr_naming()


class Failure(Exception):
    pass


class RefWriter(Module):
    """Copy of the core of the original LiteDRAMDMAWriter (reference for the cycle-exact comparison)."""
    def __init__(self, port, fifo_depth=16, fifo_buffered=False):
        self.sink = sink = stream.Endpoint([("address", port.address_width), ("data", port.data_width)])
        if isinstance(port, LiteDRAMNativePort):
            (cmd, wdata) = port.cmd, port.wdata
            self.comb += cmd.we.eq(1)
            self.comb += wdata.we.eq(2**(port.data_width//8)-1)
        else:
            (cmd, wdata) = port.aw, port.w
            self.comb += port.b.ready.eq(1)
            self.comb += cmd.size.eq(int(log2(port.data_width//8)))
            self.comb += wdata.strb.eq(2**(port.data_width//8)-1)
        self.submodules.fifo = fifo = stream.SyncFIFO([("data", port.data_width)], fifo_depth, fifo_buffered)
        self.comb += [
            cmd.addr.eq(sink.address),
            cmd.last.eq(sink.last),
            cmd.valid.eq(fifo.sink.ready & sink.valid),
            sink.ready.eq(fifo.sink.ready & cmd.ready),
            fifo.sink.valid.eq(sink.valid & cmd.ready),
            fifo.sink.data.eq(sink.data),
            wdata.valid.eq(fifo.source.valid),
            fifo.source.ready.eq(wdata.ready),
            wdata.data.eq(fifo.source.data),
        ]


def make_port(kind):
    if kind == "native":
        port = LiteDRAMNativePort("write", AW, DW)
        return port, port.cmd, port.wdata
    port = LiteDRAMAXIPort(DW, AW)
    return port, port.aw, port.w


PROFILES = {
    "fast":      dict(p_sink=1.0, p_cmd=1.0, p_wr=1.0, p_wstall=0.0),
    "slow_data": dict(p_sink=1.0, p_cmd=1.0, p_wr=0.15, p_wstall=0.05),
    "slow_cmd":  dict(p_sink=1.0, p_cmd=0.2, p_wr=1.0, p_wstall=0.0),
    "random":    dict(p_sink=0.7, p_cmd=0.6, p_wr=0.6, p_wstall=0.03),
    "bursty":    dict(p_sink=0.4, p_cmd=0.9, p_wr=0.9, p_wstall=0.1),
}


def run_writer(seed, port_kind, fifo_depth, buffered, n, prof, toggle_enable):
    prng = random.Random(seed)
    port, cmd, wdata = make_port(port_kind)
    rport, rcmd, rwdata = make_port(port_kind)

    class Top(Module):
        def __init__(self):
            self.submodules.dma = LiteDRAMDMAWriter(port, fifo_depth=fifo_depth, fifo_buffered=buffered)
            self.submodules.ref = RefWriter(rport, fifo_depth=fifo_depth, fifo_buffered=buffered)
            # The reference sees exactly the same stimulus.
            self.comb += [
                self.ref.sink.valid.eq(self.dma.sink.valid),
                self.ref.sink.last.eq(self.dma.sink.last),
                self.ref.sink.address.eq(self.dma.sink.address),
                self.ref.sink.data.eq(self.dma.sink.data),
                rcmd.ready.eq(cmd.ready),
                rwdata.ready.eq(wdata.ready),
            ]
    top = Top()
    sink = top.dma.sink
    rsink = top.ref.sink
    enable = top.dma.enable
    strobe = wdata.we if port_kind == "native" else wdata.strb
    capacity = fifo_depth + (1 if (buffered and fifo_depth >= 2) else 0)

    items = [(prng.randrange(2**AW) if prng.random() < 0.8 else prng.randrange(4),
              prng.randrange(2**DW), int(prng.random() < 0.15)) for _ in range(n)]
    st = dict(acc=[], cmds=[], datas=[], errors=[], cycle=0, max_pend=0, dis_cycles=0)

    def driver():
        for a, d, l in items:
            while prng.random() >= prof["p_sink"]:
                yield sink.valid.eq(0)
                yield
            yield sink.valid.eq(1)
            yield sink.address.eq(a)
            yield sink.data.eq(d)
            yield sink.last.eq(l)
            yield
            stuck = 0
            while not (yield sink.ready):
                yield
                stuck += 1
                if stuck > 20000:
                    st["errors"].append("deadlock: sink never ready")
                    return
        yield sink.valid.eq(0)
        yield
        timeout = 0
        while len(st["datas"]) < n:
            yield
            timeout += 1
            if timeout > 200*n + 5000:
                st["errors"].append("timeout: %d/%d words written" % (len(st["datas"]), n))
                break
        for _ in range(3*fifo_depth + 40):
            yield

    @passive
    def memory():
        ncmd = ndat = 0
        stall = 0
        while True:
            if (yield cmd.valid) and (yield cmd.ready):
                ncmd += 1
            if (yield wdata.valid) and (yield wdata.ready):
                ndat += 1
            yield cmd.ready.eq(int(prng.random() < prof["p_cmd"]))
            if stall:
                stall -= 1
                yield wdata.ready.eq(0)
            elif prng.random() < prof["p_wstall"]:
                stall = prng.randint(fifo_depth, 4*fifo_depth + 20)
                yield wdata.ready.eq(0)
            elif port_kind == "native":
                # The controller only asks for the data of a write it has accepted.
                yield wdata.ready.eq(int(ncmd > ndat and prng.random() < prof["p_wr"]))
            else:
                yield wdata.ready.eq(int(prng.random() < prof["p_wr"]))
            yield

    @passive
    def enabler():
        if not toggle_enable:
            return
        while True:
            yield enable.eq(0)
            for _ in range(prng.randint(1, 12)):
                yield
            yield enable.eq(1)
            for _ in range(prng.randint(1, 25)):
                yield

    @passive
    def monitor():
        held = None
        while True:
            en = (yield enable)
            s_hs = (yield sink.valid) and (yield sink.ready)
            c_hs = (yield cmd.valid) and (yield cmd.ready)
            if bool(s_hs) != bool(c_hs):
                st["errors"].append("cycle %d: sink handshake != cmd handshake" % st["cycle"])
            if not en:
                st["dis_cycles"] += 1
                if s_hs or c_hs or (yield cmd.valid) or (yield sink.ready):
                    st["errors"].append("cycle %d: activity on sink/cmd while disabled" % st["cycle"])
            if s_hs:
                st["acc"].append(((yield sink.address), (yield sink.data), (yield sink.last)))
            if c_hs:
                st["cmds"].append(((yield cmd.addr), (yield cmd.last)))
                if port_kind == "native" and not (yield cmd.we):
                    st["errors"].append("write command with we=0")
                if port_kind == "axi" and (yield cmd.size) != 2:
                    st["errors"].append("aw.size wrong")
            v, r = (yield wdata.valid), (yield wdata.ready)
            cur = (yield wdata.data)
            if held is not None and (not v or cur != held):
                st["errors"].append("cycle %d: wdata not stable during stall" % st["cycle"])
            held = cur if (v and not r) else None
            if v and (yield strobe) != 2**(DW//8) - 1:
                st["errors"].append("cycle %d: byte enables not all set" % st["cycle"])
            if v and len(st["datas"]) >= len(st["cmds"]) - (1 if c_hs else 0):
                st["errors"].append("cycle %d: data word presented before its command was accepted" % st["cycle"])
            if v and r:
                st["datas"].append(cur)
            pend = len(st["cmds"]) - len(st["datas"])
            st["max_pend"] = max(st["max_pend"], pend)
            if pend > capacity:
                st["errors"].append("cycle %d: %d commands with data pending > capacity %d" % (st["cycle"], pend, capacity))
            if not toggle_enable:
                # Cycle-exact comparison with the original implementation.
                for name, a, b in [("sink.ready", sink.ready, rsink.ready),
                                   ("cmd.valid", cmd.valid, rcmd.valid),
                                   ("wdata.valid", wdata.valid, rwdata.valid)]:
                    if (yield a) != (yield b):
                        st["errors"].append("cycle %d: %s differs from the original" % (st["cycle"], name))
                if (yield cmd.valid) and ((yield cmd.addr) != (yield rcmd.addr) or (yield cmd.last) != (yield rcmd.last)):
                    st["errors"].append("cycle %d: cmd payload differs from the original" % st["cycle"])
                if (yield wdata.valid) and (yield wdata.data) != (yield rwdata.data):
                    st["errors"].append("cycle %d: wdata differs from the original" % st["cycle"])
            yield
            st["cycle"] += 1

    run_simulation(top, [driver(), memory(), enabler(), monitor()])

    errors = list(st["errors"])
    if st["acc"] != items:
        errors.append("accepted stream differs from the driven one")
    if st["cmds"] != [(a, l) for a, d, l in st["acc"]]:
        errors.append("command stream != accepted addresses (%d vs %d)" % (len(st["cmds"]), len(st["acc"])))
    if st["datas"] != [d for a, d, l in st["acc"]]:
        errors.append("data stream != accepted data (%d vs %d)" % (len(st["datas"]), len(st["acc"])))
    if errors:
        raise Failure("seed=%d %s depth=%d buffered=%s toggle=%s: %s" % (
            seed, port_kind, fifo_depth, buffered, toggle_enable, errors[:4]))
    return st


def run_writer_csr(seed, port_kind, fifo_depth, base_w, length_w):
    prng = random.Random(seed)
    port, cmd, wdata = make_port(port_kind)
    # (not assigned directly to a name captured by the generators below: migen's name tracer does
    # not cope with closure cells on recent Python versions)
    m = LiteDRAMDMAWriter(port, fifo_depth=fifo_depth, with_csr=True)
    dma = m
    words = [prng.randrange(2**DW) for _ in range(length_w)]
    cmds, datas, errors, sent = [], [], [], []

    def main():
        yield dma._base.storage.eq(base_w*4)
        yield dma._length.storage.eq(length_w*4)
        yield
        yield dma._enable.storage.eq(1)
        yield
        yield  # IDLE state acknowledges (and drops) whatever is on the sink: start feeding in RUN.
        for w in words:
            while prng.random() < 0.3:
                yield dma.sink.valid.eq(0)
                yield
            yield dma.sink.valid.eq(1)
            yield dma.sink.data.eq(w)
            yield
            stuck = 0
            while not (yield dma.sink.ready):
                yield
                stuck += 1
                if stuck > 20000:
                    errors.append("deadlock: csr sink never ready")
                    return
            sent.append(w)
        yield dma.sink.valid.eq(0)
        t = 0
        while not (yield dma._done.status) or len(datas) < length_w:
            yield
            t += 1
            if t > 100*length_w + 2000:
                errors.append("csr timeout")
                break
        for _ in range(30):
            yield

    @passive
    def memory():
        while True:
            if (yield cmd.valid) and (yield cmd.ready):
                cmds.append(((yield cmd.addr), (yield cmd.last)))
            if (yield wdata.valid) and (yield wdata.ready):
                datas.append((yield wdata.data))
            yield cmd.ready.eq(int(prng.random() < 0.7))
            yield wdata.ready.eq(int(len(cmds) > len(datas) and prng.random() < 0.6))
            yield

    run_simulation(dma, [main(), memory()])
    if cmds != [(base_w + i, int(i == length_w - 1)) for i in range(length_w)]:
        errors.append("csr command stream wrong (%d commands)" % len(cmds))
    if datas != words:
        errors.append("csr data stream wrong (%d words)" % len(datas))
    if errors:
        raise Failure("csr seed=%d %s depth=%d: %s" % (seed, port_kind, fifo_depth, errors[:4]))


def main():
    runs = 0
    dis = 0
    for port_kind in ["native", "axi"]:
        for fifo_depth in [1, 2, 3, 4, 8, 16]:
            for buffered in [False, True]:
                for pi, (pname, prof) in enumerate(sorted(PROFILES.items())):
                    for toggle in [False, True]:
                        seed = (fifo_depth*1000 + pi*10 + int(toggle))*4 + 2*int(buffered) + int(port_kind == "axi")
                        n = 40 + 5*fifo_depth
                        st = run_writer(seed, port_kind, fifo_depth, buffered, n, prof, toggle)
                        runs += 1
                        dis += st["dis_cycles"]
    assert dis > 1000, dis
    for port_kind in ["native", "axi"]:
        for fifo_depth in [1, 2, 5, 16]:
            for (b, l) in [(0, 1), (3, 2), (100, 37)]:
                run_writer_csr(fifo_depth*7 + b, port_kind, fifo_depth, b, l)
                runs += 1
    print("keep_2: %d simulations OK (%d disabled cycles exercised)" % (runs, dis))


if __name__ == "__main__":
    try:
        main()
    except Failure as e:
        print("FAIL:", e)
        sys.exit(1)
    sys.exit(0)
