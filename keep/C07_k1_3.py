# ---- common harness: byte-accurate model + randomised master / controller-side stub ----------------
import os, sys, random
sys.path.insert(0, os.getcwd())

from migen import *
from litedram.common import LiteDRAMNativePort


class Op:
    def __init__(self, we, addr, data=0, be=0, last=0, gap=0, early=False):
        self.we, self.addr, self.data, self.be = we, addr, data, be
        self.last, self.gap, self.early = last, gap, early
        self.offered = False


def user_byte_addrs(a, wu, wn, reverse):
    """Byte addresses (in the controller-side memory) of the wu bytes of user word a."""
    if wu < wn:      # up-conversion: user narrower
        ratio = wn//wu
        c     = a % ratio
        pos   = ratio - 1 - c if reverse else c
        base  = (a//ratio)*wn + pos*wu
        return [base + j for j in range(wu)]
    elif wu > wn:    # down-conversion: user wider
        ratio = wu//wn
        res = []
        for n in range(ratio):
            pos = ratio - 1 - n if reverse else n
            res += [(a*ratio + pos)*wn + j for j in range(wn)]
        return res
    else:
        return [a*wn + j for j in range(wn)]


def gen_ops(rng, n, mode, nwords_user, wu, style):
    """Command sequence; address order selected by `style`."""
    ops  = []
    addr = rng.randrange(nwords_user)
    for k in range(n):
        if style == "asc":
            addr = (addr + 1) % nwords_user
        elif style == "desc":
            addr = (addr - 1) % nwords_user
        elif style == "rep":
            if rng.random() < 0.3:
                addr = rng.randrange(nwords_user)
        elif style == "local":   # random walk inside a few wide words
            addr = (addr + rng.choice([-3, -2, -1, -1, 0, 0, 1, 1, 2, 3])) % nwords_user
        else:
            addr = rng.randrange(nwords_user)
        if mode == "both":
            if style in ("asc", "desc") and k and rng.random() < 0.8:
                we = ops[-1].we
            else:
                we = rng.random() < 0.5
        else:
            we = mode == "write"
        be = rng.choice([2**wu - 1, 2**wu - 1, rng.getrandbits(wu), rng.getrandbits(wu), 0])
        ops.append(Op(
            we    = int(we),
            addr  = addr,
            data  = rng.getrandbits(8*wu),
            be    = be,
            last  = int(rng.random() < 0.15),
            gap   = rng.choice([0, 0, 0, 0, 1, 2, 5]) if rng.random() < 0.7 else rng.randrange(12),
            early = rng.random() < 0.3))
    return ops


class Bench:
    def __init__(self, dut, port_from, port_to, ops, rng, reverse=False, blind=True,
                 p_cmd=0.7, p_w=0.7, p_r=0.7, wlat=2, rlat=2, p_flush=0.05, depth=8, timeout=None):
        self.dut, self.pf, self.pt = dut, port_from, port_to
        self.ops, self.rng, self.reverse, self.blind = ops, rng, reverse, blind
        self.p_cmd, self.p_w, self.p_r, self.wlat, self.rlat, self.p_flush = p_cmd, p_w, p_r, wlat, rlat, p_flush
        self.mode = port_from.mode
        self.wu, self.wn = port_from.data_width//8, port_to.data_width//8
        self.depth = depth                        # controller-side words
        init = [rng.getrandbits(8) for _ in range(depth*self.wn)]
        self.model = bytearray(init)              # reference
        self.mem   = bytearray(init)              # what the controller-side stub holds
        self.errors = []
        self.rdata  = []
        self.expected_rdata = []
        self.master_done = False
        self.slave_idle  = True
        self.ctrl_cmds = []
        self.extra = []
        self.timeout = timeout or (400 + 60*len(ops)*max(1, self.wu//self.wn))
        # Reference result, commands applied in issue order.
        for op in ops:
            ba = user_byte_addrs(op.addr, self.wu, self.wn, reverse)
            if op.we:
                for j, b in enumerate(ba):
                    if (op.be >> j) & 1:
                        self.model[b] = (op.data >> (8*j)) & 0xff
            else:
                self.expected_rdata.append(sum(self.model[b] << (8*j) for j, b in enumerate(ba)))

    # User side: holds commands until accepted, offers write data no later than the command and holds
    # it, always accepts read data.
    def master(self):
        p, ops, rng = self.pf, self.ops, self.rng
        i, gap = 0, 0
        cmd_on = wd_on = False
        if self.mode in ["read", "both"]:
            yield p.rdata.ready.eq(1)
        yield
        while True:
            if cmd_on and (yield p.cmd.ready):
                cmd_on = False
                yield p.cmd.valid.eq(0)
                gap = ops[i].gap
                i  += 1
            if wd_on and (yield p.wdata.ready):
                wd_on = False
                yield p.wdata.valid.eq(0)
            if self.mode in ["read", "both"] and (yield p.rdata.valid):
                self.rdata.append((yield p.rdata.data))
            if not cmd_on and i < len(ops):
                op = ops[i]
                if op.we and not op.offered and not wd_on and (op.early or gap == 0):
                    op.offered = wd_on = True
                    yield p.wdata.valid.eq(1)
                    yield p.wdata.data.eq(op.data)
                    yield p.wdata.we.eq(op.be)
                if gap > 0:
                    gap -= 1
                elif (not op.we) or op.offered:
                    cmd_on = True
                    yield p.cmd.valid.eq(1)
                    yield p.cmd.we.eq(op.we)
                    yield p.cmd.addr.eq(op.addr)
                    yield p.cmd.last.eq(op.last)
            if i >= len(ops) and not cmd_on:
                yield p.flush.eq(1)    # let the converter drain what it still holds
                self.master_done = not wd_on
            else:
                yield p.flush.eq(int(rng.random() < self.p_flush))
            yield

    # Controller side: accepts commands at random, executes them in order; write data is fetched with a
    # `wdata.ready` pulse some cycles after the command (blind: as the crossbar does, without looking at
    # valid), read data comes back as single-cycle `rdata.valid` pulses without back-pressure.
    def slave(self):
        p, rng, wn = self.pt, self.rng, self.wn
        pend, rret, t = [], [], 0
        while True:
            if (yield p.cmd.valid) and (yield p.cmd.ready):
                pend.append(((yield p.cmd.we), (yield p.cmd.addr), t))
                self.ctrl_cmds.append(pend[-1][:2])
            if self.mode in ["write", "both"] and (yield p.wdata.ready):
                if (yield p.wdata.valid):
                    assert pend and pend[0][0]
                    _, addr, _ = pend.pop(0)
                    data, we = (yield p.wdata.data), (yield p.wdata.we)
                    for j in range(wn):
                        if (we >> j) & 1:
                            self.mem[(addr % self.depth)*wn + j] = (data >> (8*j)) & 0xff
                    if addr >= self.depth:
                        self.errors.append("write outside memory: 0x%x" % addr)
                elif self.blind:
                    self.errors.append("t=%d: controller fetched write data but none was offered" % t)
                    if pend and pend[0][0]:
                        pend.pop(0)
            if self.mode in ["read", "both"] and (yield p.rdata.valid) and not (yield p.rdata.ready):
                self.errors.append("t=%d: read data beat dropped" % t)
            while pend and not pend[0][0]:
                _, addr, _ = pend.pop(0)
                if addr >= self.depth:
                    self.errors.append("read outside memory: 0x%x" % addr)
                base = (addr % self.depth)*wn
                rret.append((sum(self.mem[base + j] << (8*j) for j in range(wn)), t + self.rlat))
            yield p.cmd.ready.eq(int(rng.random() < self.p_cmd))
            if self.mode in ["write", "both"]:
                go = bool(pend) and pend[0][0] and (t + 1 >= pend[0][2] + self.wlat) and rng.random() < self.p_w
                yield p.wdata.ready.eq(int(go))
            if self.mode in ["read", "both"]:
                if rret and t + 1 >= rret[0][1] and rng.random() < self.p_r:
                    yield p.rdata.valid.eq(1)
                    yield p.rdata.data.eq(rret.pop(0)[0])
                else:
                    yield p.rdata.valid.eq(0)
                    yield p.rdata.data.eq(rng.getrandbits(8*wn))
            self.slave_idle = not pend and not rret
            t += 1
            yield

    def control(self):
        t = quiet = 0
        need = 40 + 4*max(self.wu//self.wn, self.wn//self.wu)
        while quiet < need:     # finished and nothing spurious coming afterwards
            t += 1
            if t > self.timeout:
                self.errors.append("timeout: stuck after %d cycles (%d/%d read words returned)" % (
                    t, len(self.rdata), len(self.expected_rdata)))
                return
            if (self.master_done and self.slave_idle and len(self.rdata) >= len(self.expected_rdata)
                and not (yield self.pt.cmd.valid)):
                quiet += 1
            else:
                quiet = 0
            yield

    def run(self):
        @passive
        def m(): yield from self.master()
        @passive
        def s(): yield from self.slave()
        run_simulation(self.dut, [self.control(), m(), s()] + self.extra)
        if not self.slave_idle:
            self.errors.append("controller side still has pending commands at the end")
        if self.rdata != self.expected_rdata:
            self.errors.append("read data mismatch: got %d words, expected %d; first difference at #%s" % (
                len(self.rdata), len(self.expected_rdata),
                next((k for k, (a, b) in enumerate(zip(self.rdata, self.expected_rdata)) if a != b), "-")))
        if self.mem != self.model:
            bad = [k for k in range(len(self.mem)) if self.mem[k] != self.model[k]]
            self.errors.append("memory mismatch at bytes %s" % bad[:8])
        return self.errors

# ---- keep_3: user port of a width-converted crossbar port created by the converter class ------------
import itertools, time
from multiprocessing import Pool
from migen.fhdl.module import FinalizeError
from litedram.common import *
from litedram.core.crossbar import LiteDRAMCrossbar
from litedram.frontend.adapter import (LiteDRAMNativePortConverter, LiteDRAMNativePortUpConverter,
    LiteDRAMNativePortDownConverter)


class SimpleSettings(Settings):
    def __init__(self, **kwargs):
        self.set_attributes(kwargs)


class CrossbarDUT(Module):
    def __init__(self, native_width, bankbits=2, rowbits=2, colbits=4, read_latency=3, write_latency=1):
        nphases  = 2
        settings = SimpleSettings(cmd_buffer_depth=8, address_mapping="ROW_BANK_COL")
        settings.phy  = SimpleSettings(cwl=2, nphases=nphases, nranks=1, memtype="DDR2",
            dfi_databits=native_width//nphases, read_latency=read_latency, write_latency=write_latency)
        settings.geom = SimpleSettings(bankbits=bankbits, rowbits=rowbits, colbits=colbits)
        self.address_align = log2_int(burst_lengths["DDR2"])
        self.interface = LiteDRAMInterface(self.address_align, settings)
        self.submodules.crossbar = LiteDRAMCrossbar(self.interface)
        self.cba_shift = colbits - self.address_align
        self.bankbits  = bankbits


def reference_address_width(native_aw, native_dw, data_width):
    """What the unmodified crossbar.get_port computes."""
    if data_width > native_dw:
        return native_aw - log2_int(data_width//native_dw)
    else:
        return native_aw + log2_int(native_dw//data_width)


class CrossbarBench(Bench):
    """Same master / model as Bench, but the controller side is a stub behind the *crossbar*: bank
    command interfaces, wdata_ready / rdata_valid strobes and the shared data path with its latencies."""
    def slave(self):
        dut, rng, wn = self.dut, self.rng, self.wn
        itf, xb      = dut.interface, dut.crossbar
        native       = xb.masters[0]
        L, R         = xb.write_latency, xb.read_latency
        nbanks       = 2**dut.bankbits
        banks        = [getattr(itf, "bank%d" % n) for n in range(nbanks)]
        queue        = []   # accepted commands, in order: (bank, word address, we)
        wland        = {}   # cycle -> word address of the write whose data is on the data path then
        rdrive       = {}   # cycle -> read data to put on the data path for the next cycle
        t = 0
        while True:
            # Commands accepted this cycle.
            for n, bank in enumerate(banks):
                if (yield bank.valid) and (yield bank.ready):
                    rca  = (yield bank.addr)
                    low  = rca & (2**dut.cba_shift - 1)
                    high = rca >> dut.cba_shift
                    addr = low | (n << dut.cba_shift) | (high << (dut.cba_shift + dut.bankbits))
                    queue.append((n, addr, (yield bank.we)))
                    self.ctrl_cmds.append(((yield bank.we), addr))
            # Write data on the data path this cycle.
            if t in wland:
                addr = wland.pop(t)
                if not (yield native.wdata.valid):
                    self.errors.append("t=%d: controller fetched write data but none was offered" % t)
                data, we = (yield itf.wdata), (yield itf.wdata_we)
                for j in range(wn):
                    if (we >> j) & 1:
                        self.mem[(addr % self.depth)*wn + j] = (data >> (8*j)) & 0xff
                if addr >= self.depth:
                    self.errors.append("write outside memory: 0x%x" % addr)
            elif (yield native.wdata.ready):
                self.errors.append("t=%d: unexpected wdata.ready" % t)
            if (yield native.rdata.valid) and not (yield native.rdata.ready):
                self.errors.append("t=%d: read data beat dropped" % t)
            # Drive next cycle.
            for bank in banks:
                yield bank.ready.eq(int(rng.random() < self.p_cmd))
                yield bank.wdata_ready.eq(0)
                yield bank.rdata_valid.eq(0)
            if queue:
                n, addr, we = queue[0]
                if we and rng.random() < self.p_w:
                    queue.pop(0)
                    yield banks[n].wdata_ready.eq(1)
                    wland[t + 1 + L] = addr
                elif not we and not wland and rng.random() < self.p_r:
                    queue.pop(0)
                    yield banks[n].rdata_valid.eq(1)
                    base = (addr % self.depth)*wn
                    if addr >= self.depth:
                        self.errors.append("read outside memory: 0x%x" % addr)
                    rdrive[t + R] = sum(self.mem[base + j] << (8*j) for j in range(wn))
            yield itf.rdata.eq(rdrive.pop(t) if t in rdrive else rng.getrandbits(8*wn))
            self.slave_idle = not queue and not wland and not rdrive
            t += 1
            yield


def traffic(args):
    native, wu, mode, style, reverse, seed = args
    rng = random.Random(repr(args))
    kw  = dict(p_cmd=rng.choice([1.0, 0.7, 0.3]), p_w=rng.choice([1.0, 0.7, 0.3]), p_r=rng.choice([1.0, 0.7, 0.3]),
               p_flush=rng.choice([0, 0.05, 0.3]))
    dut  = CrossbarDUT(native, read_latency=rng.choice([1, 3, 5]), write_latency=rng.choice([0, 1, 3]))
    port = dut.crossbar.get_port(mode=mode, data_width=wu, reverse=reverse)
    natp = dut.crossbar.masters[0]
    errs = []
    conv = LiteDRAMNativePortUpConverter if wu < native else LiteDRAMNativePortDownConverter
    if not any(isinstance(getattr(m, "converter", None), conv) for m in dut.crossbar._submodules_flat()):
        errs.append("no %s behind the port" % conv.__name__)
    if port.address_width != reference_address_width(natp.address_width, native, wu):
        errs.append("address width %d" % port.address_width)
    if (port.data_width, port.mode, port.clock_domain, port.id) != (wu, mode, "sys", natp.id):
        errs.append("port attributes")
    # Window of 8 controller words starting in bank 0 (2 banks are hit), all of it reachable.
    depth = 8
    ops   = gen_ops(rng, 40, mode, depth*native//wu, wu//8, style)
    if rng.random() < 0.5:   # also exercise the very last words of the address space
        top = 2**port.address_width
        for op in ops[len(ops)//2:]:
            op.addr = top - 1 - (op.addr % min(top, depth*native//wu))
        depth = 2**natp.address_width
    b = CrossbarBench(dut, port, natp, ops, rng, reverse=reverse, depth=depth, **kw)
    errs += b.run()
    return args, kw, errs


def _submodules_flat(self):
    res, todo = [], [self]
    while todo:
        m = todo.pop()
        res.append(m)
        todo += [s for _, s in getattr(m, "_submodules", [])]
        if hasattr(m, "module"):      # ClockDomainsRenamer / ModuleTransformer wrapper
            todo.append(m.module)
    return res
Module._submodules_flat = _submodules_flat


def static_checks():
    errs = []
    for native, (mode, cd) in itertools.product([16, 32, 128], [("both", "sys"), ("write", "sys"), ("read", "user")]):
        for wu in [8, 16, 24, 32, 64, 96, 256, 1024]:
            dut = CrossbarDUT(native, bankbits=3, rowbits=13, colbits=10)
            try:   # the unmodified get_port: address computation, then the converter is built
                exp = reference_address_width(dut.interface.address_width + 3, native, wu)
                LiteDRAMNativePortConverter(
                    LiteDRAMNativePort(mode, exp, wu), LiteDRAMNativePort(mode, exp, native))
            except ValueError:
                exp = ValueError
            try:
                port = dut.crossbar.get_port(mode=mode, data_width=wu, clock_domain=cd)
                got  = port.address_width
                if (port.data_width, port.mode, port.clock_domain, port.id) != (wu, mode, cd, 0):
                    errs.append("port attributes for %s" % ((native, wu, mode, cd),))
                if len(port.cmd.addr) != got:
                    errs.append("cmd.addr width")
            except ValueError:
                got = ValueError
            if got != exp:
                errs.append("native=%d user=%d: address width %s, reference %s" % (native, wu, got, exp))
        # Several ports: ids / master list as before.
        dut = CrossbarDUT(native)
        ps  = [dut.crossbar.get_port(data_width=w) for w in [native, native*2, 8, native]]
        if [p.id for p in ps] != [0, 1, 2, 3] or len(dut.crossbar.masters) != 4:
            errs.append("port ids")
    return errs


if __name__ == "__main__":
    t0 = time.time()
    nseeds = int(sys.argv[1]) if len(sys.argv) > 1 else 1
    errs = static_checks()
    for e in errs[:10]:
        print("FAIL static:", e)
    nfail = len(errs)
    cfgs  = [(32, 8), (32, 16), (32, 64), (32, 256), (16, 128), (64, 8)]
    jobs  = [(native, wu, mode, style, (k + len(style)) % 2 == 1, seed)
        for k, ((native, wu), mode, style, seed) in enumerate(itertools.product(
            cfgs, ["both", "write", "read"], ["asc", "desc", "rep", "local", "rand"], range(nseeds)))]
    jobs += [(256, 8, "both", style, False, seed) for style in ["desc", "local"] for seed in range(nseeds)]  # 1:32
    with Pool(int(os.environ.get("JOBS", "4"))) as pool:
        for args, kw, errs in pool.imap_unordered(traffic, jobs, chunksize=4):
            if errs:
                nfail += 1
                print("FAIL", args, kw, errs[:3])
    print("%d runs, %d failed, %.0f s" % (len(jobs), nfail, time.time() - t0))
    sys.exit(1 if nfail else 0)
