import os, sys, re, itertools, random, hashlib, inspect
sys.path.insert(0, os.getcwd())

from litedram import init as dut_init
from litedram import common as dut_common
from litedram.common import PhySettings, GeomSettings, TimingSettings
from litedram import modules as dram_modules

FAILS = []
def check(cond, msg):
    if not cond:
        FAILS.append(msg)
        if len(FAILS) <= 20:
            print("FAIL:", msg)

def finish(name, stats):
    print(name, "stats:", stats)
    if FAILS:
        print("%d check(s) failed" % len(FAILS))
        sys.exit(1)
    print("OK")
    sys.exit(0)

def mk_phy(memtype, nphases, cl, cwl, phytype="TESTPHY", databits=16, electrical=None,
           rdimm=None, clam_shell=False, **extra):
    ps = PhySettings(
        phytype       = phytype,
        memtype       = memtype,
        databits      = databits,
        dfi_databits  = 2*databits if memtype != "SDR" else databits,
        nphases       = nphases,
        rdphase       = 0,
        wrphase       = nphases - 1,
        cl            = cl,
        cwl           = cwl,
        read_latency  = 6,
        write_latency = 2,
        cmd_latency   = 0,
        is_clam_shell = clam_shell,
        **extra)
    for k, v in (electrical or {}).items():
        setattr(ps, k, v)
    if rdimm is not None:
        ps.set_rdimm(**rdimm)
    return ps

def mk_timing(tWTR, tWR=None, fine_refresh_mode=None):
    ts = TimingSettings(tRP=2, tRCD=2, tWR=tWR if tWR is not None else 2, tWTR=tWTR, tREFI=700, tRFC=30,
                        tFAW=6, tCCD=1, tRRD=2, tRC=8, tRAS=6, tZQCS=16)
    ts.fine_refresh_mode = fine_refresh_mode
    return ts

def run(fn, *a, **kw):
    """-> ("ok", value) or ("exc", None): any exception means 'configuration rejected'."""
    try:
        return ("ok", fn(*a, **kw))
    except Exception as e:
        return ("exc", type(e).__name__)

# -- header parsing ---------------------------------------------------------------------------------

def parse_py_header(txt):
    env = {}
    exec(txt, env)
    return env["init_sequence"], env

def parse_c_header(txt):
    """Returns the list of (comment, a, ba, cmd_value, delay) executed by init_sequence()."""
    defs = {}
    for m in re.finditer(r"^#define (DFII_\w+)\s+(0x[0-9a-fA-F]+)$", txt, re.M):
        defs[m.group(1)] = int(m.group(2), 16)
    body = txt[txt.index("static inline void init_sequence(void)"):]
    seq = []
    cur = None
    for line in body.split("\n"):
        line = line.strip()
        m = re.match(r"/\* (.*) \*/$", line)
        if m:
            cur = {"comment": m.group(1), "delay": 0}
            seq.append(cur)
            continue
        m = re.match(r"sdram_dfii_pi0_address_write\((0x[0-9a-f]+|0)\);", line)
        if m: cur["a"] = int(m.group(1), 16); continue
        m = re.match(r"sdram_dfii_pi0_baddress_write\((\d+)\);", line)
        if m: cur["ba"] = int(m.group(1)); continue
        m = re.match(r"(?:command_p0|sdram_dfii_control_write)\((.*)\);", line)
        if m:
            v = 0
            for t in m.group(1).split("|"):
                v |= defs[t]
            cur["cmd"] = v
            cur["is_control"] = line.startswith("sdram_dfii_control_write")
            continue
        m = re.match(r"cdelay\((\d+)\);", line)
        if m: cur["delay"] = int(m.group(1)); continue
    return seq, defs

PY_CONSTS = dict(dfii_control_sel=1, dfii_control_cke=2, dfii_control_odt=4, dfii_control_reset_n=8,
                 dfii_command_cs=1, dfii_command_we=2, dfii_command_cas=4, dfii_command_ras=8,
                 dfii_command_wrdata=0x10, dfii_command_rddata=0x20)

def cmd_value(cmd):
    v = 0
    for t in cmd.split("|"):
        v |= PY_CONSTS[t.lower()]
    return v

def check_c_py_same(tag, ps, ts, gs):
    """C and Python renderings describe the same sequence, and both describe init_sequence."""
    c  = dut_init.get_sdram_phy_c_header(ps, ts, gs)
    py = dut_init.get_sdram_phy_py_header(ps, ts)
    seq, mr = dut_init.get_sdram_phy_init_sequence(ps, ts)
    cseq, _ = parse_c_header(c)
    pseq, env = parse_py_header(py)
    check(len(cseq) == len(pseq), "%s: C has %d steps, Python %d" % (tag, len(cseq), len(pseq)))
    for cs, p in zip(cseq, pseq):
        check((cs["comment"], cs["a"], cs["ba"], cs["cmd"], cs["delay"]) == (p[0], p[1], p[2], p[3], p[4]),
              "%s: C step %r != Python step %r" % (tag, cs, p))
    if not ps.is_rdimm:
        check(len(pseq) == len(seq), "%s: py header length" % tag)
        for p, s in zip(pseq, seq):
            check((p[0], p[1], p[2], p[3], p[4]) == (s[0], s[1], s[2], cmd_value(s[3]), s[4]),
                  "%s: Python step %r != sequence step %r" % (tag, p, s))
    return c, py, seq, mr
# keep_1: DDR3 mode-register formatters rewritten (arithmetic CL/WR encoding, reg() field packing).

from migen import log2_int
cmds = dut_init.cmds

# -- verbatim copy of the unmodified DDR3 generator (reference) --------------------------------------
def ref_ddr3(phy_settings, timing_settings):
    cl  = phy_settings.cl
    bl  = 8
    cwl = phy_settings.cwl

    def format_mr0(bl, cl, wr, dll_reset):
        bl_to_mr0 = {4: 0b10, 8: 0b00}
        cl_to_mr0 = {5: 0b0010, 6: 0b0100, 7: 0b0110, 8: 0b1000, 9: 0b1010, 10: 0b1100, 11: 0b1110,
                     12: 0b0001, 13: 0b0011, 14: 0b0101}
        wr_to_mr0 = {16: 0b000, 5: 0b001, 6: 0b010, 7: 0b011, 8: 0b100, 10: 0b101, 12: 0b110, 14: 0b111}
        mr0 = bl_to_mr0[bl]
        mr0 |= (cl_to_mr0[cl] & 1) << 2
        mr0 |= ((cl_to_mr0[cl] >> 1) & 0b111) << 4
        mr0 |= dll_reset << 8
        mr0 |= wr_to_mr0[wr] << 9
        return mr0

    def format_mr1(ron, rtt_nom, tdqs):
        mr1 = ((ron >> 0) & 1) << 1
        mr1 |= ((ron >> 1) & 1) << 5
        mr1 |= ((rtt_nom >> 0) & 1) << 2
        mr1 |= ((rtt_nom >> 1) & 1) << 6
        mr1 |= ((rtt_nom >> 2) & 1) << 9
        mr1 |= (tdqs & 1) << 11
        return mr1

    def format_mr2(cwl, rtt_wr):
        mr2 = (cwl-5) << 3
        mr2 |= rtt_wr << 9
        return mr2

    z_to_rtt_nom = {"disabled": 0, "60ohm": 1, "120ohm": 2, "40ohm": 3, "20ohm": 4, "30ohm": 5}
    z_to_rtt_wr  = {"disabled": 0, "60ohm": 1, "120ohm": 2}
    z_to_ron     = {"40ohm": 0, "34ohm": 1}

    rtt_nom = getattr(phy_settings, "rtt_nom", "60ohm")
    rtt_wr  = getattr(phy_settings, "rtt_wr",  "60ohm")
    ron     = getattr(phy_settings, "ron",     "34ohm")
    tdqs    = getattr(phy_settings, "tdqs",    0)

    wr  = max(timing_settings.tWTR*phy_settings.nphases, 5)
    mr0 = format_mr0(bl, cl, wr, 1)
    mr1 = format_mr1(z_to_ron[ron], z_to_rtt_nom[rtt_nom], tdqs)
    mr2 = format_mr2(cwl, z_to_rtt_wr[rtt_wr])
    mr3 = 0

    init_sequence = [
        ("Release reset", 0x0000, 0, cmds["UNRESET"], 50000),
        ("Bring CKE high", 0x0000, 0, cmds["CKE"], 10000),
        ("Load Mode Register 2, CWL={0:d}".format(cwl), mr2, 2, cmds["MODE_REGISTER"], 0),
        ("Load Mode Register 3", mr3, 3, cmds["MODE_REGISTER"], 0),
        ("Load Mode Register 1", mr1, 1, cmds["MODE_REGISTER"], 0),
        ("Load Mode Register 0, CL={0:d}, BL={1:d}".format(cl, bl), mr0, 0, cmds["MODE_REGISTER"], 200),
        ("ZQ Calibration", 0x0400, 0, "DFII_COMMAND_WE|DFII_COMMAND_CS", 200),
    ]
    return init_sequence, {1: mr1}

# -- independent JEDEC (JESD79-3) decoder ------------------------------------------------------------
def bits(v, hi, lo):
    return (v >> lo) & ((1 << (hi - lo + 1)) - 1)

def decode_ddr3(seq):
    mrs = {}
    for comment, a, ba, cmd, delay in seq:
        if cmd == cmds["MODE_REGISTER"]:
            mrs[ba] = a
    d = {}
    mr0, mr1, mr2, mr3 = mrs[0], mrs[1], mrs[2], mrs[3]
    d["bl"]  = {0b00: 8, 0b01: "otf", 0b10: 4}[bits(mr0, 1, 0)]
    clcode   = (bits(mr0, 6, 4) << 1) | bits(mr0, 2, 2)       # A6 A5 A4 A2
    d["cl"]  = {0b0010: 5, 0b0100: 6, 0b0110: 7, 0b1000: 8, 0b1010: 9, 0b1100: 10, 0b1110: 11,
                0b0001: 12, 0b0011: 13, 0b0101: 14}.get(clcode)
    d["wr"]  = {0b000: 16, 0b001: 5, 0b010: 6, 0b011: 7, 0b100: 8, 0b101: 10, 0b110: 12, 0b111: 14}[bits(mr0, 11, 9)]
    d["dll_reset"] = bits(mr0, 8, 8)
    d["mr0_rsvd"]  = mr0 & ~0b0111101110111 & 0xffff | bits(mr0, 3, 3) << 3 | bits(mr0, 7, 7) << 7   # RBT, TM must be 0; A12 PD=0
    d["cwl"] = bits(mr2, 5, 3) + 5
    d["rtt_wr"] = bits(mr2, 10, 9)
    d["mr2_rsvd"] = mr2 & ~((0b111 << 3) | (0b11 << 9))
    d["ron"] = (bits(mr1, 5, 5) << 1) | bits(mr1, 1, 1)
    d["rtt_nom"] = (bits(mr1, 9, 9) << 2) | (bits(mr1, 6, 6) << 1) | bits(mr1, 2, 2)
    d["tdqs"] = bits(mr1, 11, 11)
    d["mr1_rsvd"] = mr1 & ~((1 << 1) | (1 << 5) | (1 << 2) | (1 << 6) | (1 << 9) | (1 << 11))
    d["mr3"] = mr3
    d["amax"] = max(mrs.values())
    return d

stats = dict(equal=0, both_reject=0, decoded=0, modules=0, module_reject=0, headers=0)

RTT_NOM = ["disabled", "60ohm", "120ohm", "40ohm", "20ohm", "30ohm"]
RTT_WR  = ["disabled", "60ohm", "120ohm"]
RON     = ["40ohm", "34ohm"]

# A) exhaustive comparison against the unmodified generator, including unsupported values (both must reject)
for nphases in (2, 4):
    for cl in range(3, 17):
        for cwl in range(3, 15):
            for tWTR in range(1, 10):
                ps = mk_phy("DDR3", nphases, cl, cwl)
                ts = mk_timing(tWTR)
                r = run(ref_ddr3, ps, ts)
                n = run(dut_init.get_sdram_phy_init_sequence, ps, ts)
                if r[0] == "exc":
                    check(n[0] == "exc", "DDR3 cl=%d cwl=%d tWTR=%d nphases=%d: old code rejects, new accepts" % (cl, cwl, tWTR, nphases))
                    stats["both_reject"] += 1
                    continue
                if cwl < 5 or cwl > 12:
                    # no such CWL in DDR3 (the old code let it spill into neighbouring fields): rejected or unchanged
                    check(n[0] == "exc" or n == r, "DDR3 cwl=%d: %r" % (cwl, n))
                    stats["both_reject"] += 1
                    continue
                check(n[0] == "ok" and n[1] == r[1], "DDR3 cl=%d cwl=%d tWTR=%d nphases=%d: %r != %r" % (cl, cwl, tWTR, nphases, n, r))
                stats["equal"] += 1
                if n[0] != "ok":
                    continue
                # B) independent decode
                d = decode_ddr3(n[1][0])
                wr_ctrl = max(tWTR*nphases, 5)
                check(d["bl"] == 8 == dut_common.burst_lengths["DDR3"], "BL")
                check(d["cl"] == cl, "decoded CL %r != %d" % (d["cl"], cl))
                check(d["cwl"] == cwl, "decoded CWL %r != %d" % (d["cwl"], cwl))
                check(d["wr"] == wr_ctrl, "decoded WR %r != %d" % (d["wr"], wr_ctrl))
                check(d["dll_reset"] == 1 and d["mr0_rsvd"] == 0 and d["mr2_rsvd"] == 0 and d["mr1_rsvd"] == 0 and d["mr3"] == 0, "reserved bits %r" % d)
                check(d["amax"] < 2**13, "address overflow")
                stats["decoded"] += 1

# electrical options (every combination) at a few latency points
for rtt_nom, rtt_wr, ron, tdqs in itertools.product(RTT_NOM + [None], RTT_WR + [None], RON + [None], (0, 1, None)):
    el = {}
    if rtt_nom is not None: el["rtt_nom"] = rtt_nom
    if rtt_wr  is not None: el["rtt_wr"]  = rtt_wr
    if ron     is not None: el["ron"]     = ron
    if tdqs    is not None: el["tdqs"]    = tdqs
    for cl, cwl, tWTR in ((5, 5, 1), (7, 6, 2), (11, 8, 2), (14, 12, 4)):
        ps = mk_phy("DDR3", 4, cl, cwl, electrical=el)
        ts = mk_timing(tWTR)
        r = run(ref_ddr3, ps, ts)
        n = run(dut_init.get_sdram_phy_init_sequence, ps, ts)
        check(r[0] == "ok" and n == r, "electrical %r: %r != %r" % (el, n, r))
        d = decode_ddr3(n[1][0])
        check(d["rtt_nom"] == RTT_NOM.index(el.get("rtt_nom", "60ohm")), "rtt_nom")
        check(d["rtt_wr"]  == RTT_WR.index(el.get("rtt_wr", "60ohm")), "rtt_wr")
        check(d["ron"]     == RON.index(el.get("ron", "34ohm")), "ron")
        check(d["tdqs"]    == el.get("tdqs", 0), "tdqs")
        check(d["cl"] == cl and d["cwl"] == cwl and d["mr1_rsvd"] == 0 and d["mr2_rsvd"] == 0 and d["mr0_rsvd"] == 0, "fields disturbed by electrical settings")
        check(n[1][1] == {1: [s for s in n[1][0] if s[2] == 1 and s[3] == cmds["MODE_REGISTER"]][0][1]}, "mr dict")
        stats["equal"] += 1

# C) every DDR3 module of the library x clocks x PHY rates, CL/CWL from the default table
ddr3_modules = [c for _, c in inspect.getmembers(dram_modules, inspect.isclass)
                if issubclass(c, dram_modules.SDRAMModule) and getattr(c, "memtype", None) == "DDR3" and hasattr(c, "nbanks")]
assert len(ddr3_modules) >= 10
for mod in ddr3_modules:
    for nphases, rate in ((4, "1:4"), (2, "1:2")):
        for f in (50e6, 62.5e6, 75e6, 83.33e6, 100e6, 111e6, 125e6, 133.33e6, 150e6, 166.66e6, 175e6, 200e6, 225e6):
            tck = 2/(2*nphases*f)
            lat = run(dut_common.get_default_cl_cwl, "DDR3", tck)
            if lat[0] == "exc":
                continue
            cl, cwl = lat[1]
            m = mod(f, rate)
            ps = mk_phy("DDR3", nphases, cl, cwl, databits=8)
            ts = m.timing_settings
            r = run(ref_ddr3, ps, ts)
            n = run(dut_init.get_sdram_phy_init_sequence, ps, ts)
            if r[0] == "exc":
                check(n[0] == "exc", "%s @%g: old rejects, new accepts" % (mod.__name__, f))
                stats["module_reject"] += 1
                continue
            check(n == r, "%s @%g: %r != %r" % (mod.__name__, f, n, r))
            d = decode_ddr3(n[1][0])
            check((d["cl"], d["cwl"], d["bl"]) == (cl, cwl, 8), "%s @%g: latencies" % (mod.__name__, f))
            # write recovery: exactly what the controller derives from its own tWTR, and it covers the datasheet tWR
            check(d["wr"] == max(ts.tWTR*nphases, 5), "%s @%g: WR vs controller" % (mod.__name__, f))
            twr = m.get("tWR")
            twr_ck = max(twr.ck, -(-twr.ns*1e-9 // tck))
            if d["wr"] < twr_ck:
                # not introduced by the change: must be identical on the reference
                dr = decode_ddr3(r[1][0])
                check(dr["wr"] == d["wr"], "%s @%g: WR differs from reference" % (mod.__name__, f))
            stats["modules"] += 1
            if f in (100e6, 125e6):
                check_c_py_same("%s@%g" % (mod.__name__, f), ps, ts, m.geom_settings)
                stats["headers"] += 1

# D) golden file of the test-suite (KC705: CL7/CWL6, tWTR*nphases=8): MR values must match test/reference/ddr3_init.py
ps = mk_phy("DDR3", 4, 7, 6)
seq, mr = dut_init.get_sdram_phy_init_sequence(ps, mk_timing(2))
golden, _ = parse_py_header(open(os.path.join("test", "reference", "ddr3_init.py")).read())
check([(s[0], s[1], s[2], cmd_value(s[3]), s[4]) for s in seq] == [tuple(g) for g in golden], "golden ddr3_init.py: %r" % (seq,))
check(mr == {1: 6}, "golden mr1")

finish("keep_1", stats)
