#!/usr/bin/env python3
# Check for keep_1 (common.py: tFAWController keeps a running activate count instead of a popcount of the window).
#
# Part A (unit level, the real tFAWController in migen.sim): for tfaw = 1..40 the `ready` output is compared
#   cycle by cycle against a plain-Python model of the ORIGINAL implementation (popcount of the tfaw-bit
#   window, truncated to the width of the original `count` signal) for unconstrained random `valid` streams
#   of several densities and for streams where `valid` is only raised while `ready` is high (how the
#   Multiplexer uses it). For the gated streams the property itself is also checked directly: any five
#   consecutive accepted activates span at least tfaw cycles... i.e. never more than 4 activates in a window.
# Part B (system level): the real LiteDRAMController is driven with bank-conflict heavy random traffic for
#   DDR3/DDR4/SDR configurations; every command on the DFI bus (time = sys_cycle*nphases + phase) is checked
#   against the spacings computed from the module's datasheet numbers (tFAW, tRRD, tRC, tRP, tRAS, tRCD,
#   tCCD, tWR, tWTR, tRFC, tZQCS).
#
# exit 0 = everything holds.

import os
import sys
import math
import random

sys.path.insert(0, os.getcwd())

from migen import *

from litedram import modules as M
from litedram.common import PhySettings, burst_lengths, tFAWController
from litedram.core.controller import LiteDRAMController, ControllerSettings

# Datasheet requirement table (DRAM clocks) --------------------------------------------------------

def requirements(module, nphases, cwl, memtype):
    tck = 1e9/(module.clk_freq*nphases)
    def ck(t):
        if t is None:
            return None
        return max(t.ck, math.ceil(t.ns/tck - 1e-6))
    def g(name):
        if name == "tRFC" and memtype == "DDR4":
            return module.get(name, module.timing_settings.fine_refresh_mode)
        return module.get(name)
    r = {name: ck(g(name)) for name in ["tRP", "tRCD", "tWR", "tWTR", "tRFC", "tFAW", "tCCD", "tRRD", "tRAS", "tZQCS"]}
    r["tRC"] = None if g("tRAS") is None else ck(g("tRAS") + g("tRP"))
    if memtype == "SDR":
        r["wburst"] = 0 + 1               # write data on the command edge, single beat
    else:
        r["wburst"] = cwl + burst_lengths[memtype]//2
    return r

# DFI monitor / checker ----------------------------------------------------------------------------

class Checker:
    def __init__(self, req, nbanks, tag):
        self.r      = req
        self.tag    = tag
        self.nbanks = nbanks
        self.errors = []
        self.open     = [False]*nbanks
        self.last_act = [None]*nbanks
        self.last_wr  = [None]*nbanks
        self.pre_eff  = [None]*nbanks
        self.acts     = []
        self.last_cas    = None
        self.last_wr_any = None
        self.last_ref    = None
        self.last_zq     = None
        self.counts = dict(ACT=0, PRE=0, PREA=0, RD=0, WR=0, RDA=0, WRA=0, REF=0, ZQCS=0)
        self.slack  = {}
        self.tfaw_blocked = 0   # cycles in which the tFAW gate was closed
        self.nphases = 1
        self.ref_to_act_sys = None   # minimum REF -> ACT distance seen, in controller cycles

    def err(self, T, msg):
        self.errors.append("%s: T=%d %s" % (self.tag, T, msg))

    def gap(self, T, since, need, name):
        if since is None or need is None:
            return
        d = T - since
        s = d - need
        if name not in self.slack or s < self.slack[name]:
            self.slack[name] = s
        if d < need:
            self.err(T, "%s violated: %d < %d" % (name, d, need))

    def common(self, T):
        self.gap(T, self.last_ref, self.r["tRFC"],  "tRFC")
        self.gap(T, self.last_zq,  self.r["tZQCS"], "tZQCS")

    def cmd(self, T, kind, bank, a10):
        r = self.r
        self.common(T)
        if kind == "ACT":
            self.counts["ACT"] += 1
            if self.open[bank]:
                self.err(T, "ACT to open bank %d" % bank)
            self.gap(T, self.pre_eff[bank],  r["tRP"], "tRP")
            if self.last_ref is not None:
                d = T//self.nphases - self.last_ref//self.nphases
                if self.ref_to_act_sys is None or d < self.ref_to_act_sys:
                    self.ref_to_act_sys = d
            self.gap(T, self.last_act[bank], r["tRC"], "tRC")
            if self.acts:
                self.gap(T, self.acts[-1], r["tRRD"], "tRRD")
            if len(self.acts) >= 4:
                self.gap(T, self.acts[-4], r["tFAW"], "tFAW")
            self.acts.append(T)
            self.acts = self.acts[-4:]
            self.open[bank]     = True
            self.last_act[bank] = T
            self.last_wr[bank]  = None
        elif kind in ["RD", "WR"]:
            self.counts[kind + ("A" if a10 else "")] += 1
            if not self.open[bank]:
                self.err(T, "%s to closed bank %d" % (kind, bank))
            self.gap(T, self.last_act[bank], r["tRCD"], "tRCD")
            self.gap(T, self.last_cas,       r["tCCD"], "tCCD")
            if kind == "RD":
                self.gap(T, self.last_wr_any, r["wburst"] + r["tWTR"], "tWTR")
            else:
                self.last_wr_any   = T
                self.last_wr[bank] = T
            self.last_cas = T
            if a10:
                pe = T
                if self.last_wr[bank] is not None:
                    pe = max(pe, self.last_wr[bank] + r["wburst"] + r["tWR"])
                if r["tRAS"] is not None and self.last_act[bank] is not None:
                    pe = max(pe, self.last_act[bank] + r["tRAS"])
                self.pre_eff[bank] = pe
                self.open[bank]    = False
        elif kind == "PRE":
            self.counts["PREA" if a10 else "PRE"] += 1
            banks = range(self.nbanks) if a10 else [bank]
            for b in banks:
                if self.open[b]:
                    self.gap(T, self.last_act[b], r["tRAS"], "tRAS")
                    self.gap(T, self.last_wr[b],  r["wburst"] + r["tWR"], "tWR")
                    self.open[b]    = False
                    self.pre_eff[b] = T
                elif self.pre_eff[b] is not None and self.pre_eff[b] > T:
                    # Auto-precharge still pending in this bank: an explicit precharge must not cut it short.
                    self.err(T, "PRE while auto-precharge of bank %d pending" % b)
        elif kind in ["REF", "ZQCS"]:
            self.counts[kind] += 1
            for b in range(self.nbanks):
                if self.open[b]:
                    self.err(T, "%s with bank %d open" % (kind, b))
                self.gap(T, self.pre_eff[b], r["tRP"], "tRP(" + kind + ")")
            if kind == "REF":
                self.last_ref = T
            else:
                self.last_zq = T
        else:
            self.err(T, "unexpected command " + kind)

DECODE = {
    (0, 1, 1): "ACT",
    (0, 1, 0): "PRE",
    (0, 0, 1): "REF",
    (1, 0, 1): "RD",
    (1, 0, 0): "WR",
    (1, 1, 0): "ZQCS",
    (0, 0, 0): "MRS",
}

# Simulation ---------------------------------------------------------------------------------------

def phy_settings_for(memtype, nphases, cl, cwl, rdphase, wrphase):
    return PhySettings(
        phytype       = "SIM",
        memtype       = memtype,
        databits      = 16,
        dfi_databits  = 16 if memtype == "SDR" else 32,
        nphases       = nphases,
        rdphase       = rdphase,
        wrphase       = wrphase,
        cl            = cl,
        cwl           = cwl,
        read_latency  = math.ceil(cl/nphases) + 4,
        write_latency = math.ceil(cwl/nphases))

def run_one(modname, clk_freq, rate, speedgrade, cl, cwl, rdphase, wrphase, seed, cycles,
            auto_precharge=True, buffered=False, trefi=None, postponing=1, mode="mixed"):
    cls     = getattr(M, modname)
    nphases = int(rate.split(":")[1])
    module  = cls(clk_freq, rate, speedgrade=speedgrade)
    memtype = module.memtype
    tag = "%s@%gMHz %s sg=%s rd/wr=%d/%d ap=%d seed=%d mode=%s" % (
        modname, clk_freq/1e6, rate, speedgrade, rdphase, wrphase, auto_precharge, seed, mode)

    timing = module.timing_settings
    # Refresh (and ZQCS) far more often than in reality, to get many activate-then-refresh races. tREFI is
    # a maximum, so shortening it never relaxes anything.
    timing.tREFI = trefi if trefi is not None else 100 + 8*(seed % 7)
    cs = ControllerSettings(
        cmd_buffer_depth    = 4,
        cmd_buffer_buffered = buffered,
        read_time           = 12,
        write_time          = 8,
        with_auto_precharge = auto_precharge,
        refresh_zqcs_freq   = clk_freq/(3*timing.tREFI + 17),
        refresh_postponing  = postponing)
    dut = LiteDRAMController(
        phy_settings        = phy_settings_for(memtype, nphases, cl, cwl, rdphase, wrphase),
        geom_settings       = module.geom_settings,
        timing_settings     = timing,
        clk_freq            = clk_freq,
        controller_settings = cs)

    nbanks  = 2**module.geom_settings.bankbits
    req     = requirements(module, nphases, cwl, memtype)
    checker = Checker(req, nbanks, tag)
    checker.nphases  = nphases
    checker.trfc_sys = timing.tRFC
    prng    = random.Random(seed)
    banks   = [getattr(dut.interface, "bank%d" % n) for n in range(nbanks)]
    colbits = module.geom_settings.colbits
    align   = int(math.log2(burst_lengths[memtype] if memtype != "SDR" else nphases))
    split   = colbits - align

    # Flattened observation signals: one simulator read per cycle instead of one per wire.
    top = Module()
    top.submodules.dut = dut
    readys = Signal(nbanks)
    top.comb += readys.eq(Cat(*[b.ready for b in banks]))
    abits  = module.geom_settings.addressbits
    bbits  = module.geom_settings.bankbits
    pw     = 4 + bbits + 1
    flat   = Signal(pw*nphases)
    top.comb += flat.eq(Cat(*[Cat(ph.cs_n[0], ph.ras_n, ph.cas_n, ph.we_n, ph.bank[:bbits], ph.address[10])
        for ph in dut.dfi.phases]))

    def new_request(n, state):
        # row pool of 3 rows per bank: row hits, conflicts and re-opens all happen
        if mode == "conflict":
            row = prng.randrange(4)
        elif mode == "hits":
            row = state["row"] if prng.random() < 0.9 else prng.randrange(3)
        else:
            row = state["row"] if prng.random() < 0.6 else prng.randrange(3)
        state["row"] = row
        if prng.random() < 0.25:
            state["we"] = prng.randrange(2)
        col = prng.randrange(2**split)
        return (row << split) | col, state["we"]

    def traffic():
        states = [dict(row=0, we=prng.randrange(2), idle=prng.randrange(20), valid=0) for _ in range(nbanks)]
        # global activity phases, so that banks go idle / busy together from time to time
        quiet = 0
        for cyc in range(cycles):
            if quiet == 0 and prng.random() < 0.004:
                quiet = prng.randrange(10, 120)
            if quiet:
                quiet -= 1
            rdy = (yield readys)
            for n, (b, s) in enumerate(zip(banks, states)):
                if s["valid"]:
                    if (rdy >> n) & 1:
                        s["valid"] = 0
                        yield b.valid.eq(0)
                        s["idle"] = 0 if prng.random() < 0.7 else prng.randrange(1, 40)
                    else:
                        continue
                if not s["valid"]:
                    if s["idle"] > 0:
                        s["idle"] -= 1
                    elif not quiet:
                        addr, we = new_request(n, s)
                        yield b.addr.eq(addr)
                        yield b.we.eq(we)
                        yield b.valid.eq(1)
                        s["valid"] = 1
            yield

    @passive
    def monitor():
        cyc = 0
        while True:
            v = (yield flat)
            if not (yield dut.multiplexer.tfawcon.ready):
                checker.tfaw_blocked += 1
            for p in range(nphases):
                w = (v >> (p*pw)) & (2**pw - 1)
                if w & 1:
                    continue
                key = ((w >> 1) & 1, (w >> 2) & 1, (w >> 3) & 1)
                if key == (1, 1, 1):
                    continue
                kind = DECODE[key]
                bank = (w >> 4) & (2**bbits - 1)
                a10  = (w >> (4 + bbits)) & 1
                checker.cmd(cyc*nphases + p, kind, bank, a10)
            yield
            cyc += 1

    run_simulation(top, [traffic(), monitor()])
    return checker


# Part A -------------------------------------------------------------------------------------------

class OriginalTFAW:
    """Plain-Python model of the unmodified tFAWController."""
    def __init__(self, tfaw):
        self.tfaw   = tfaw
        self.window = 0
        self.ready  = 1
        self.mask   = 2**max((max(tfaw, 2) - 1).bit_length(), 1) - 1   # Signal(max=max(tfaw, 2))

    def step(self, valid):
        count = bin(self.window).count("1") & self.mask
        ready = self.ready
        if count < 4:
            ready = (0 if valid else 1) if count == 3 else 1
        self.window = ((self.window << 1) | valid) & (2**self.tfaw - 1)
        self.ready  = ready

def unit_case(tfaw, density, gated, seed, cycles):
    # `valid` is derived combinatorially from `ready` in the gated case, exactly like the Multiplexer does
    # (a simulator generator can only react one cycle late).
    top = Module()
    top.submodules.dut = dut = tFAWController(tfaw)
    req = Signal()
    top.comb += dut.valid.eq(req & (dut.ready if gated else 1))
    ref  = OriginalTFAW(tfaw)
    prng = random.Random(seed)
    res  = dict(mismatch=0, accepted=[], ready0=0)

    def gen():
        # Values read at a clock edge are those of the cycle that ends there.
        for cyc in range(cycles):
            ready = (yield dut.ready)
            valid = (yield dut.valid)
            if ready != ref.ready:
                res["mismatch"] += 1
            if not ready:
                res["ready0"] += 1
            if valid:
                res["accepted"].append(cyc)
            ref.step(valid)
            yield req.eq(int(prng.random() < density))
            yield

    run_simulation(top, gen())
    return res

def part_a():
    bad = 0
    blocked = 0
    for tfaw in range(1, 41):
        for i, (density, gated) in enumerate([(0.1, 0), (0.35, 0), (0.6, 0), (0.95, 0), (1.0, 0),
                                              (0.3, 1), (0.7, 1), (1.0, 1)]):
            r = unit_case(tfaw, density, gated, seed=1000*tfaw + i, cycles=600)
            if r["mismatch"]:
                print("tfaw=%d density=%g gated=%d: %d cycles where ready differs from the original" % (
                    tfaw, density, gated, r["mismatch"]))
                bad += 1
            if gated:
                blocked += r["ready0"]
                acc = r["accepted"]
                for a, b in zip(acc, acc[4:]):
                    if b - a < tfaw:
                        print("tfaw=%d: five activates within %d cycles" % (tfaw, b - a + 1))
                        bad += 1
                        break
    if blocked == 0:
        print("ready never went low in the gated runs")
        bad += 1
    print("part A: %s" % ("FAIL" if bad else "ok"))
    return bad

# Part B -------------------------------------------------------------------------------------------

def work(cfg):
    c = run_one(**cfg)
    return dict(tag=c.tag, errors=c.errors, counts=c.counts, slack=c.slack, tfaw_blocked=c.tfaw_blocked)

def part_b(quick):
    import multiprocessing
    cycles = 1500 if quick else 3500
    base = [
        # (module, clk_freq, rate, speedgrade, cl, cwl, rdphase, wrphase)
        ("MT41J256M8",   200e6, "1:4", "1066", 7, 6, 2, 3),    # tFAW > 4*tRRD in controller cycles
        # (rdphase == wrphase here: this entry's tRRD is clock-count dominated (6 ck -> 3 cycles, converted
        # without phase margin), so the UNMODIFIED tree already misses it by one clock when the two command
        # phases differ - independent of the tFAW controller, hence kept out of this check.)
        ("H5TQ4G63EFR",  125e6, "1:2", "1866", 7, 6, 1, 1),    # tFAW > 4*tRRD in controller cycles
        ("MT40A256M16",  250e6, "1:4", "2400", 13, 10, 0, 1),  # tFAW > 4*tRRD in controller cycles
        ("MT41K128M16",  100e6, "1:4", "800",  6, 5, 2, 3),
        ("MT41K128M16",  200e6, "1:4", "1600", 11, 8, 1, 0),
        ("MT41J256M16",  125e6, "1:2", "1066", 5, 5, 0, 1),
        ("MT41K64M16",    50e6, "1:4", "800",  5, 5, 3, 0),
        ("MT40A1G8",     200e6, "1:4", "2400", 11, 9, 0, 2),
        ("EDY4016A",     150e6, "1:4", "2400", 9, 9, 1, 1),
        ("MT47H64M16",   125e6, "1:2", None,   4, 3, 1, 0),
        ("MT48LC16M16",  100e6, "1:1", None,   2, 2, 0, 0),
    ]
    cfgs = []
    for i, (mod, f, rate, sg, cl, cwl, rdp, wrp) in enumerate(base):
        for k in range(1 if quick else 2):
            cfgs.append(dict(modname=mod, clk_freq=f, rate=rate, speedgrade=sg, cl=cl, cwl=cwl,
                rdphase=rdp, wrphase=wrp, seed=7000 + 10*i + k, cycles=cycles,
                auto_precharge=(k == 0), mode="conflict", trefi=160))
    with multiprocessing.Pool(int(os.environ.get("KEEP_JOBS", "6"))) as pool:
        results = pool.map(work, cfgs, chunksize=1)
    bad   = 0
    slack = {}
    acts  = 0
    blocked = 0
    for c in results:
        blocked += c["tfaw_blocked"]
        for k, v in c["slack"].items():
            slack[k] = min(slack.get(k, v), v)
        acts += c["counts"]["ACT"]
        print("%-75s %s %s tFAW-gate-closed=%d" % (c["tag"], "FAIL" if c["errors"] else "ok  ",
            " ".join("%s=%d" % kv for kv in sorted(c["counts"].items())), c["tfaw_blocked"]))
        for e in c["errors"][:10]:
            print("   ", e)
        bad += len(c["errors"])
    print("minimum slack (DRAM clocks) per rule:", dict(sorted(slack.items())))
    if "tFAW" not in slack or acts < 1000 or blocked == 0:
        print("tFAW never exercised")
        bad += 1
    print("part B: %s" % ("FAIL" if bad else "ok"))
    return bad

def main():
    quick = "--quick" in sys.argv
    bad   = part_a()
    bad  += part_b(quick)
    print("FAIL" if bad else "PASS")
    sys.exit(1 if bad else 0)

if __name__ == "__main__":
    main()
