import os, sys, random, itertools
sys.path.insert(0, os.getcwd())

from migen import *

from litedram.common import PhySettings, GeomSettings, TimingSettings, burst_lengths
from litedram.core.controller import ControllerSettings, LiteDRAMController

from litex.gen.sim import run_simulation


# --------------------------------------------------------------------------------------------------
# Reference model of the DRAM bank state + checker of the DFI command stream (property C02)
# --------------------------------------------------------------------------------------------------

class Violation(Exception):
    pass


class Config:
    def __init__(self, memtype, nphases, rdphase, wrphase, nranks, bankbits, colbits=10, rowbits=13,
                 auto_precharge=True, postponing=1, zqcs=True, buffered=False, depth=4,
                 signal_phases=False, timings=None, seed=0, cycles=2500, load=0.7, nrows=3):
        self.__dict__.update(locals())
        del self.__dict__["self"]

    def __repr__(self):
        d = dict(self.__dict__)
        return "Config(%s)" % ", ".join("%s=%r" % kv for kv in sorted(d.items()))


def build(cfg):
    rng = random.Random(cfg.seed)
    t = dict(tRP=rng.randint(1, 4), tRCD=rng.randint(1, 4), tWR=rng.randint(1, 4), tWTR=rng.randint(1, 4),
             tREFI=rng.randint(100, 160), tRFC=rng.randint(3, 12),
             tFAW=rng.choice([None, 8, 12]), tCCD=rng.choice([1, 2, 4]),
             tRRD=rng.choice([None, 2, 3]), tRC=rng.choice([None, 6, 10]),
             tRAS=rng.choice([None, 4, 8]), tZQCS=(rng.randint(4, 10) if cfg.zqcs else None))
    if cfg.timings:
        t.update(cfg.timings)
    rdphase, wrphase = cfg.rdphase, cfg.wrphase
    if cfg.signal_phases:
        rdphase = Signal(max=max(cfg.nphases, 2), reset=cfg.rdphase)
        wrphase = Signal(max=max(cfg.nphases, 2), reset=cfg.wrphase)
    phy = PhySettings(
        phytype="SIM", memtype=cfg.memtype, databits=8, dfi_databits=16, nphases=cfg.nphases,
        rdphase=rdphase, wrphase=wrphase, cl=rng.randint(2, 6), cwl=rng.randint(1, 5),
        read_latency=rng.randint(2, 7), write_latency=rng.randint(0, 3), nranks=cfg.nranks)
    geom = GeomSettings(bankbits=cfg.bankbits, rowbits=cfg.rowbits, colbits=cfg.colbits)
    timing = TimingSettings(**t)
    cs = ControllerSettings(
        cmd_buffer_depth=cfg.depth, cmd_buffer_buffered=cfg.buffered,
        read_time=rng.choice([0, 8, 32]), write_time=rng.choice([0, 8, 16]),
        with_refresh=True, refresh_zqcs_freq=1e6/rng.randint(300, 500),
        refresh_postponing=cfg.postponing, with_auto_precharge=cfg.auto_precharge)
    dut = LiteDRAMController(phy, geom, timing, clk_freq=1e6, controller_settings=cs)
    dut.cfg = cfg
    dut.t = t
    return dut


class Checker:
    """Follows the DFI bus phase by phase and keeps the open row of every bank of every rank."""
    def __init__(self, dut):
        cfg = dut.cfg
        self.dut, self.cfg = dut, cfg
        self.nbanks = 2**cfg.bankbits
        if cfg.memtype == "SDR":
            bl = cfg.nphases
        else:
            bl = burst_lengths[cfg.memtype]
        self.align = (bl - 1).bit_length()
        self.open = [[None]*self.nbanks for _ in range(cfg.nranks)]
        self.queue = [[] for _ in range(cfg.nranks*self.nbanks)]   # accepted, not yet served requests
        self.stats = dict(ACT=0, RD=0, WR=0, PRE=0, PREA=0, REF=0, ZQCS=0, AP=0, accepted=0)
        self.cycle = 0

    def fail(self, msg):
        raise Violation("cycle %d: %s   [%r]" % (self.cycle, msg, self.cfg))

    def dfi_col(self, col):
        full = col << self.align
        if self.cfg.colbits > 10:
            return (full & 0x3ff) | ((full >> 10) << 11)
        return full

    def command(self, ph, cs_n, ras_n, cas_n, we_n, bank, address, rden, wren):
        cfg = self.cfg
        allranks = (1 << cfg.nranks) - 1
        sel = (~cs_n) & allranks
        code = (ras_n, cas_n, we_n)
        is_cmd = code != (1, 1, 1) and sel != 0
        is_rd = is_cmd and code == (1, 0, 1)
        is_wr = is_cmd and code == (1, 0, 0)
        # data-enable strobes exactly with the read / write commands
        if rden != int(is_rd):
            self.fail("phase %d rddata_en=%d but read command=%d" % (ph, rden, is_rd))
        if wren != int(is_wr):
            self.fail("phase %d wrdata_en=%d but write command=%d" % (ph, wren, is_wr))
        if not is_cmd:
            return
        ranks = [r for r in range(cfg.nranks) if (sel >> r) & 1]
        a10 = (address >> 10) & 1
        if code == (0, 1, 1):      # ACT
            self.stats["ACT"] += 1
            if len(ranks) != 1:
                self.fail("ACT with cs_n=%x" % cs_n)
            r = ranks[0]
            if self.open[r][bank] is not None:
                self.fail("ACT on open bank r%d b%d (row %x open)" % (r, bank, self.open[r][bank]))
            q = self.queue[r*self.nbanks + bank]
            if not q:
                self.fail("ACT on r%d b%d without pending request" % (r, bank))
            if q[0][1] != address:
                self.fail("ACT row %x, oldest pending request wants row %x" % (address, q[0][1]))
            self.open[r][bank] = address
        elif is_rd or is_wr:
            self.stats["WR" if is_wr else "RD"] += 1
            if len(ranks) != 1:
                self.fail("RD/WR with cs_n=%x" % cs_n)
            r = ranks[0]
            if is_rd and ph != cfg.rdphase:
                self.fail("READ on phase %d, rdphase=%d" % (ph, cfg.rdphase))
            if is_wr and ph != cfg.wrphase:
                self.fail("WRITE on phase %d, wrphase=%d" % (ph, cfg.wrphase))
            row = self.open[r][bank]
            if row is None:
                self.fail("RD/WR on precharged bank r%d b%d" % (r, bank))
            q = self.queue[r*self.nbanks + bank]
            if not q:
                self.fail("RD/WR on r%d b%d without pending request" % (r, bank))
            we, rrow, col = q.pop(0)
            if we != int(is_wr):
                self.fail("request we=%d served as %s" % (we, "WR" if is_wr else "RD"))
            if rrow != row:
                self.fail("RD/WR r%d b%d: open row %x, request addressed row %x" % (r, bank, row, rrow))
            if (address & ~(1 << 10)) != self.dfi_col(col):
                self.fail("RD/WR column %x, expected %x" % (address, self.dfi_col(col)))
            if a10:
                self.stats["AP"] += 1
                if not cfg.auto_precharge:
                    self.fail("auto-precharge although disabled")
                if not q or q[0][1] == rrow:
                    self.fail("auto-precharge but next queued request is not to another row")
                self.open[r][bank] = None
        elif code == (0, 1, 0):    # PRE
            if a10:
                self.stats["PREA"] += 1
                if sel != allranks:
                    self.fail("precharge-all with cs_n=%x" % cs_n)
                for r in ranks:
                    self.open[r] = [None]*self.nbanks
            else:
                self.stats["PRE"] += 1
                if len(ranks) != 1:
                    self.fail("PRE with cs_n=%x" % cs_n)
                self.open[ranks[0]][bank] = None
        elif code == (0, 0, 1):    # REF
            self.stats["REF"] += 1
            if sel != allranks:
                self.fail("REFRESH with cs_n=%x" % cs_n)
            for r in ranks:
                for b in range(self.nbanks):
                    if self.open[r][b] is not None:
                        self.fail("REFRESH while r%d b%d open" % (r, b))
        elif code == (1, 1, 0):    # ZQCS
            self.stats["ZQCS"] += 1
            if sel != allranks:
                self.fail("ZQCS with cs_n=%x" % cs_n)
            for r in ranks:
                for b in range(self.nbanks):
                    if self.open[r][b] is not None:
                        self.fail("ZQCS while r%d b%d open" % (r, b))
        else:
            self.fail("unexpected command %r" % (code,))

    def monitor(self, ncycles):
        phases = self.dut.dfi.phases
        for c in range(ncycles):
            self.cycle = c
            for i, p in enumerate(phases):
                ras_n = (yield p.ras_n)
                cas_n = (yield p.cas_n)
                we_n  = (yield p.we_n)
                rden  = (yield p.rddata_en)
                wren  = (yield p.wrdata_en)
                if (ras_n, cas_n, we_n, rden, wren) == (1, 1, 1, 0, 0):
                    continue
                cs_n  = (yield p.cs_n)
                bank  = (yield p.bank)
                addr  = (yield p.address)
                self.command(i, cs_n, ras_n, cas_n, we_n, bank, addr, rden, wren)
            yield

    def driver(self, n, seed, stop_at):
        cfg = self.cfg
        rng = random.Random(seed)
        bank = getattr(self.dut.interface, "bank%d" % n)
        rows = [rng.randrange(2**cfg.rowbits) for _ in range(cfg.nrows)]
        ncols = 2**(cfg.colbits - self.align)
        burst = 0
        while True:
            if burst == 0:
                # idle gap, then a burst of back to back requests
                gap = 0 if rng.random() < cfg.load else rng.randint(1, 60)
                for _ in range(gap):
                    yield
                burst = rng.randint(1, 12)
            burst -= 1
            if self.cycle >= stop_at:
                return
            row = rng.choice(rows) if rng.random() < 0.9 else rows[0]
            if rng.random() < 0.6 and self.queue[n]:
                row = self.queue[n][-1][1]        # row hit with the previous request
            col = rng.randrange(ncols)
            we = int(rng.random() < 0.5)
            yield bank.addr.eq((row << (cfg.colbits - self.align)) | col)
            yield bank.we.eq(we)
            yield bank.valid.eq(1)
            yield
            while not (yield bank.ready):
                if self.cycle > stop_at + 500:
                    self.fail("request to bank %d never accepted (liveness)" % n)
                yield
            self.queue[n].append((we, row, col))
            self.stats["accepted"] += 1
            yield bank.valid.eq(0)
            if rng.random() < 0.3:
                yield


def run(cfg, extra=None, verbose=False):
    dut = build(cfg)
    chk = Checker(dut)
    nb = cfg.nranks * 2**cfg.bankbits
    drain = 600
    gens = [chk.monitor(cfg.cycles + drain)]
    for n in range(nb):
        gens.append(chk.driver(n, cfg.seed*1000 + n, cfg.cycles))
    if extra is not None:
        gens += extra(dut, chk, cfg.cycles + drain)
    run_simulation(dut, gens)
    left = sum(len(q) for q in chk.queue)
    if left:
        chk.fail("%d accepted requests never served (liveness)" % left)
    if verbose:
        print(cfg.memtype, "nph", cfg.nphases, "ranks", cfg.nranks, "banks", 2**cfg.bankbits, chk.stats, flush=True)
    return chk


def default_configs(seed0=0, cycles=2500):
    cfgs = []
    s = itertools.count(seed0)
    #           memtype nph rd wr ranks bankbits
    base = [("SDR",    1, 0, 0, 1, 2),
            ("DDR2",   2, 0, 1, 1, 3),
            ("DDR2",   2, 1, 0, 2, 2),
            ("DDR3",   4, 2, 3, 1, 3),
            ("DDR3",   4, 1, 1, 2, 2),
            ("DDR4",   4, 3, 0, 1, 3),
            ("LPDDR4", 8, 5, 2, 1, 2),
            ("DDR",    2, 0, 0, 1, 2)]
    for k, (mt, nph, rd, wr, nr, bb) in enumerate(base):
        for ap in (True, False):
            cfgs.append(Config(mt, nph, rd, wr, nr, bb,
                colbits=11 if k % 3 == 1 else 10,
                auto_precharge=ap,
                postponing=1 + (k + ap) % 3,
                zqcs=(k % 4 != 3),
                buffered=bool((k + ap) % 2),
                depth=[4, 8, 2][k % 3],
                signal_phases=(k == 3 and ap),
                seed=next(s), cycles=cycles,
                load=[0.9, 0.5, 0.7][k % 3]))
    return cfgs


def summarize(checkers):
    tot = {}
    for c in checkers:
        for k, v in c.stats.items():
            tot[k] = tot.get(k, 0) + v
    print("total", tot)
    for k in ("ACT", "RD", "WR", "PRE", "PREA", "REF", "ZQCS", "AP"):
        assert tot[k] > 0, "no %s observed: harness not exercising the design" % k
    return tot

# --------------------------------------------------------------------------------------------------
# keep_1: BankMachine with a registered row_hit.
#  (a) lock-step comparison of the BankMachine of the tree against an embedded copy of the original
#      (combinatorial row_hit) BankMachine: every output must be identical in every cycle;
#  (b) bank-machine level reference model (open row tracking) on the command stream;
#  (c) full controller runs with the DFI reference model (property C02), several configurations.
# --------------------------------------------------------------------------------------------------

import math
from litex.soc.interconnect import stream
from litedram.common import *
from litedram.core.bankmachine import BankMachine, _AddressSlicer


class RefBankMachine(Module):
    """Verbatim copy of the unmodified BankMachine (combinatorial row_hit)."""
    def __init__(self, n, address_width, address_align, nranks, settings):
        self.req = req = Record(cmd_layout(address_width))
        self.refresh_req = refresh_req = Signal()
        self.refresh_gnt = refresh_gnt = Signal()
        a  = settings.geom.addressbits
        ba = settings.geom.bankbits + log2_int(nranks)
        self.cmd = cmd = stream.Endpoint(cmd_request_rw_layout(a, ba))
        auto_precharge = Signal()
        cmd_buffer_layout    = [("we", 1), ("addr", len(req.addr))]
        cmd_buffer_lookahead = stream.SyncFIFO(
            cmd_buffer_layout, settings.cmd_buffer_depth,
            buffered=settings.cmd_buffer_buffered)
        cmd_buffer = stream.Buffer(cmd_buffer_layout)
        self.submodules += cmd_buffer_lookahead, cmd_buffer
        self.comb += [
            req.connect(cmd_buffer_lookahead.sink, keep={"valid", "ready", "we", "addr"}),
            cmd_buffer_lookahead.source.connect(cmd_buffer.sink),
            cmd_buffer.source.ready.eq(req.wdata_ready | req.rdata_valid),
            req.lock.eq(cmd_buffer_lookahead.source.valid | cmd_buffer.source.valid | (cmd_buffer_lookahead.level != 0)),
        ]
        slicer = _AddressSlicer(settings.geom.colbits, address_align)
        row        = Signal(settings.geom.rowbits)
        row_opened = Signal()
        row_hit    = Signal()
        row_open   = Signal()
        row_close  = Signal()
        self.comb += row_hit.eq(row == slicer.row(cmd_buffer.source.addr))
        self.sync += \
            If(row_close,
                row_opened.eq(0)
            ).Elif(row_open,
                row_opened.eq(1),
                row.eq(slicer.row(cmd_buffer.source.addr))
            )
        row_col_n_addr_sel = Signal()
        self.comb += [
            cmd.ba.eq(n),
            If(row_col_n_addr_sel,
                cmd.a.eq(slicer.row(cmd_buffer.source.addr))
            ).Else(
                cmd.a.eq((auto_precharge << 10) | slicer.col(cmd_buffer.source.addr))
            )
        ]
        write_latency = math.ceil(settings.phy.cwl / settings.phy.nphases)
        precharge_time = write_latency + settings.timing.tWR + settings.timing.tCCD
        self.submodules.twtpcon = twtpcon = tXXDController(precharge_time)
        self.comb += twtpcon.valid.eq(cmd.valid & cmd.ready & cmd.is_write)
        self.submodules.trccon = trccon = tXXDController(settings.timing.tRC)
        self.comb += trccon.valid.eq(cmd.valid & cmd.ready & row_open)
        self.submodules.trascon = trascon = tXXDController(settings.timing.tRAS)
        self.comb += trascon.valid.eq(cmd.valid & cmd.ready & row_open)
        if settings.with_auto_precharge:
            self.comb += \
                If(cmd_buffer_lookahead.source.valid & cmd_buffer.source.valid,
                    If(slicer.row(cmd_buffer_lookahead.source.addr) !=
                       slicer.row(cmd_buffer.source.addr),
                        auto_precharge.eq(row_close == 0)
                    )
                )
        self.submodules.fsm = fsm = FSM()
        fsm.act("REGULAR",
            If(refresh_req,
                NextState("REFRESH")
            ).Elif(cmd_buffer.source.valid,
                If(row_opened,
                    If(row_hit,
                        cmd.valid.eq(1),
                        If(cmd_buffer.source.we,
                            req.wdata_ready.eq(cmd.ready),
                            cmd.is_write.eq(1),
                            cmd.we.eq(1),
                        ).Else(
                            req.rdata_valid.eq(cmd.ready),
                            cmd.is_read.eq(1)
                        ),
                        cmd.cas.eq(1),
                        If(cmd.ready & auto_precharge,
                           NextState("AUTOPRECHARGE")
                        )
                    ).Else(
                        NextState("PRECHARGE")
                    )
                ).Else(
                    NextState("ACTIVATE")
                )
            )
        )
        fsm.act("PRECHARGE",
            If(twtpcon.ready & trascon.ready,
                cmd.valid.eq(1),
                If(cmd.ready,
                    NextState("TRP")
                ),
                cmd.ras.eq(1),
                cmd.we.eq(1),
                cmd.is_cmd.eq(1)
            ),
            row_close.eq(1)
        )
        fsm.act("AUTOPRECHARGE",
            If(twtpcon.ready & trascon.ready,
                NextState("TRP")
            ),
            row_close.eq(1)
        )
        fsm.act("ACTIVATE",
            If(trccon.ready,
                row_col_n_addr_sel.eq(1),
                row_open.eq(1),
                cmd.valid.eq(1),
                cmd.is_cmd.eq(1),
                If(cmd.ready,
                    NextState("TRCD")
                ),
                cmd.ras.eq(1)
            )
        )
        fsm.act("REFRESH",
            If(twtpcon.ready & trascon.ready,
                refresh_gnt.eq(1),
            ),
            row_close.eq(1),
            cmd.is_cmd.eq(1),
            If(~refresh_req,
                NextState("REGULAR")
            )
        )
        fsm.delayed_enter("TRP", "ACTIVATE", settings.timing.tRP - 1)
        fsm.delayed_enter("TRCD", "REGULAR", settings.timing.tRCD - 1)


class _S(Settings):
    def __init__(self, **kw):
        self.set_attributes(kw)


class BMPair(Module):
    def __init__(self, rng, auto_precharge, buffered, colbits, nranks=1):
        s = _S(cmd_buffer_depth=rng.choice([2, 4, 8]), cmd_buffer_buffered=buffered,
               with_auto_precharge=auto_precharge)
        memtype = rng.choice(["SDR", "DDR2", "DDR3", "LPDDR4"])
        s.phy = _S(cwl=rng.randint(1, 6), nphases=rng.choice([1, 2, 4]), nranks=nranks, memtype=memtype,
                   dfi_databits=32)
        s.geom = _S(bankbits=3, rowbits=rng.choice([12, 14]), colbits=colbits)
        s.geom.addressbits = max(s.geom.rowbits, s.geom.colbits)
        s.timing = _S(tRAS=rng.choice([None, 3, 7]), tRC=rng.choice([None, 5, 9]), tCCD=rng.choice([1, 2]),
                      tRCD=rng.randint(1, 4), tRP=rng.randint(1, 4), tWR=rng.randint(1, 4))
        self.settings = s
        self.align = log2_int(burst_lengths[memtype])
        aw = LiteDRAMInterface(self.align, s).address_width
        n = rng.randrange(8)
        self.submodules.new = BankMachine(n, aw, self.align, nranks, s)
        self.submodules.ref = RefBankMachine(n, aw, self.align, nranks, s)


def bm_lockstep(seed, ncycles):
    rng = random.Random(seed)
    ap = rng.random() < 0.7
    colbits = rng.choice([10, 11])
    dut = BMPair(rng, ap, rng.random() < 0.5, colbits)
    s = dut.settings
    align = dut.align
    split = colbits - align
    rows = [rng.randrange(2**s.geom.rowbits) for _ in range(3)]
    outs = ["valid", "a", "ba", "cas", "ras", "we", "is_cmd", "is_read", "is_write"]
    stats = dict(ACT=0, RD=0, WR=0, PRE=0, AP=0, REFGNT=0, mism=0)
    state = dict(open=None, queue=[])
    p_ready = rng.choice([0.2, 0.5, 0.9])
    p_req = rng.choice([0.3, 0.7, 1.0])

    def dfi_col(col):
        full = col << align
        if colbits > 10:
            return (full & 0x3ff) | ((full >> 10) << 11)
        return full

    def gen():
        req_valid = 0
        refresh = 0
        refresh_hold = 0
        cur = None
        for c in range(ncycles):
            # values that are going to be sampled at the coming clock edge ----------------------
            o_new = {}
            for name in outs:
                vn = (yield getattr(dut.new.cmd, name))
                vr = (yield getattr(dut.ref.cmd, name))
                if vn != vr:
                    raise Violation("BM lock-step seed %d cycle %d: cmd.%s new=%x ref=%x" % (seed, c, name, vn, vr))
                o_new[name] = vn
            for name in ["ready", "lock", "wdata_ready", "rdata_valid"]:
                vn = (yield getattr(dut.new.req, name))
                vr = (yield getattr(dut.ref.req, name))
                if vn != vr:
                    raise Violation("BM lock-step seed %d cycle %d: req.%s new=%x ref=%x" % (seed, c, name, vn, vr))
                o_new[name] = vn
            gn = (yield dut.new.refresh_gnt)
            gr = (yield dut.ref.refresh_gnt)
            if gn != gr:
                raise Violation("BM lock-step seed %d cycle %d: refresh_gnt" % (seed, c))
            cmd_ready = (yield dut.new.cmd.ready)
            # reference model of the bank ------------------------------------------------------
            if req_valid and o_new["ready"]:
                state["queue"].append(cur)
            if refresh and gn:
                if refresh_hold == 0:
                    stats["REFGNT"] += 1
                state["open"] = None            # precharge-all / refresh happens under the grant
            if o_new["valid"] and cmd_ready:
                if refresh and gn:
                    raise Violation("BM seed %d cycle %d: command while refresh granted" % (seed, c))
                code = (o_new["ras"], o_new["cas"], o_new["we"])
                q = state["queue"]
                if code == (1, 0, 0):
                    stats["ACT"] += 1
                    if state["open"] is not None:
                        raise Violation("BM seed %d cycle %d: ACT on open bank" % (seed, c))
                    if not q or q[0][1] != o_new["a"]:
                        raise Violation("BM seed %d cycle %d: ACT of a row nobody asked for" % (seed, c))
                    state["open"] = o_new["a"]
                elif code in [(0, 1, 0), (0, 1, 1)]:
                    wr = code[2]
                    stats["WR" if wr else "RD"] += 1
                    if o_new["is_write"] != wr or o_new["is_read"] != 1 - wr:
                        raise Violation("BM seed %d cycle %d: is_read/is_write" % (seed, c))
                    if not q:
                        raise Violation("BM seed %d cycle %d: RD/WR without request" % (seed, c))
                    we, row, col = q.pop(0)
                    if state["open"] is None or state["open"] != row:
                        raise Violation("BM seed %d cycle %d: RD/WR row %r open, request row %x" % (seed, c, state["open"], row))
                    if we != wr or (o_new["a"] & ~(1 << 10)) != dfi_col(col):
                        raise Violation("BM seed %d cycle %d: RD/WR we/col mismatch" % (seed, c))
                    if not (o_new["wdata_ready"] if wr else o_new["rdata_valid"]):
                        raise Violation("BM seed %d cycle %d: no data handshake" % (seed, c))
                    if (o_new["a"] >> 10) & 1:
                        stats["AP"] += 1
                        if not ap or not q or q[0][1] == row:
                            raise Violation("BM seed %d cycle %d: bad auto-precharge" % (seed, c))
                        state["open"] = None
                elif code == (1, 0, 1):
                    stats["PRE"] += 1
                    if (o_new["a"] >> 10) & 1:
                        raise Violation("BM seed %d cycle %d: precharge with A10" % (seed, c))
                    state["open"] = None
                else:
                    raise Violation("BM seed %d cycle %d: unexpected command %r" % (seed, c, code))
            # next stimulus ------------------------------------------------------------------------
            if req_valid and o_new["ready"]:
                req_valid = 0
            if not req_valid and rng.random() < p_req and c < ncycles - 300:
                row = rng.choice(rows)
                if state["queue"] and rng.random() < 0.5:
                    row = state["queue"][-1][1]
                cur = (int(rng.random() < 0.5), row, rng.randrange(2**split))
                req_valid = 1
            rdy = int(rng.random() < p_ready) if c < ncycles - 300 else 1
            if refresh:
                if gn:
                    refresh_hold += 1
                    if refresh_hold > rng.randint(2, 12):
                        refresh, refresh_hold = 0, 0
            elif rng.random() < 0.02:
                refresh = 1
            for bm in (dut.new, dut.ref):
                yield bm.req.valid.eq(req_valid)
                if cur is not None:
                    yield bm.req.we.eq(cur[0])
                    yield bm.req.addr.eq((cur[1] << split) | cur[2])
                yield bm.cmd.ready.eq(rdy)
                yield bm.refresh_req.eq(refresh)
            yield
        if state["queue"]:
            raise Violation("BM seed %d: %d requests never served" % (seed, len(state["queue"])))

    run_simulation(dut, [gen()])
    return stats


def _bm_job(seed):
    return bm_lockstep(seed, 4000)


def _sys_job(cfg):
    return run(cfg).stats


if __name__ == "__main__":
    import multiprocessing
    quick = "--quick" in sys.argv
    nproc = min(4, os.cpu_count() or 1)
    cfgs = default_configs(seed0=100, cycles=800 if quick else 1800)
    if quick:
        cfgs = cfgs[::3]
    with multiprocessing.Pool(nproc) as pool:
        bm_stats = pool.map(_bm_job, range(6 if quick else 40))
        tot = {}
        for st in bm_stats:
            for k, v in st.items():
                tot[k] = tot.get(k, 0) + v
        print("bank machine lock-step + model:", tot, flush=True)
        for k in ("ACT", "RD", "WR", "PRE", "AP", "REFGNT"):
            assert tot[k] > 0, k
        sys_stats = pool.map(_sys_job, cfgs, chunksize=1)
    tot = {}
    for st in sys_stats:
        for k, v in st.items():
            tot[k] = tot.get(k, 0) + v
    print("full controller / DFI model:", tot, flush=True)
    for k in ("ACT", "RD", "WR", "PRE", "PREA", "REF", "ZQCS", "AP"):
        assert tot[k] > 0, k
    print("keep_1: OK")
