#!/usr/bin/env python3
"""keep_2: narrow-bus path of LiteDRAMWishbone2Native (_init_burst_upconverter): on a read miss the native
read command is presented directly from the CMD state (address / last taken from the Wishbone bus) and the
FSM goes straight to READ_DATA when the port accepts it; READ_CMD is only entered to hold a command that
was not accepted at once. One cycle is saved per read miss.

Checks (run from the root of a tree with keep_2.diff applied):
 1. scoreboard run of property C10 itself with random classic / incrementing-burst traffic, random sel,
    cycles aborted at any point (reads and writes, cyc-only and cyc+stb drops), random memory-side timings
    (including always-ready and very slow command / read-data channels), ratios 1/2..1/8, aligned and
    unaligned base addresses: exactly one acknowledge per non-aborted access, read data == last written
    bytes, only selected bytes written, final memory contents, no hang, no read data lost;
 2. comparison with the unmodified bridge (source embedded below) on the same abort-free traffic: identical
    sequence of native commands / write data / byte enables, identical read results, identical final
    memory; with an always-ready memory the modified bridge is never slower and is faster whenever there
    is a read miss;
 3. directed: acknowledge latency of a single read miss is exactly one cycle shorter.
"""

ORIG_SRC = r'''#
# This file is part of LiteDRAM.
#
# Copyright (c) 2016-2024 Florent Kermarrec <florent@enjoy-digital.fr>
# SPDX-License-Identifier: BSD-2-Clause

"""Wishbone frontend for LiteDRAM"""

from math import log2

from migen import *

from litex.gen import *

from litex.soc.interconnect import stream

from litex.soc.interconnect.wishbone import CTI_BURST_INCREMENTING
from litedram.common           import LiteDRAMNativePort
from litedram.frontend.adapter import LiteDRAMNativePortConverter


# LiteDRAMWishbone2Native --------------------------------------------------------------------------

class LiteDRAMWishbone2Native(LiteXModule):
    def __init__(self, wishbone, port, base_address=0x00000000):
        wishbone_data_width = len(wishbone.dat_w)
        port_data_width     = 2**int(log2(len(port.wdata.data))) # Round to lowest power 2
        ratio               = wishbone_data_width/port_data_width

        assert wishbone.addressing == "word"

        # Keep narrow Wishbone bursts on the real native-port width so
        # incrementing bursts can share a wider DRAM command.
        if wishbone_data_width < port_data_width:
            self._init_burst_upconverter(
                wishbone, port, base_address, wishbone_data_width, port_data_width)
            return

        if wishbone_data_width != port_data_width:
            if wishbone_data_width > port_data_width:
                addr_shift = -log2_int(wishbone_data_width//port_data_width)
            else:
                addr_shift = log2_int(port_data_width//wishbone_data_width)
            new_port = LiteDRAMNativePort(
                mode          = port.mode,
                address_width = port.address_width + addr_shift,
                data_width    = wishbone_data_width
            )
            self.submodules += LiteDRAMNativePortConverter(new_port, port)
            port = new_port

        # # #

        aborted = Signal()
        offset  = base_address >> log2_int(port.data_width//8)

        self.fsm = fsm = FSM(reset_state="CMD")
        self.comb += [
            port.cmd.addr.eq(wishbone.adr - offset),
            port.cmd.we.eq(wishbone.we),
            port.cmd.last.eq(~wishbone.we), # Always wait for reads.
            port.flush.eq(~wishbone.cyc)    # Flush writes when transaction ends.
        ]
        fsm.act("CMD",
            port.cmd.valid.eq(wishbone.cyc & wishbone.stb),
            If(port.cmd.valid & port.cmd.ready &  wishbone.we, NextState("WRITE")),
            If(port.cmd.valid & port.cmd.ready & ~wishbone.we, NextState("READ")),
            NextValue(aborted, 0),
        )
        self.comb += [
            port.wdata.valid.eq(wishbone.stb & wishbone.we),
            If(ratio <= 1, If(~fsm.ongoing("WRITE"), port.wdata.valid.eq(0))),
            port.wdata.data.eq(wishbone.dat_w),
            port.wdata.we.eq(wishbone.sel),
        ]
        fsm.act("WRITE",
            NextValue(aborted, ~wishbone.cyc | aborted),
            If(port.wdata.valid & port.wdata.ready,
                wishbone.ack.eq(wishbone.cyc & ~aborted),
                NextState("CMD")
            ),
        )
        self.comb += port.rdata.ready.eq(1)
        fsm.act("READ",
            NextValue(aborted, ~wishbone.cyc | aborted),
            If(port.rdata.valid,
                wishbone.ack.eq(wishbone.cyc & ~aborted),
                wishbone.dat_r.eq(port.rdata.data),
                NextState("CMD")
            )
        )

    def _init_burst_upconverter(self, wishbone, port, base_address, wishbone_data_width, port_data_width):
        assert port_data_width % wishbone_data_width == 0

        ratio                = port_data_width//wishbone_data_width
        ratio_bits           = log2_int(ratio)
        wishbone_sel_width   = wishbone_data_width//8
        port_sel_width       = port_data_width//8
        offset               = base_address >> log2_int(wishbone_sel_width)
        narrow_addr          = Signal(len(wishbone.adr))
        wide_addr            = Signal.like(port.cmd.addr)
        chunk                = Signal(ratio_bits)
        chunk_bit            = Signal(ratio)
        wishbone_last        = Signal()

        # # #

        # Wishbone remains word-addressed at the narrow width. The upper bits
        # select the native word; the lower bits select the lane inside it.
        self.comb += [
            narrow_addr.eq(wishbone.adr - offset),
            wide_addr.eq(narrow_addr[ratio_bits:]),
            chunk.eq(narrow_addr[:ratio_bits]),
            wishbone_last.eq(wishbone.cti != CTI_BURST_INCREMENTING),
            port.flush.eq(~wishbone.cyc),
        ]

        # One-hot version of the selected lane, used by the write merge logic.
        chunk_bit_cases = {i: chunk_bit.eq(2**i) for i in range(ratio)}
        self.comb += [
            chunk_bit.eq(0),
            Case(chunk, chunk_bit_cases),
        ]

        # Write path --------------------------------------------------------------------------------
        wr_valid      = Signal()
        wr_addr       = Signal.like(port.cmd.addr)
        wr_data       = Signal(port_data_width)
        wr_we         = Signal(port_sel_width)
        wr_sel        = Signal(ratio)
        wr_last       = Signal()
        wr_can_merge  = Signal()
        wr_next_sel   = Signal(ratio)
        wr_flush      = Signal()
        wr_chunk_data = Signal(port_data_width)
        wr_chunk_we   = Signal(port_sel_width)

        wr_chunk_cases = {}
        for i in range(ratio):
            # Place the current Wishbone beat and byte enables in their native lane.
            wr_chunk_cases[i] = [
                wr_chunk_data[i*wishbone_data_width:(i + 1)*wishbone_data_width].eq(wishbone.dat_w),
                wr_chunk_we[i*wishbone_sel_width:(i + 1)*wishbone_sel_width].eq(wishbone.sel),
            ]
        self.comb += [
            wr_chunk_data.eq(0),
            wr_chunk_we.eq(0),
            Case(chunk, wr_chunk_cases),
            # Merge only when the next beat targets the same native word and a free lane.
            wr_can_merge.eq(~wr_valid | ((wr_addr == wide_addr) & ((wr_sel & chunk_bit) == 0))),
            wr_next_sel.eq(wr_sel | chunk_bit),
            wr_flush.eq(wishbone_last | (wr_next_sel == 2**ratio - 1)),
        ]

        # Read path ---------------------------------------------------------------------------------
        rd_cache_valid = Signal()
        rd_cache_addr  = Signal.like(port.cmd.addr)
        rd_cache_data  = Signal(port_data_width)
        rd_addr        = Signal.like(port.cmd.addr)
        rd_chunk       = Signal(ratio_bits)
        rd_last        = Signal()
        rd_cache_hit   = Signal()
        rd_cache_rdata = Signal(wishbone_data_width)
        rd_port_rdata  = Signal(wishbone_data_width)
        aborted        = Signal()

        rd_cache_cases = {}
        rd_port_cases  = {}
        for i in range(ratio):
            # Select the requested narrow lane from either cached or returned native data.
            rd_cache_cases[i] = rd_cache_rdata.eq(
                rd_cache_data[i*wishbone_data_width:(i + 1)*wishbone_data_width])
            rd_port_cases[i] = rd_port_rdata.eq(
                port.rdata.data[i*wishbone_data_width:(i + 1)*wishbone_data_width])
        self.comb += [
            rd_cache_hit.eq(rd_cache_valid & (rd_cache_addr == wide_addr)),
            rd_cache_rdata.eq(0),
            rd_port_rdata.eq(0),
            Case(chunk, rd_cache_cases),
            Case(rd_chunk, rd_port_cases),
        ]

        self.fsm = fsm = FSM(reset_state="CMD")
        fsm.act("CMD",
            NextValue(aborted, 0),
            If(~wishbone.cyc,
                NextValue(rd_cache_valid, 0),
                If(wr_valid,
                    # Wishbone ended with a partial native word pending; write it now.
                    NextValue(wr_last, 1),
                    NextState("WRITE_CMD")
                )
            ).Elif(wishbone.stb,
                If(wishbone.we,
                    NextValue(rd_cache_valid, 0),
                    If(wr_can_merge,
                        wishbone.ack.eq(1),
                        NextValue(wr_valid, 1),
                        NextValue(wr_addr, Mux(wr_valid, wr_addr, wide_addr)),
                        NextValue(wr_data, Mux(wr_valid, wr_data | wr_chunk_data, wr_chunk_data)),
                        NextValue(wr_we,   Mux(wr_valid, wr_we   | wr_chunk_we,   wr_chunk_we)),
                        NextValue(wr_sel,  wr_next_sel),
                        NextValue(wr_last, wishbone_last),
                        If(wr_flush,
                            NextState("WRITE_CMD")
                        )
                    ).Else(
                        NextValue(wr_last, 1),
                        NextState("WRITE_CMD")
                    )
                ).Else(
                    If(wr_valid,
                        # Preserve write/read ordering by draining pending writes first.
                        NextValue(wr_last, 1),
                        NextState("WRITE_CMD")
                    ).Elif(rd_cache_hit,
                        # A previous native read already fetched this lane.
                        wishbone.ack.eq(1),
                        wishbone.dat_r.eq(rd_cache_rdata),
                        If(wishbone_last,
                            NextValue(rd_cache_valid, 0)
                        )
                    ).Else(
                        NextValue(rd_addr, wide_addr),
                        NextValue(rd_chunk, chunk),
                        NextValue(rd_last, wishbone_last),
                        NextState("READ_CMD")
                    )
                )
            )
        )
        fsm.act("WRITE_CMD",
            If(wr_valid,
                port.cmd.valid.eq(1),
                port.cmd.we.eq(1),
                port.cmd.addr.eq(wr_addr),
                port.cmd.last.eq(wr_last),
                If(port.cmd.ready,
                    NextState("WRITE_DATA")
                )
            ).Else(
                NextState("CMD")
            )
        )
        fsm.act("WRITE_DATA",
            port.wdata.valid.eq(1),
            port.wdata.data.eq(wr_data),
            port.wdata.we.eq(wr_we),
            If(port.wdata.ready,
                NextValue(wr_valid, 0),
                NextValue(wr_data,  0),
                NextValue(wr_we,    0),
                NextValue(wr_sel,   0),
                NextState("CMD")
            )
        )
        fsm.act("READ_CMD",
            If(~wishbone.cyc,
                NextState("CMD")
            ).Else(
                port.cmd.valid.eq(1),
                port.cmd.we.eq(0),
                port.cmd.addr.eq(rd_addr),
                port.cmd.last.eq(rd_last),
                If(port.cmd.ready,
                    NextState("READ_DATA")
                )
            )
        )
        fsm.act("READ_DATA",
            NextValue(aborted, ~wishbone.cyc | aborted),
            port.rdata.ready.eq(1),
            If(port.rdata.valid,
                NextValue(rd_cache_data, port.rdata.data),
                NextValue(rd_cache_addr, rd_addr),
                If(wishbone.cyc & ~aborted,
                    wishbone.ack.eq(1),
                    wishbone.dat_r.eq(rd_port_rdata),
                    NextValue(rd_cache_valid, ~rd_last)
                ).Else(
                    NextValue(rd_cache_valid, 0)
                ),
                NextState("CMD")
            )
        )

# LiteDRAMNative2Wishbone --------------------------------------------------------------------------

class LiteDRAMNative2Wishbone(LiteXModule):
    def __init__(self, port, wishbone, base_address=0x00000000):
        wishbone_data_width = len(wishbone.dat_w)
        port_data_width     = 2**int(log2(len(port.wdata.data))) # Round to lowest power 2
        ratio               = wishbone_data_width/port_data_width

        assert ratio == 1

        # # #

        # Signals.
        adr = Signal(32)

        # FSM.
        self.fsm = fsm = FSM(reset_state="CMD")
        fsm.act("CMD",
            If(port.cmd.valid,
                port.cmd.ready.eq(1),
                If(wishbone.addressing == "byte",
                    NextValue(adr, port.cmd.addr*int(port_data_width//8) + base_address),
                ).Else(
                    NextValue(adr, port.cmd.addr + base_address//int(port_data_width//8)),
                ),
                If(port.cmd.we,
                    NextState("WRITE")
                ).Else(
                    NextState("READ")
                )
            )
        )
        fsm.act("WRITE",
            If(port.wdata.valid,
                wishbone.stb.eq(1),
                wishbone.cyc.eq(1),
                wishbone.we.eq(1),
                wishbone.adr.eq(adr),
                wishbone.sel.eq(port.wdata.we),
                wishbone.dat_w.eq(port.wdata.data),
                If(wishbone.ack,
                    port.wdata.ready.eq(1),
                    NextState("CMD")
                )
            )
        )
        fsm.act("READ",
            wishbone.stb.eq(1),
            wishbone.cyc.eq(1),
            wishbone.adr.eq(adr),
            wishbone.sel.eq(2**len(wishbone.sel) - 1),
            If(wishbone.ack,
                # Assume port.rdata.ready always 1.
                port.rdata.valid.eq(1),
                port.rdata.data.eq(wishbone.dat_r),
                NextState("CMD"),
            )
        )
'''

# ---- shared test bench (inlined in every keep_k.py) ---------------------------------------------
import os, sys, random, types
sys.path.insert(0, os.getcwd())

from migen import *
from migen.sim import run_simulation
from litex.soc.interconnect import wishbone
from litedram.common import LiteDRAMNativePort

TIMEOUT = 400


def mem_init_byte(a):
    return (a*0x9d + 0x35 + (a >> 8)*7) & 0xff


class NativeMem:
    """In-order native port memory model with randomised handshake timings."""
    def __init__(self, port, seed, p_cmd, p_w, p_r, depth):
        self.port   = port
        self.nb     = port.data_width//8
        self.rng    = random.Random(seed)
        self.p      = (p_cmd, p_w, p_r)
        self.depth  = depth
        self.bytes  = {}
        self.errors = []
        self.q      = []
        self.n_rd = self.n_wr = 0
        self.log    = []          # (kind, addr, data, we)

    def rb(self, a):
        return self.bytes.get(a, mem_init_byte(a))

    @passive
    def gen(self):
        port, nb, rng = self.port, self.nb, self.rng
        p_cmd, p_w, p_r = self.p
        q = self.q
        cmd_ready = w_ready = r_valid = 0
        while True:
            cv = (yield port.cmd.valid)
            if cmd_ready and cv:
                we   = (yield port.cmd.we)
                addr = (yield port.cmd.addr)
                q.append([we, addr, 0])
                if we: self.n_wr += 1
                else:  self.n_rd += 1
            if w_ready and (yield port.wdata.valid):
                assert q and q[0][0]
                data = (yield port.wdata.data)
                wwe  = (yield port.wdata.we)
                addr = q.pop(0)[1]
                for i in range(nb):
                    if (wwe >> i) & 1:
                        self.bytes[addr*nb + i] = (data >> (8*i)) & 0xff
                self.log.append(("w", addr, data & sum(0xff << (8*i) for i in range(nb) if (wwe >> i) & 1), wwe))
            if r_valid and not (yield port.rdata.ready):
                self.errors.append("rdata presented while rdata.ready=0 (data lost)")
            for e in q:
                e[2] += 1
            cmd_ready = int(len(q) < self.depth and rng.random() < p_cmd)
            w_ready   = int(bool(q) and q[0][0] == 1 and rng.random() < p_w)
            r_valid   = 0
            if q and q[0][0] == 0 and q[0][2] >= 1 and rng.random() < p_r:
                addr = q.pop(0)[1]
                data = 0
                for i in range(nb):
                    data |= self.rb(addr*nb + i) << (8*i)
                r_valid = 1
                self.log.append(("r", addr, data, 0))
                yield port.rdata.data.eq(data)
            yield port.cmd.ready.eq(cmd_ready)
            yield port.wdata.ready.eq(w_ready)
            yield port.rdata.valid.eq(r_valid)
            yield


def make_ops(rng, n_ops, n_words, wb_dw, p_abort, abort_modes, abort_writes=True, p_burst=0.4, max_burst=9):
    """Random Wishbone access sequence. Addresses are word offsets from the base."""
    nsel = wb_dw//8
    ops  = []
    hot  = rng.randrange(n_words)
    for _ in range(n_ops):
        we = rng.random() < 0.5
        if rng.random() < 0.5:
            adr = rng.randrange(n_words)
        else:  # stay close to the previous accesses: same wide word, neighbouring lanes
            adr = min(n_words - 1, max(0, hot + rng.randrange(-3, 4)))
        hot = adr
        n = 1
        if rng.random() < p_burst:
            n = rng.randrange(1, max_burst)
            n = min(n, n_words - adr)
        beats = []
        for b in range(n):
            r = rng.random()
            if r < 0.5:   sel = 2**nsel - 1
            elif r < 0.6: sel = 0
            else:         sel = rng.randrange(2**nsel)
            last = (b == n - 1)
            if last:
                cti = rng.choice([7, 7, 7, 0, 0, 1] if n == 1 else [7, 7, 7, 7, 2])
            else:
                cti = 2
            abort = None
            if rng.random() < p_abort and (abort_writes or not we):
                abort = (rng.randrange(0, 12), rng.choice(abort_modes))
            beats.append(dict(adr=adr + b, sel=sel, dat=rng.getrandbits(wb_dw), cti=cti, abort=abort))
        ops.append(dict(
            we    = we,
            beats = beats,
            hold  = rng.random() < 0.35,             # keep cyc asserted into the next access
            gap   = rng.choice([0, 0, 0, 1, 1, 2, 3, 8]),
        ))
    return ops


class Scoreboard:
    """Byte-granular reference memory; a byte maps to the set of values it may legally hold."""
    def __init__(self):
        self.ref = {}

    def get(self, a):
        return self.ref.setdefault(a, {mem_init_byte(a)})


class Master:
    def __init__(self, wb, base_word, ops, check=True):
        self.wb, self.base_word, self.ops = wb, base_word, ops
        self.nsel    = len(wb.sel)
        self.sb      = Scoreboard()
        self.errors  = []
        self.acked   = 0
        self.aborted = 0
        self.results = []     # acked read data, in order
        self.check   = check
        self.done    = False

    def gen(self):
        wb, nsel, sb = self.wb, self.nsel, self.sb
        for k, op in enumerate(self.ops):
            aborted = False
            for beat in op["beats"]:
                adr = beat["adr"]
                yield wb.cyc.eq(1)
                yield wb.stb.eq(1)
                yield wb.we.eq(int(op["we"]))
                yield wb.adr.eq(self.base_word + adr)
                yield wb.sel.eq(beat["sel"])
                yield wb.dat_w.eq(beat["dat"])
                yield wb.cti.eq(beat["cti"])
                yield
                waited = 0
                while True:
                    if (yield wb.ack):
                        self.acked += 1
                        if op["we"]:
                            for i in range(nsel):
                                if (beat["sel"] >> i) & 1:
                                    sb.ref[adr*nsel + i] = {(beat["dat"] >> (8*i)) & 0xff}
                        else:
                            d = (yield wb.dat_r)
                            self.results.append((k, adr, d))
                            for i in range(nsel):
                                v = (d >> (8*i)) & 0xff
                                if self.check and v not in sb.get(adr*nsel + i):
                                    self.errors.append("op %d read adr %d byte %d: got %02x expected %s" % (
                                        k, adr, i, v, sorted(sb.get(adr*nsel + i))))
                                sb.ref[adr*nsel + i] = {v}
                        break
                    if beat["abort"] is not None and waited >= beat["abort"][0]:
                        aborted = True
                        self.aborted += 1
                        if op["we"]:  # an un-acknowledged write may or may not have been performed
                            for i in range(nsel):
                                if (beat["sel"] >> i) & 1:
                                    sb.get(adr*nsel + i).add((beat["dat"] >> (8*i)) & 0xff)
                        break
                    waited += 1
                    if waited > TIMEOUT:
                        self.errors.append("op %d adr %d: no acknowledge within %d cycles" % (k, adr, TIMEOUT))
                        self.done = True
                        return
                    yield
                if aborted:
                    break
            if aborted:
                # "both": cyc and stb are dropped; "cyc": only cyc is dropped (stb and the payload stay,
                # as behind a LiteX decoder that only gates cyc).
                yield wb.cyc.eq(0)
                if beat["abort"][1] == "both":
                    yield wb.stb.eq(0)
                yield
                for _ in range(op["gap"]):
                    yield
            else:
                yield wb.stb.eq(0)
                if not op["hold"]:
                    yield wb.cyc.eq(0)
                if op["gap"] or not op["hold"]:
                    # when cyc is released it stays low for at least one cycle
                    for _ in range(max(op["gap"], 1)):
                        yield
        yield wb.cyc.eq(0)
        yield wb.stb.eq(0)
        for _ in range(60):
            yield
        self.done = True


class Monitor:
    def __init__(self, wb, master=None):
        self.wb, self.master = wb, master
        self.errors = []
        self.acks   = 0
        self.cycles = 0

    @passive
    def gen(self):
        wb = self.wb
        while True:
            if self.master is not None and not self.master.done:
                self.cycles += 1
            if (yield wb.ack):
                if (yield wb.cyc) and (yield wb.stb):
                    self.acks += 1
                else:
                    self.errors.append("acknowledge without cyc & stb")
            yield


def build(bridge_cls, wb_dw, port_dw, base):
    class DUT(Module):
        def __init__(self):
            self.port = LiteDRAMNativePort("both", address_width=24, data_width=port_dw)
            self.wb   = wishbone.Interface(adr_width=30, data_width=wb_dw)
            self.submodules.bridge = bridge_cls(self.wb, self.port, base_address=base)
    return DUT()


def run_scoreboard(bridge_cls, wb_dw, port_dw, base, seed, n_ops=120, n_words=40,
                   p_abort=0.0, abort_modes=("cyc",), abort_writes=True, timing=None):
    rng = random.Random(seed)
    if timing is None:
        timing = rng.choice([(1.0, 1.0, 1.0), (0.5, 0.5, 0.5), (0.2, 0.9, 0.3), (0.9, 0.15, 0.9), (0.7, 0.7, 0.1)])
    dut  = build(bridge_cls, wb_dw, port_dw, base)
    mem  = NativeMem(dut.port, seed ^ 0x5a5a, *timing, depth=rng.choice([1, 2, 4, 8]))
    ops  = make_ops(rng, n_ops, n_words, wb_dw, p_abort, abort_modes, abort_writes)
    mst  = Master(dut.wb, base//(wb_dw//8), ops)
    mon  = Monitor(dut.wb, mst)
    run_simulation(dut, [mst.gen(), mem.gen(), mon.gen()])
    errors = mst.errors + mem.errors + mon.errors
    if mon.acks != mst.acked:
        errors.append("acknowledge count %d != completed accesses %d" % (mon.acks, mst.acked))
    if mem.q:
        errors.append("memory side still has pending commands: %r" % mem.q)
    # final memory contents
    nsel = wb_dw//8
    if not errors:
        for a in range(-64, n_words*nsel + 64):
            if a < 0:
                continue
            v = mem.rb(a)
            if v not in mst.sb.get(a):
                errors.append("final memory byte %d = %02x, expected %s" % (a, v, sorted(mst.sb.get(a))))
        for a in mem.bytes:
            if not (0 <= a < n_words*nsel):
                errors.append("write outside of the accessed range: byte %d" % a)
    return errors, dict(acked=mst.acked, aborted=mst.aborted, n_rd=mem.n_rd, n_wr=mem.n_wr, cycles=mon.cycles), mst, mem


# ---- lock-step comparison against the unmodified implementation ------------------------------------

def load_reference():
    mod = types.ModuleType("orig_wishbone")
    exec(compile(ORIG_SRC, "orig_wishbone.py", "exec"), mod.__dict__)
    return mod


class LockStepDUT(Module):
    """New and reference bridge side by side, fed with the same Wishbone and native-port inputs."""
    def __init__(self, new_cls, ref_cls, wb_dw, port_dw, base):
        self.port     = LiteDRAMNativePort("both", address_width=24, data_width=port_dw)
        self.wb       = wishbone.Interface(adr_width=30, data_width=wb_dw)
        self.ref_port = LiteDRAMNativePort("both", address_width=24, data_width=port_dw)
        self.ref_wb   = wishbone.Interface(adr_width=30, data_width=wb_dw)
        self.submodules.new = new_cls(self.wb, self.port, base_address=base)
        self.submodules.ref = ref_cls(self.ref_wb, self.ref_port, base_address=base)
        for name in ["cyc", "stb", "we", "adr", "sel", "dat_w", "cti", "bte"]:
            self.comb += getattr(self.ref_wb, name).eq(getattr(self.wb, name))
        self.comb += [
            self.ref_port.cmd.ready.eq(self.port.cmd.ready),
            self.ref_port.wdata.ready.eq(self.port.wdata.ready),
            self.ref_port.rdata.valid.eq(self.port.rdata.valid),
            self.ref_port.rdata.data.eq(self.port.rdata.data),
        ]


class LockStepCompare:
    def __init__(self, dut, mask_wdata=False):
        self.dut, self.mask_wdata = dut, mask_wdata
        self.errors = []
        self.cycles = 0
        self.events = dict(ack=0, cmd=0, wdata=0)

    @passive
    def gen(self):
        d = self.dut
        pairs = [
            ("wb.ack",      d.wb.ack,           d.ref_wb.ack),
            ("wb.dat_r",    d.wb.dat_r,         d.ref_wb.dat_r),
            ("cmd.valid",   d.port.cmd.valid,   d.ref_port.cmd.valid),
            ("cmd.we",      d.port.cmd.we,      d.ref_port.cmd.we),
            ("cmd.addr",    d.port.cmd.addr,    d.ref_port.cmd.addr),
            ("cmd.last",    d.port.cmd.last,    d.ref_port.cmd.last),
            ("wdata.valid", d.port.wdata.valid, d.ref_port.wdata.valid),
            ("wdata.we",    d.port.wdata.we,    d.ref_port.wdata.we),
            ("rdata.ready", d.port.rdata.ready, d.ref_port.rdata.ready),
            ("flush",       d.port.flush,       d.ref_port.flush),
        ]
        nb = d.port.data_width//8
        while True:
            for name, a, b in pairs:
                va, vb = (yield a), (yield b)
                if va != vb:
                    self.errors.append("cycle %d: %s differs: new %x, reference %x" % (self.cycles, name, va, vb))
            da, db = (yield d.port.wdata.data), (yield d.ref_port.wdata.data)
            if self.mask_wdata:
                # bytes that are not write-enabled (or not presented at all) are don't-care
                wwe = (yield d.port.wdata.we) if (yield d.port.wdata.valid) else 0
                m = sum(0xff << (8*i) for i in range(nb) if (wwe >> i) & 1)
                da, db = da & m, db & m
            if da != db:
                self.errors.append("cycle %d: wdata.data differs: new %x, reference %x" % (self.cycles, da, db))
            self.events["ack"]   += (yield d.wb.ack)
            self.events["cmd"]   += (yield d.port.cmd.valid) & (yield d.port.cmd.ready)
            self.events["wdata"] += (yield d.port.wdata.valid) & (yield d.port.wdata.ready)
            self.cycles += 1
            if len(self.errors) > 5:
                raise AssertionError("\n".join(self.errors))
            yield


class LockStepMaster(Master):
    """Same traffic as Master, no scoreboard; an access that is never acknowledged is given up
    (the unmodified bridge can hang after an aborted write, both implementations must then agree)."""
    def __init__(self, wb, base_word, ops, give_up=50):
        Master.__init__(self, wb, base_word, ops, check=False)
        self.give_up = give_up
        for op in ops:
            for beat in op["beats"]:
                if beat["abort"] is None:
                    beat["abort"] = (give_up, "both")


def run_lockstep(new_cls, ref_cls, wb_dw, port_dw, base, seed, n_ops=120, n_words=40,
                 p_abort=0.25, abort_modes=("cyc", "both"), mask_wdata=False, give_up=50):
    rng    = random.Random(seed)
    timing = rng.choice([(1.0, 1.0, 1.0), (0.5, 0.5, 0.5), (0.2, 0.9, 0.3), (0.9, 0.15, 0.9), (0.7, 0.7, 0.1)])
    dut = LockStepDUT(new_cls, ref_cls, wb_dw, port_dw, base)
    mem = NativeMem(dut.port, seed ^ 0x5a5a, *timing, depth=rng.choice([1, 2, 4, 8]))
    ops = make_ops(rng, n_ops, n_words, wb_dw, p_abort, abort_modes)
    mst = LockStepMaster(dut.wb, base//(wb_dw//8), ops, give_up)
    cmp = LockStepCompare(dut, mask_wdata)
    try:
        run_simulation(dut, [mst.gen(), mem.gen(), cmp.gen()])
    except AssertionError:
        pass
    return cmp.errors, dict(cycles=cmp.cycles, acked=mst.acked, aborted=mst.aborted, **cmp.events)


def read_latency(cls, wb_dw, port_dw):
    dut = build(cls, wb_dw, port_dw, 0)
    mem = NativeMem(dut.port, 1, 1.0, 1.0, 1.0, depth=4)
    res = {}
    def gen():
        wb = dut.wb
        for _ in range(4): yield
        yield wb.cyc.eq(1); yield wb.stb.eq(1); yield wb.we.eq(0); yield wb.adr.eq(5); yield wb.cti.eq(0)
        yield
        n = 0
        while not (yield wb.ack):
            n += 1
            yield
        res["lat"], res["dat"] = n, (yield wb.dat_r)
        yield wb.cyc.eq(0); yield wb.stb.eq(0)
        yield
    run_simulation(dut, [gen(), mem.gen()])
    exp = sum(mem_init_byte(5*(wb_dw//8) + i) << (8*i) for i in range(wb_dw//8))
    assert res["dat"] == exp, (hex(res["dat"]), hex(exp))
    return res["lat"]


def main():
    from litedram.frontend.wishbone import LiteDRAMWishbone2Native as New
    import inspect
    src = inspect.getsource(New._init_burst_upconverter)
    assert "port.cmd.addr.eq(wide_addr)" in src, "keep_2.diff is not applied"
    Ref = load_reference().LiteDRAMWishbone2Native

    n_seeds = int(os.environ.get("KEEP_SEEDS", "8"))
    fails = 0
    cfgs = [(8, 16), (8, 32), (8, 64), (16, 32), (16, 128), (32, 64), (32, 128), (32, 256), (64, 128)]
    timings = [(1.0, 1.0, 1.0), (0.5, 0.5, 0.5), (0.15, 0.9, 0.3), (0.9, 0.15, 0.9), (0.7, 0.7, 0.1), (0.1, 1.0, 1.0)]
    for wb_dw, port_dw in cfgs:
        bases = [0, 0x10000000, 0x40000000 + 3*(wb_dw//8)]

        # 1. property scoreboard, with aborts
        tot = dict(acked=0, aborted=0, n_rd=0, n_wr=0)
        for seed in range(n_seeds):
            base = bases[seed % len(bases)]
            errors, st, _, _ = run_scoreboard(New, wb_dw, port_dw, base, 91*wb_dw + port_dw + seed, n_ops=150,
                p_abort=0.2 if seed % 4 else 0.0, abort_modes=("cyc", "both"), timing=timings[seed % len(timings)])
            for k in tot: tot[k] += st[k]
            if errors:
                fails += 1
                print("SCOREBOARD FAIL wb=%d port=%d base=%#x seed=%d:" % (wb_dw, port_dw, base, seed))
                for e in errors[:6]: print("   ", e)
        print("scoreboard wb=%3d port=%3d: %s" % (wb_dw, port_dw, tot), flush=True)
        assert tot["acked"] > 20*n_seeds and tot["aborted"] > n_seeds and tot["n_rd"] > 8*n_seeds

        # 2. same abort-free traffic on the unmodified bridge
        tot = dict(cycles_new=0, cycles_ref=0, n_rd=0, n_wr=0)
        for seed in range(n_seeds):
            base   = bases[seed % len(bases)]
            timing = timings[seed % 3]
            e1, s1, m1, mem1 = run_scoreboard(New, wb_dw, port_dw, base, 5000 + 13*wb_dw + port_dw + seed, n_ops=100, timing=timing)
            e2, s2, m2, mem2 = run_scoreboard(Ref, wb_dw, port_dw, base, 5000 + 13*wb_dw + port_dw + seed, n_ops=100, timing=timing)
            errors = e1 + e2
            if m1.results != m2.results: errors.append("read results differ from the unmodified bridge")
            if mem1.log != mem2.log:     errors.append("native command / data sequence differs from the unmodified bridge")
            if mem1.bytes != mem2.bytes: errors.append("final memory differs from the unmodified bridge")
            if timing == (1.0, 1.0, 1.0):
                tot["cycles_new"] += s1["cycles"]; tot["cycles_ref"] += s2["cycles"]
                if not s1["cycles"] < s2["cycles"]:
                    errors.append("not faster than the unmodified bridge: %d vs %d cycles" % (s1["cycles"], s2["cycles"]))
            tot["n_rd"] += s1["n_rd"]; tot["n_wr"] += s1["n_wr"]
            if errors:
                fails += 1
                print("COMPARE FAIL wb=%d port=%d base=%#x seed=%d:" % (wb_dw, port_dw, base, seed))
                for e in errors[:6]: print("   ", e)
        print("compare    wb=%3d port=%3d: %s" % (wb_dw, port_dw, tot), flush=True)

        # 3. directed latency check
        l_new, l_ref = read_latency(New, wb_dw, port_dw), read_latency(Ref, wb_dw, port_dw)
        if l_new != l_ref - 1:
            fails += 1
            print("LATENCY FAIL wb=%d port=%d: new %d, reference %d" % (wb_dw, port_dw, l_new, l_ref))

    if fails:
        print("FAILED (%d checks)" % fails)
        sys.exit(1)
    print("OK")


if __name__ == "__main__":
    main()
