#!/usr/bin/env python3
# Check for keep_2 (phy/utils.py Deserializer: explicit counter wrap + no delayed copy of the last chunk).
#
# Part A: the real litedram.phy.utils.Deserializer is simulated side by side with a verbatim copy
#         of the unmodified implementation (RefDeserializer below) on the same random input stream
#         and random `reset` pulses, for ratios 2/4/8/16, several chunk widths and every reset_cnt;
#         `o` must be identical at every clk edge.
# Part B: non power-of-two ratios (3, 6) of the new code against the stream model (extra feature).
# Part C: the real DFIRateConverter (ratios 2 and 4, 1/2/4 PHY phases, every write_delay/read_delay)
#         with random traffic on every DFI signal, against an independent model of the C18 property:
#         every slow-clock command appears exactly once on the PHY interface in phase order after
#         Serializer.LATENCY clkdiv cycles, write data goes to the write_delay sub-cycle, read data
#         of the read_delay sub-cycle comes back after Deserializer.LATENCY clkdiv cycles.
import os, sys, random
sys.path.insert(0, os.getcwd())

from migen import *
from litedram.phy.utils import Serializer, Deserializer
from litedram.phy.dfi import Interface as DFIInterface, DFIRateConverter, phase_description


def clocks_for(ratio, clkdiv="sys", clk=None):
    clk = clk or "sys{}x".format(ratio)
    return {clkdiv: (4*ratio, 4*ratio//2 - 1), clk: (4, 1)}


# ---------------------------------------------------------------------------------------------
# Verbatim copy of the unmodified Deserializer (reference)
class RefDeserializer(Module):
    def __init__(self, clkdiv, clk, i_dw, o_dw, i=None, o=None, reset=None, reset_cnt=-1, name=None):
        assert i_dw < o_dw, (i_dw, o_dw)
        assert o_dw % i_dw == 0, (i_dw, o_dw)
        ratio = o_dw // i_dw
        sd_clk = getattr(self.sync, clk)
        sd_clkdiv = getattr(self.sync, clkdiv)
        if i is None: i = Signal(i_dw)
        if o is None: o = Signal(o_dw)
        if reset is None: reset = Signal()
        self.i = i
        self.o = o
        self.reset = reset
        if reset_cnt < 0:
            reset_cnt = ratio + reset_cnt
        cnt = Signal(max=ratio, reset=reset_cnt)
        sd_clk += If(reset, cnt.eq(0)).Else(cnt.eq(cnt + 1))
        def as_array(out):
            return Array([out[n*i_dw:(n+1)*i_dw] for n in range(ratio)])
        o_pre = Signal.like(self.o)
        sd_clk += as_array(o_pre)[cnt].eq(self.i)
        o_pre_d = Signal.like(self.o)
        sd_clkdiv += o_pre_d.eq(o_pre)
        sd_clkdiv += self.o.eq(Cat(as_array(o_pre_d)[:-1], as_array(o_pre)[-1]))


def part_a():
    n = 0
    for ratio in [2, 4, 8, 16]:
        for i_dw in [1, 3, 8]:
            for reset_cnt in list(range(ratio)) + [-1]:
                for with_reset in [False, True]:
                    if ratio == 16 and i_dw == 3 and reset_cnt not in (-1, 0, 5):
                        continue
                    rng = random.Random(hash((ratio, i_dw, reset_cnt, with_reset)) & 0xffff)
                    clk = "sys{}x".format(ratio)

                    class Dut(Module):
                        def __init__(self):
                            self.i = Signal(i_dw)
                            self.reset = Signal()
                            self.submodules.new = Deserializer("sys", clk, i_dw, ratio*i_dw, i=self.i,
                                reset=self.reset, reset_cnt=reset_cnt)
                            self.submodules.ref = RefDeserializer("sys", clk, i_dw, ratio*i_dw, i=self.i,
                                reset=self.reset, reset_cnt=reset_cnt)
                    dut = Dut()
                    errors = []
                    seen = set()

                    def gen():
                        for cyc in range(ratio*60):
                            a, b = (yield dut.new.o), (yield dut.ref.o)
                            seen.add(a)
                            if a != b:
                                errors.append((cyc, a, b))
                            yield dut.i.eq(rng.getrandbits(i_dw))
                            yield dut.reset.eq(int(with_reset and rng.random() < 0.05))
                            yield
                    run_simulation(dut, {clk: [gen()]}, clocks=clocks_for(ratio))
                    assert len(seen) >= min(8, 2**(ratio*i_dw)) - 1, "stimulus too weak"
                    assert not errors, "Deserializer differs from the unmodified one: ratio={} i_dw={} reset_cnt={} reset={}: {}".format(
                        ratio, i_dw, reset_cnt, with_reset, errors[:3])
                    n += 1
    print("part A: {} Deserializer configurations identical to the unmodified implementation".format(n))


def part_b():
    # stream model: with reset_cnt=-1 the word presented after clkdiv edge K holds the `ratio`
    # samples driven during clkdiv cycle K-2, first sample in the low chunk
    for ratio in [3, 6, 4]:
        for i_dw in [1, 5]:
            rng = random.Random(ratio*100 + i_dw)
            clk = "sys{}x".format(ratio)
            dut = Deserializer("sys", clk, i_dw, ratio*i_dw)
            stream = []
            words = []
            def drv():
                for cyc in range(ratio*50):
                    v = rng.getrandbits(i_dw)
                    stream.append(v)
                    yield dut.i.eq(v)
                    yield
            def mon():
                for k in range(50):
                    words.append((yield dut.o))   # value before clkdiv edge k == presented after edge k-1
                    yield
            run_simulation(dut, {clk: [drv()], "sys": [mon()]}, clocks=clocks_for(ratio))
            checked = 0
            for k in range(4, 50):
                K = k - 1
                exp = 0
                for s in range(ratio):
                    exp |= stream[ratio*(K-2) + s] << (s*i_dw)
                assert words[k] == exp, "ratio={} i_dw={} clkdiv cycle {}: {:#x} != {:#x}".format(ratio, i_dw, k, words[k], exp)
                checked += 1
            assert checked > 40
    print("part B: stream model OK for ratios 3, 6, 4")


# ---------------------------------------------------------------------------------------------
CMD  = [n for n, w, d in phase_description(1, 1, 1, 8) if n not in ["wrdata", "wrdata_mask", "rddata", "rddata_valid"]]
assert "wrdata_en" in CMD and "rddata_en" in CMD and "address" in CMD and len(CMD) == 12


def check_converter(ratio, phy_nphases, write_delay, read_delay, nslow, seed, addressbits=7, bankbits=3, nranks=2, phy_databits=16):
    rng = random.Random(seed)
    clk = "sys{}x".format(ratio)

    class Dut(Module):
        def __init__(self):
            self.dfi_phy = DFIInterface(addressbits, bankbits, nranks, phy_databits, nphases=phy_nphases)
            self.submodules.converter = DFIRateConverter(self.dfi_phy, clkdiv="sys", clk=clk, ratio=ratio,
                write_delay=write_delay, read_delay=read_delay)
            self.dfi = self.converter.dfi
    dut = Dut()
    assert len(dut.dfi.phases) == ratio*phy_nphases
    sdb = phy_databits // ratio
    assert len(dut.dfi.p0.wrdata) == sdb

    def rnd(sig, idle):
        n = len(sig)
        if rng.random() < idle:
            return sig.reset.value
        return rng.getrandbits(n)

    slow_in  = []   # slow_in[k][phase][name]    driven at clkdiv edge k
    slow_out = []   # slow_out[k][phase][name]   sampled at clkdiv edge k (value before the edge)
    phy_in   = []   # phy_in[n][phase][name]     driven at clk edge n
    phy_out  = []   # phy_out[n][phase][name]    sampled at clk edge n (value before the edge)

    def slow_gen():
        for k in range(nslow):
            idle = rng.choice([0.0, 0.5, 0.9])
            smp, drv = [], []
            for ph in dut.dfi.phases:
                got = {}
                for name in ["rddata", "rddata_valid"]:
                    got[name] = (yield getattr(ph, name))
                smp.append(got)
                vals = {}
                for name in CMD + ["wrdata", "wrdata_mask"]:
                    sig = getattr(ph, name)
                    vals[name] = rnd(sig, idle)
                    yield sig.eq(vals[name])
                drv.append(vals)
            slow_out.append(smp); slow_in.append(drv)
            yield

    def fast_gen():
        for n in range(nslow*ratio):
            smp, drv = [], []
            for ph in dut.dfi_phy.phases:
                got = {}
                for name in CMD + ["wrdata", "wrdata_mask"]:
                    got[name] = (yield getattr(ph, name))
                smp.append(got)
                vals = {}
                for name in ["rddata", "rddata_valid"]:
                    sig = getattr(ph, name)
                    vals[name] = rng.getrandbits(len(sig))
                    yield sig.eq(vals[name])
                drv.append(vals)
            phy_out.append(smp); phy_in.append(drv)
            yield

    run_simulation(dut, {"sys": [slow_gen()], clk: [fast_gen()]}, clocks=clocks_for(ratio))

    SER, DES = Serializer.LATENCY, Deserializer.LATENCY
    assert (SER, DES) == (1, 2)
    ncmd = nwr = nrd = 0
    # commands / enables: slow phase (pi + phy_nphases*j) of clkdiv cycle k -> PHY phase pi, sub-cycle j of clkdiv cycle k+SER
    # (a value driven at clk edge e is on the wire during [e, e+1) and sampled at edge e+1)
    for k in range(1, nslow - SER - 1):
        for j in range(ratio):
            e = ratio*(k + SER) + j + 1
            for pi in range(phy_nphases):
                for name in CMD:
                    exp = slow_in[k][pi + phy_nphases*j][name]
                    got = phy_out[e][pi][name]
                    assert got == exp, "ratio={} nph={} cmd {} k={} j={} pi={}: {:#x} != {:#x}".format(ratio, phy_nphases, name, k, j, pi, got, exp)
                    ncmd += 1
                # write data: whole burst of PHY phase pi in sub-cycle write_delay, nothing elsewhere
                for name, w in [("wrdata", sdb), ("wrdata_mask", sdb//8)]:
                    exp = 0
                    if j == write_delay:
                        for jj in range(ratio):
                            exp |= slow_in[k][pi*ratio + jj][name] << (jj*w)
                    got = phy_out[e][pi][name]
                    assert got == exp, "ratio={} nph={} wd={} {} k={} j={} pi={}: {:#x} != {:#x}".format(ratio, phy_nphases, write_delay, name, k, j, pi, got, exp)
                    nwr += 1
    # read data: PHY sample of sub-cycle read_delay of clkdiv cycle K is presented DES clkdiv cycles later
    for k in range(DES + 3, nslow):
        K = (k - 1) - DES          # value sampled at edge k was presented after edge k-1
        src = phy_in[ratio*K + read_delay]
        for pi in range(phy_nphases):
            for jj in range(ratio):
                got = slow_out[k][pi*ratio + jj]
                exp_d = (src[pi]["rddata"] >> (jj*sdb)) & ((1 << sdb) - 1)
                assert got["rddata"] == exp_d, "ratio={} nph={} rd={} rddata k={} pi={} jj={}: {:#x} != {:#x}".format(ratio, phy_nphases, read_delay, k, pi, jj, got["rddata"], exp_d)
                assert got["rddata_valid"] == src[pi]["rddata_valid"], "rddata_valid k={} pi={} jj={}".format(k, pi, jj)
                nrd += 1
    return ncmd, nwr, nrd


def part_c():
    tot = [0, 0, 0]
    seed = 77
    for ratio in [2, 4]:
        for phy_nphases in [1, 2, 4]:
            for write_delay in range(ratio):
                for read_delay in range(ratio):
                    seed += 1
                    r = check_converter(ratio, phy_nphases, write_delay, read_delay, nslow=40, seed=seed,
                                        phy_databits=8*ratio*(1 + seed % 2))
                    tot = [a + b for a, b in zip(tot, r)]
    print("part C: rate converter model OK ({} command, {} write-data, {} read-data comparisons)".format(*tot))


if __name__ == "__main__":
    part_a()
    part_b()
    part_c()
    print("keep_2: OK")
