"""keep_2 check (bankmachine: REFRESH -> ACTIVATE directly when a request is waiting, one cycle saved).

Run from the root of a tree with keep_2.diff applied. Drives the REAL code:
 * full system (crossbar + controller with the real bank machines, refresher, multiplexer) on a
   behavioural DFI DRAM model: the 12 adversarial / random scenarios of the shared harness plus 6 with
   the shortest refresh period the refresher accepts (tREFI = 100 cycles). Checked: read data, DRAM command legality (no ACTIVATE on an open bank, no CAS on a
   closed bank, no REFRESH with an open row), DRAM timing gaps seen on the DFI (REF->ACT >= tRFC,
   PRE->ACT >= tRP, ACT->CAS >= tRCD, ACT->ACT >= tRC, ACT->PRE >= tRAS), latency bounds, throughput
   not below the figures recorded on the unmodified tree, and a monitor on every real BankMachine FSM:
   REFRESH is left to ACTIVATE iff a request is waiting, and then the row is closed, the request is
   still there and no new refresh request is pending, i.e. exactly the situation in which REGULAR
   could only have redirected to ACTIVATE one cycle later;
 * a single real BankMachine under random requests, random cmd.ready and refresh windows that come
   back after 1..3 cycles (which the real refresher cannot do), depth 0..16, buffered or not, with
   and without auto-precharge: command stream checked against a row model (ACT only on a closed row
   and >= tRP after PRE, CAS in request order on the right row/column), every accepted request gets
   its strobe within a bound, the lock is released after the drain.
Exit status 0 = all good.
"""
# ---- shared harness (inlined in every keep_k.py) ---------------------------------------------------
# Full system: real LiteDRAMCrossbar + real LiteDRAMController (BankMachines, Multiplexer, Refresher)
# on top of a behavioural DFI memory model written as a simulation generator.
import os, sys, random, hashlib, math
sys.path.insert(0, os.getcwd())

from migen import *
from migen.sim import run_simulation

from litedram.common import PhySettings, GeomSettings, TimingSettings, burst_lengths
from litedram.core.controller import ControllerSettings, LiteDRAMController
from litedram.core.crossbar import LiteDRAMCrossbar


class System(Module):
    def __init__(self, nports, nphases=2, memtype="DDR2", depth=4, buffered=False, read_time=16,
                 write_time=8, auto_precharge=True, tccd=1, tfaw=None, read_latency=4,
                 write_latency=1, with_refresh=True, bankbits=2, trefi=128):
        rdphase, wrphase = (0, 0) if nphases == 1 else (nphases - 1, nphases - 2)
        phy = PhySettings(phytype="model", memtype=memtype, databits=8, dfi_databits=16,
            nphases=nphases, rdphase=rdphase, wrphase=wrphase, cl=2, cwl=2,
            read_latency=read_latency, write_latency=write_latency)
        geom   = GeomSettings(bankbits=bankbits, rowbits=13, colbits=10)
        timing = TimingSettings(tRP=2, tRCD=2, tWR=2, tWTR=2, tREFI=trefi, tRFC=5, tFAW=tfaw,
            tCCD=tccd, tRRD=2, tRC=6, tRAS=4, tZQCS=None)
        cs = ControllerSettings(cmd_buffer_depth=depth, cmd_buffer_buffered=buffered,
            read_time=read_time, write_time=write_time, with_auto_precharge=auto_precharge,
            with_refresh=with_refresh)
        self.phy, self.geom, self.timing, self.cs = phy, geom, timing, cs
        self.submodules.controller = LiteDRAMController(phy, geom, timing, 100e6, cs)
        self.submodules.crossbar   = LiteDRAMCrossbar(self.controller.interface)
        self.ports   = [self.crossbar.get_port() for _ in range(nports)]
        self.align   = int(math.log2(1 if memtype == "SDR" else burst_lengths[memtype])) \
                       if memtype != "SDR" else int(math.log2(nphases))
        self.colbits_p = geom.colbits - self.align
        self.bankbits  = bankbits
        self.dw        = phy.dfi_databits*nphases

    def addr(self, bank, row, col):
        return (row << (self.colbits_p + self.bankbits)) | (bank << self.colbits_p) | col


SYSTEM_CLS = System


def default_data(key, dw):
    h = hashlib.md5(repr(key).encode()).digest()
    return int.from_bytes(h, "little") & (2**dw - 1)


def dfi_model(dut, log, ncycles):
    """Behavioural DRAM behind the DFI: open-row tracking + data storage."""
    dfi   = dut.controller.dfi
    phy   = dut.phy
    mem   = {}
    rows  = {}
    wr_q  = {}   # cycle -> key
    rd_q  = {}   # cycle -> key
    nph   = len(dfi.phases)
    dwp   = phy.dfi_databits
    rdv   = False
    last_pre, last_act, last_ref = {}, {}, [None]
    def gap(name, since):
        if since is not None:
            log[name] = min(log.get(name, 10**9), cyc - since)
    for cyc in range(ncycles):
        # 1. capture the write data that is due this cycle
        if cyc in wr_q:
            key  = wr_q.pop(cyc)
            data = 0
            mask = 0
            for i, p in enumerate(dfi.phases):
                data |= (yield p.wrdata) << (i*dwp)
                mask |= (yield p.wrdata_mask) << (i*dwp//8)
            old = mem.get(key, default_data(key, dut.dw))
            new = 0
            for b in range(dut.dw//8):
                src = old if (mask >> b) & 1 else data
                new |= src & (0xff << (8*b))
            mem[key] = new
        # 2. decode commands
        ncas = 0
        for i, p in enumerate(dfi.phases):
            cas = not (yield p.cas_n)
            ras = not (yield p.ras_n)
            if not (cas or ras):
                continue
            we  = not (yield p.we_n)
            if (yield p.cs_n):
                continue
            a   = (yield p.address)
            ba  = (yield p.bank)
            if ras and not cas and not we:      # ACTIVATE
                assert rows.get(ba) is None, "cycle %d: ACTIVATE of bank %d with an open row" % (cyc, ba)
                rows[ba] = a
                log["act"] += 1
                gap("pre_act", last_pre.get(ba)); gap("act_act", last_act.get(ba)); gap("ref_act", last_ref[0])
                last_act[ba] = cyc
            elif ras and not cas and we:        # PRECHARGE
                if a & (1 << 10):
                    for b in list(rows) + list(last_act):
                        gap("act_pre", last_act.get(b))
                    rows.clear()
                    for b in range(2**dut.bankbits):
                        last_pre[b] = cyc
                else:
                    gap("act_pre", last_act.get(ba))
                    rows.pop(ba, None)
                    last_pre[ba] = cyc
            elif ras and cas and not we:        # REFRESH
                assert not rows, "cycle %d: REFRESH with open rows" % cyc
                log["refresh"] += 1
                for b in last_pre:
                    gap("pre_ref", last_pre[b])
                last_ref[0] = cyc
            elif cas and not ras:               # READ / WRITE
                ncas += 1
                assert rows.get(ba) is not None, "cycle %d: CAS to closed bank %d" % (cyc, ba)
                key = (ba, rows[ba], a & ~(1 << 10))
                gap("act_cas", last_act.get(ba))
                if we:
                    assert (yield p.wrdata_en)
                    assert i == phy.wrphase
                    assert (cyc + phy.write_latency) not in wr_q
                    wr_q[cyc + phy.write_latency] = key
                else:
                    assert (yield p.rddata_en)
                    assert i == phy.rdphase
                    rd_q[cyc + phy.read_latency - 1] = key
                if a & (1 << 10):
                    rows.pop(ba, None)
                    last_pre[ba] = cyc    # auto-precharge: not earlier than the CAS itself
        assert ncas <= 1
        # 3. drive read data (visible next cycle)
        if cyc in rd_q:
            key  = rd_q.pop(cyc)
            data = mem.get(key, default_data(key, dut.dw))
            log["reads"] += 1
            for i, p in enumerate(dfi.phases):
                yield p.rddata.eq((data >> (i*dwp)) & (2**dwp - 1))
                yield p.rddata_valid.eq(1)
            rdv = True
        elif rdv:
            for p in dfi.phases:
                yield p.rddata_valid.eq(0)
            rdv = False
        yield


def wdata_of(pid, seq, dw):
    return default_data(("w", pid, seq), dw)


class PortAgent:
    """Drives one native port from a schedule generator and records per-command timing."""
    def __init__(self, dut, pid, schedule):
        self.dut, self.pid, self.port = dut, pid, dut.ports[pid]
        self.schedule  = schedule      # iterator of (we, addr, gap_before)
        self.shadow    = {}
        self.offer_lat = []            # cycles from first valid to accept
        self.data_lat  = []            # cycles from accept to wdata.ready / rdata.valid
        self.wr_acc    = []            # accept cycle of writes not strobed yet
        self.rd_acc    = []            # (accept cycle, expected data)
        self.events    = []            # (cycle, kind) for the golden digest
        self.pending_since = None
        self.n_done    = 0

    def driver(self, ncycles):
        port, dut = self.port, self.dut
        cyc   = 0
        wseq  = 0      # writes accepted
        sseq  = 0      # strobes seen
        cur   = None
        nxt   = None
        wait  = 0
        exhausted = False
        yield port.wdata.valid.eq(1)
        yield port.wdata.we.eq(2**(dut.dw//8) - 1)
        yield port.wdata.data.eq(wdata_of(self.pid, 0, dut.dw))
        yield port.rdata.ready.eq(1)
        presented = False
        while cyc < ncycles:
            # ---- observe (values of this cycle)
            if presented and (yield port.cmd.ready):
                we, addr = cur
                self.offer_lat.append(cyc - self.pending_since)
                self.events.append((cyc, "A", we, addr))
                if we:
                    self.shadow[addr] = wdata_of(self.pid, wseq, dut.dw)
                    wseq += 1
                    self.wr_acc.append(cyc)
                else:
                    exp = self.shadow.get(addr)
                    self.rd_acc.append((cyc, addr, exp))
                cur, presented, self.pending_since = None, False, None
            if (yield port.wdata.ready):
                assert self.wr_acc, "port %d: wdata.ready without an accepted write (cycle %d)" % (self.pid, cyc)
                t = self.wr_acc.pop(0)
                self.data_lat.append(cyc - t)
                self.events.append((cyc, "W"))
                sseq += 1
                self.n_done += 1
                yield port.wdata.data.eq(wdata_of(self.pid, sseq, dut.dw))
            if (yield port.rdata.valid):
                assert self.rd_acc, "port %d: rdata.valid without an accepted read (cycle %d)" % (self.pid, cyc)
                t, addr, exp = self.rd_acc.pop(0)
                got = (yield port.rdata.data)
                if exp is None:
                    # never written by this port: the model default (address regions are private)
                    pass
                else:
                    assert got == exp, "port %d: read of %x returned %x, expected %x (cycle %d)" % (
                        self.pid, addr, got, exp, cyc)
                self.data_lat.append(cyc - t)
                self.events.append((cyc, "R", got))
                self.n_done += 1
            # ---- drive (takes effect next cycle)
            if cur is None:
                if nxt is None and not exhausted:
                    nxt = next(self.schedule, None)
                    if nxt is None:
                        exhausted = True
                    else:
                        wait = nxt[2]
                if nxt is not None:
                    if wait == 0:
                        cur, nxt = (nxt[0], nxt[1]), None
                    else:
                        wait -= 1
                if cur is not None:
                    yield port.cmd.valid.eq(1)
                    yield port.cmd.we.eq(cur[0])
                    yield port.cmd.addr.eq(cur[1])
                    presented = True
                    self.pending_since = cyc + 1
                else:
                    yield port.cmd.valid.eq(0)
            yield
            cyc += 1
        self.end_cycle = cyc
# ---- traffic schedules + runner (inlined in every keep_k.py) --------------------------------------
def sched(dut, pid, kind, rng, n):
    """Adversarial / random schedules. Every port owns a private set of columns (col % 8 == pid), so
    that the data a port reads back only depends on its own program order."""
    nb = 2**dut.bankbits
    def col():
        return (rng.randrange(8) << 3) | pid
    own = pid % nb
    if kind == "own_w":           # continuous writes to the port's private bank, one row
        for _ in range(n):
            yield 1, dut.addr(own, 1, col()), 0
    elif kind == "own_r":
        for _ in range(n):
            yield 0, dut.addr(own, 1, col()), 0
    elif kind == "own_altrows_w": # continuous writes to the private bank, alternating rows
        for i in range(n):
            yield 1, dut.addr(own, 2 + (i & 1), col()), 0
    elif kind == "own_altrows_r":
        for i in range(n):
            yield 0, dut.addr(own, 2 + (i & 1), col()), 0
    elif kind == "own_random":    # random direction / row / gaps, private bank
        for _ in range(n):
            gap = rng.choice([0, 0, 0, 0, 1, 2, 5, 17])
            yield int(rng.random() < 0.5), dut.addr(own, rng.randrange(3), col()), gap
    elif kind == "own_sparse_r":  # isolated reads on the private bank
        for _ in range(n):
            yield 0, dut.addr(own, rng.randrange(2), col()), rng.randrange(0, 30)
    elif kind == "own_sparse_w":
        for _ in range(n):
            yield 1, dut.addr(own, rng.randrange(2), col()), rng.randrange(0, 30)
    elif kind == "hammer_w":        # continuous writes, one bank, one row
        for _ in range(n):
            yield 1, dut.addr(0, 1, col()), 0
    elif kind == "hammer_r":      # continuous reads, one bank, one row
        for _ in range(n):
            yield 0, dut.addr(0, 1, col()), 0
    elif kind == "altrows_w":     # continuous writes, one bank, alternating rows
        for i in range(n):
            yield 1, dut.addr(0, 2 + (i & 1), col()), 0
    elif kind == "altrows_r":
        for i in range(n):
            yield 0, dut.addr(0, 2 + (i & 1), col()), 0
    elif kind == "sweep_w":       # continuous writes walking over the banks
        for i in range(n):
            yield 1, dut.addr(i % nb, 1, col()), 0
    elif kind == "sweep_r":
        for i in range(n):
            yield 0, dut.addr(i % nb, 1, col()), 0
    elif kind == "bursty":        # bursts to one bank, then a pause that lets the bank drain
        i = 0
        while i < n:
            b, r, we = rng.randrange(nb), rng.randrange(3), rng.random() < 0.5
            ln = rng.randrange(1, 9)
            for k in range(ln):
                yield int(we), dut.addr(b, r, col()), (rng.randrange(0, 40) if k == 0 else 0)
            i += ln
    elif kind == "random":
        for _ in range(n):
            gap = rng.choice([0, 0, 0, 1, 2, 5, 17])
            yield int(rng.random() < 0.5), dut.addr(rng.randrange(nb), rng.randrange(3), col()), gap
    elif kind == "victim_r":      # sparse single reads on its own bank
        for _ in range(n):
            yield 0, dut.addr(nb - 1, rng.randrange(2), col()), rng.randrange(0, 12)
    elif kind == "victim_w":
        for _ in range(n):
            yield 1, dut.addr(nb - 1, rng.randrange(2), col()), rng.randrange(0, 12)
    elif kind == "victim_rw":     # write then read back, own bank
        for _ in range(n):
            a = dut.addr(nb - 1, rng.randrange(2), col())
            yield 1, a, rng.randrange(0, 12)
            yield 0, a, rng.randrange(0, 3)
    else:
        raise ValueError(kind)


def run(cfg, kinds, seed, ncycles, extra_generators=None, n=10**9):
    rng    = random.Random(seed)
    dut    = SYSTEM_CLS(nports=len(kinds), **cfg)
    log    = {"act": 0, "refresh": 0, "reads": 0}
    agents = [PortAgent(dut, i, sched(dut, i, k, random.Random(rng.random()), n)) for i, k in enumerate(kinds)]
    gens   = [dfi_model(dut, log, ncycles)] + [a.driver(ncycles) for a in agents]
    for g in (extra_generators or []):
        gens.append(g(dut, ncycles))
    run_simulation(dut, gens)
    return dut, agents, log


def digest(agents):
    h = hashlib.sha256()
    for a in agents:
        h.update(repr(a.events).encode())
    return h.hexdigest()[:16]
# ---- scenarios -------------------------------------------------------------------------------------
SDR  = dict(nphases=1, memtype="SDR")
DDR3 = dict(nphases=4, memtype="DDR3", buffered=True, tccd=2, tfaw=10)

# (name, cfg, kinds, seed, ncycles, private_banks)
SCENARIOS = [
    ("P1", dict(),                                ["own_w", "own_r", "own_altrows_w", "own_sparse_r"], 11, 1000, True),
    ("P2", dict(SDR, depth=2),                    ["own_r", "own_r", "own_sparse_w"],                  12, 1000, True),
    ("P3", dict(DDR3),                            ["own_altrows_r", "own_w", "own_random"],            13, 1000, True),
    ("P4", dict(depth=1, read_time=4, write_time=4), ["own_random", "own_random", "own_random"],       14, 1000, True),
    ("P5", dict(auto_precharge=False, read_time=8, write_time=24), ["own_w", "own_w", "own_sparse_r"], 15, 1000, True),
    ("P6", dict(DDR3, depth=8, auto_precharge=False), ["own_r", "own_altrows_w", "own_sparse_w", "own_random"], 16, 1000, True),
    ("S1", dict(),                                ["random", "random", "random"],                      21, 1000, False),
    ("S2", dict(buffered=True),                   ["hammer_w", "victim_r", "bursty"],                  22, 1000, False),
    ("S3", dict(SDR),                             ["hammer_r", "victim_w", "bursty"],                  23, 1000, False),
    ("S4", dict(DDR3),                            ["altrows_w", "altrows_r", "random"],                24, 1000, False),
    ("S5", dict(depth=2),                         ["sweep_w", "sweep_r", "victim_rw"],                 25, 1000, False),
    ("S6", dict(depth=0),                         ["random", "bursty", "sweep_r"],                     26, 1000, False),
]


def stats(agents, ncycles):
    offer, data = 0, 0
    for a in agents:
        offer = max([offer] + a.offer_lat)
        data  = max([data] + a.data_lat)
        if a.pending_since is not None:
            offer = max(offer, ncycles - a.pending_since)
        for t in a.wr_acc[:1]:
            data = max(data, ncycles - t)
        for t in a.rd_acc[:1]:
            data = max(data, ncycles - t[0])
    return offer, data, sum(a.n_done for a in agents)
# Digests of the complete port-level event traces (cycle of every cmd accept, wdata.ready, rdata.valid
# and the read data) recorded with this very script on the UNMODIFIED tree.
GOLDEN = {
    "P1": "405eff0d5cda4894", "P2": "b66a84ab7e6c39e3", "P3": "c3aab50c3c60cc2c", "P4": "ff2e50510b175aeb",
    "P5": "47ff68cc419a37ba", "P6": "0e544dd56ef051b7", "S1": "3f43384ce989521a", "S2": "8b10d812d9d8f211",
    "S3": "fbab1bf2fa8a0d21", "S4": "d93947c6af5092da", "S5": "0900ce543cf43802", "S6": "e8a21820d2dc232c",
}
# ---- keep_2 specific -------------------------------------------------------------------------------
import traceback
from litedram.common import LiteDRAMInterface
from litedram.core.bankmachine import BankMachine


def fsm_state(bm):
    return bm.fsm.decoding[(yield bm.fsm.state)]


def bm_monitor(dut, ncycles):
    """On every real bank machine: how REFRESH is left."""
    bms  = [m for _, m in dut.controller._submodules if isinstance(m, BankMachine)]
    assert len(bms) == 2**dut.bankbits
    dut.shortcuts, dut.plain_exits, dut.req_in_first_act = 0, 0, 0
    prev = [None]*len(bms)       # (state, refresh_req, buffer valid)
    for cyc in range(ncycles):
        for i, bm in enumerate(bms):
            st  = yield from fsm_state(bm)
            rq  = yield bm.refresh_req
            # cmd_buffer is the stream.Buffer instance: its source.valid is what REGULAR looks at
            bv  = yield bm.cmd_buffer_valid_probe
            if prev[i] is not None and prev[i][0] == "REFRESH":
                pst, prq, pbv = prev[i]
                if prq:
                    assert st == "REFRESH", "cycle %d bank %d: left REFRESH with refresh_req high" % (cyc, i)
                elif pbv and BASELINE:
                    assert st == "REGULAR"      # unmodified tree (only used to record the reference figures)
                elif pbv:
                    assert st == "ACTIVATE", "cycle %d bank %d: REFRESH -> %s with a request waiting" % (cyc, i, st)
                    dut.shortcuts += 1
                    # what REGULAR would have seen in this very cycle: must select ACTIVATE
                    assert (yield bm.row_opened_probe) == 0, "cycle %d bank %d: row open after REFRESH" % (cyc, i)
                    assert bv, "cycle %d bank %d: request vanished" % (cyc, i)
                    dut.req_in_first_act += rq
                else:
                    assert st == "REGULAR", "cycle %d bank %d: REFRESH -> %s without a request" % (cyc, i, st)
                    dut.plain_exits += 1
            prev[i] = (st, rq, bv)
        yield


def add_probes(bm):
    """Find cmd_buffer.source.valid and row_opened of a real BankMachine (they are locals of __init__)."""
    from litex.soc.interconnect import stream
    bufs = [m for _, m in bm._submodules if isinstance(m, stream.Buffer)]
    assert len(bufs) == 1
    bm.cmd_buffer_valid_probe = bufs[0].source.valid
    # row_opened is a local of __init__: it is the target of the row tracking statement
    #   If(row_close, row_opened.eq(0)).Elif(row_open, row_opened.eq(1), row.eq(...))
    # which is the first synchronous statement of the module.
    from migen.fhdl.structure import _Assign, If as _If, Constant
    st = bm._fragment.sync["sys"][0]
    assert isinstance(st, _If) and isinstance(st.t[0], _Assign) and isinstance(st.f[0], _If)
    sig = st.t[0].l
    assert len(sig) == 1 and isinstance(st.t[0].r, Constant) and st.t[0].r.value == 0
    assert st.f[0].t[0].l is sig and st.f[0].t[0].r.value == 1
    bm.row_opened_probe = sig


class SystemP(System):
    def __init__(self, *a, **kw):
        System.__init__(self, *a, **kw)
        for _, m in self.controller._submodules:
            if isinstance(m, BankMachine):
                add_probes(m)
SYSTEM_CLS = SystemP


# ---- single real BankMachine under random traffic / refresh -----------------------------------------
class BMDut(Module):
    def __init__(self, depth, buffered, auto_precharge, tras, trc):
        phy    = PhySettings(phytype="model", memtype="DDR2", databits=8, dfi_databits=16, nphases=2,
            rdphase=1, wrphase=0, cl=2, cwl=2, read_latency=4, write_latency=1)
        geom   = GeomSettings(bankbits=2, rowbits=13, colbits=10)
        timing = TimingSettings(tRP=3, tRCD=2, tWR=2, tWTR=2, tREFI=128, tRFC=5, tFAW=None,
            tCCD=1, tRRD=2, tRC=trc, tRAS=tras, tZQCS=None)
        cs = ControllerSettings(cmd_buffer_depth=depth, cmd_buffer_buffered=buffered,
            with_auto_precharge=auto_precharge)
        cs.phy, cs.geom, cs.timing = phy, geom, timing
        self.cs = cs
        self.align = 2
        aw = LiteDRAMInterface(self.align, cs).address_width
        self.submodules.bm = BankMachine(1, address_width=aw, address_align=self.align, nranks=1, settings=cs)
        add_probes(self.bm)


def bm_case(args):
    depth, buffered, auto_precharge, tras, trc, seed, ncycles = args
    name = "bankmachine depth=%d buffered=%d auto_precharge=%d tRAS=%s tRC=%s" % (depth, buffered, auto_precharge, tras, trc)
    try:
        dut = BMDut(depth, buffered, auto_precharge, tras, trc)
        bm  = dut.bm
        rng = random.Random(seed)
        split = 10 - dut.align
        BOUND = (depth + 3)*40 + 100
        st = dict(shortcuts=0, plain=0, quick_reassert=0, done=0, maxlat=0, maxoffer=0, refreshes=0, act=0, pre=0)
        def gen():
            inflight  = []       # (we, row, col, accept cycle)
            cur       = None
            cur_since = None
            gap       = 0
            p_ready   = 0.5
            p_req     = 0.8
            # refresh window state machine: idle -> req (until gnt) -> hold k cycles -> idle
            ref_state, ref_cnt, ref_next = "idle", 0, rng.randrange(30, 120)
            row, last_pre, last_act = None, -100, -100
            prev = None
            for cyc in range(ncycles):
                # ---- drive (values for the coming cycle)
                if cyc % 200 == 0:
                    p_ready = rng.choice([0.3, 0.6, 1.0])
                    p_req   = rng.choice([0.2, 0.8, 1.0])
                draining = cyc > ncycles - BOUND - 50
                if cur is None and not draining:
                    if gap == 0 and rng.random() < p_req:
                        r = rng.randrange(3)
                        cur = (int(rng.random() < 0.5), r, rng.randrange(2**split))
                        cur_since = cyc
                        yield bm.req.valid.eq(1); yield bm.req.we.eq(cur[0])
                        yield bm.req.addr.eq((cur[1] << split) | cur[2])
                    elif gap:
                        gap -= 1
                if ref_state == "idle" and not draining:
                    if ref_next == 0:
                        ref_state = "req"; yield bm.refresh_req.eq(1)
                    else:
                        ref_next -= 1
                in_window = ref_state == "hold"
                yield bm.cmd.ready.eq(int((not in_window) and rng.random() < p_ready))
                yield
                # ---- observe this cycle
                state = yield from fsm_state(bm)
                rq    = yield bm.refresh_req
                bv    = yield bm.cmd_buffer_valid_probe
                gnt   = yield bm.refresh_gnt
                if prev is not None and prev[0] == "REFRESH":
                    if prev[1]:
                        assert state == "REFRESH"
                    elif prev[2]:
                        assert state == "ACTIVATE", "cycle %d: REFRESH -> %s with a request waiting" % (cyc, state)
                        assert (yield bm.row_opened_probe) == 0 and bv
                        st["shortcuts"] += 1
                        st["quick_reassert"] += rq
                    else:
                        assert state == "REGULAR", "cycle %d: REFRESH -> %s without request" % (cyc, state)
                        st["plain"] += 1
                prev = (state, rq, bv)
                if gnt:
                    assert state == "REFRESH"
                    row = None           # the refresher precharges all banks inside the window
                    last_pre = min(last_pre, cyc)   # (bank machine gives the grant only after tRAS / tWTP)
                    if ref_state == "req":
                        ref_state, ref_cnt = "hold", 3 + 5 + rng.randrange(3)
                        st["refreshes"] += 1
                if ref_state == "hold":
                    ref_cnt -= 1
                    if ref_cnt == 0:
                        ref_state = "idle"
                        yield bm.refresh_req.eq(0)
                        # sometimes come back almost immediately (the real refresher cannot)
                        ref_next = rng.choice([1, 2, 3]) if rng.random() < 0.3 else rng.randrange(40, 160)
                if (yield bm.req.valid) and (yield bm.req.ready):
                    assert cur is not None
                    st["maxoffer"] = max(st["maxoffer"], cyc - cur_since)
                    inflight.append(cur + (cyc,))
                    cur = None
                    gap = rng.choice([0, 0, 0, 1, 3, 10, 40])
                    yield bm.req.valid.eq(0)
                elif cur is not None:
                    assert cyc - cur_since <= BOUND, "cycle %d: request offered for %d cycles" % (cyc, cyc - cur_since)
                wr, rd = (yield bm.req.wdata_ready), (yield bm.req.rdata_valid)
                cv, cr = (yield bm.cmd.valid), (yield bm.cmd.ready)
                if cv and cr:
                    ras, cas, we, a = (yield bm.cmd.ras), (yield bm.cmd.cas), (yield bm.cmd.we), (yield bm.cmd.a)
                    assert (yield bm.cmd.ba) == 1
                    if ras and not cas and not we:
                        assert row is None, "cycle %d: ACTIVATE with row %r open" % (cyc, row)
                        assert inflight and a == inflight[0][1], "cycle %d: ACTIVATE of the wrong row" % cyc
                        assert cyc - last_pre >= 3, "cycle %d: tRP violated (%d)" % (cyc, cyc - last_pre)
                        if trc is not None:
                            assert cyc - last_act >= trc, "cycle %d: tRC violated" % cyc
                        row, last_act = a, cyc
                        st["act"] += 1
                        assert not (wr or rd)
                    elif ras and not cas and we:
                        assert row is not None
                        if tras is not None:
                            assert cyc - last_act >= tras, "cycle %d: tRAS violated" % cyc
                        row, last_pre = None, cyc
                        st["pre"] += 1
                        assert not (wr or rd)
                    elif cas and not ras:
                        rwe, rrow, rcol, t = inflight.pop(0)
                        assert row == rrow, "cycle %d: CAS with row %r open, request row %r" % (cyc, row, rrow)
                        assert we == rwe and (a & ~(1 << 10)) == (rcol << dut.align)
                        assert (wr, rd) == (rwe, 1 - rwe)
                        st["done"] += 1
                        st["maxlat"] = max(st["maxlat"], cyc - t)
                        if a & (1 << 10):
                            row, last_pre = None, cyc
                    else:
                        raise AssertionError("cycle %d: unexpected command" % cyc)
                else:
                    assert not (wr or rd), "cycle %d: strobe without an accepted CAS" % cyc
                if inflight:
                    assert cyc - inflight[0][3] <= BOUND, "cycle %d: request waiting for its strobe for %d cycles" % (
                        cyc, cyc - inflight[0][3])
            assert not inflight and cur is None, "requests left at the end"
            assert not (yield bm.req.lock), "lock not released after the drain"
        run_simulation(dut, gen())
        assert st["shortcuts"] >= 5 and st["plain"] >= 1 and st["done"] > ncycles//40 and st["refreshes"] >= 10, st
    except Exception:
        return False, "%s: %s" % (name, traceback.format_exc())
    return True, "%s: %d requests, max offer->accept %d, max accept->strobe %d (bound %d), %d refresh windows, REFRESH->ACTIVATE %d times (%d with refresh_req back already), REFRESH->REGULAR %d times, %d ACT / %d PRE legal" % (
        name, st["done"], st["maxoffer"], st["maxlat"], BOUND, st["refreshes"], st["shortcuts"], st["quick_reassert"], st["plain"], st["act"], st["pre"])
# ---- keep_2 scenarios / main -----------------------------------------------------------------------
import multiprocessing, time

SCENARIOS2 = SCENARIOS + [
    ("R1", dict(trefi=100),                             ["own_w", "own_r", "own_altrows_w", "own_sparse_r"], 31, 2000, True),
    ("R2", dict(SDR, depth=2, trefi=100),                ["own_r", "own_random", "own_sparse_w"],             32, 1000, True),
    ("R3", dict(DDR3, trefi=100),                        ["own_altrows_r", "own_w", "own_random"],            33, 1000, True),
    ("R4", dict(depth=0, trefi=100, auto_precharge=False), ["random", "bursty", "sweep_r"],                   34, 1000, False),
    ("R5", dict(buffered=True, depth=8, trefi=100),      ["random", "random", "random", "random"],            35, 1000, False),
    ("R6", dict(depth=1, trefi=100, read_time=4, write_time=4), ["sweep_w", "sweep_r", "victim_rw"],          36, 1000, False),
]

# name: (commands completed in 1000 cycles, max offer->accept, max accept->data) on the UNMODIFIED tree
BASE = {'P1': (596, 38, 172), 'P2': (528, 38, 103), 'P3': (243, 45, 160), 'P4': (242, 45, 62), 'P5': (602, 41, 92), 'P6': (304, 58, 348),
        'S1': (175, 63, 39), 'S2': (426, 954, 109), 'S3': (524, 949, 157), 'S4': (98, 999, 74), 'S5': (152, 968, 41), 'S6': (241, 53, 44),
        'R1': (1121, 55, 180), 'R2': (447, 48, 108), 'R3': (231, 57, 152), 'R4': (242, 42, 46), 'R5': (161, 97, 50), 'R6': (151, 336, 55)}

def system_case2(sc):
    name, cfg, kinds, seed, n, private = sc
    try:
        dut, agents, log = run(cfg, kinds, seed, n, extra_generators=[bm_monitor])
    except Exception:
        return False, name, None, "system %s: %s" % (name, traceback.format_exc())
    offer, data, done = stats(agents, n)
    t     = dut.timing
    nref  = n // t.tREFI
    per   = dut.cs.read_time + dut.cs.write_time + 40 + 0
    data_bound  = (dut.cs.cmd_buffer_depth + 3)*per
    offer_bound = 2*per
    ok  = data <= data_bound and done > 50 and log["refresh"] >= nref - 2
    if private:
        ok = ok and offer <= offer_bound and all(a.n_done > 8 for a in agents)
    gaps = [("ref_act", t.tRFC), ("pre_act", t.tRP), ("act_cas", t.tRCD), ("act_act", t.tRC), ("act_pre", t.tRAS), ("pre_ref", t.tRP)]
    gap_ok = all(log.get(k, 10**9) >= v for k, v in gaps)
    ok = ok and gap_ok
    base = BASE.get(name)
    if not BASELINE:
        ok = ok and dut.shortcuts >= 3 and dut.req_in_first_act == 0
        # never slower than the unmodified tree beyond noise (a saved cycle can shift arbitration)
        ok = ok and done >= base[0] - max(4, base[0]//33)
    msg = "system %s: done=%d%s max offer->accept=%d%s max accept->data=%d (<=%d); %d refreshes; DFI gaps %s %s; REFRESH->ACTIVATE %d times, ->REGULAR %d times, refresh_req pending at the shortcut %d times" % (
        name, done, "" if base is None else " (unmodified tree %d)" % base[0], offer,
        " (<=%d)" % offer_bound if private else "", data, data_bound, log["refresh"],
        " ".join("%s=%s>=%d" % (k, log.get(k, "-"), v) for k, v in gaps), "ok" if gap_ok else "VIOLATED",
        dut.shortcuts, dut.plain_exits, dut.req_in_first_act)
    return ok, name, (done, offer, data), msg


def bm_job(args):
    ok, msg = bm_case(args)
    return ok, None, None, msg


def _dispatch(job):
    return job[0](job[1])


BM_JOBS = [(bm_job, (depth, buffered, ap, tras, trc, 700 + 10*depth + buffered, 4000))
           for depth, buffered, ap, tras, trc in [
               (0, 0, 1, None, None), (0, 1, 0, 4, 6), (1, 0, 1, 4, 6), (1, 1, 0, None, None), (2, 0, 0, 4, 6), (2, 1, 1, 5, 8),
               (3, 0, 1, 4, 6), (4, 0, 1, 4, 6), (4, 1, 0, 5, 8), (8, 0, 1, None, 6), (8, 1, 0, 4, None), (16, 0, 1, 4, 6)]]
BASELINE = "--baseline" in sys.argv

if __name__ == "__main__":
    t0   = time.time()
    bad  = 0
    jobs = [(system_case2, sc) for sc in SCENARIOS2] + ([] if BASELINE else BM_JOBS)
    rec  = {}
    with multiprocessing.Pool(min(8, os.cpu_count() or 2)) as pool:
        for ok, name, fig, msg in pool.imap(_dispatch, jobs):
            print("ok  " if ok else "FAIL", msg, flush=True)
            bad += not ok
            if name:
                rec[name] = fig
    if BASELINE:
        print("BASE =", rec)
    print("%d jobs, %d failed, %.0f s" % (len(jobs), bad, time.time() - t0))
    sys.exit(1 if bad else 0)
