#!/usr/bin/env python3
import os
import sys
import math
import random

sys.path.insert(0, os.getcwd())

from migen import *

from litedram import modules as M
from litedram.common import PhySettings, burst_lengths
from litedram.core.controller import LiteDRAMController, ControllerSettings

# ==================================================================================================
# Shared part: datasheet requirement table, DFI bus rule checker, controller test bench
# ==================================================================================================

# What the datasheet entry of the module asks for, in DRAM clocks (tCK = controller period / nphases).
def datasheet_clocks(module, nphases, cwl):
    memtype = module.memtype
    tck = 1e9/(module.clk_freq*nphases)
    def clocks(t):
        if t is None:
            return None
        return max(t.ck, math.ceil(t.ns/tck - 1e-9))
    def entry(name):
        if name == "tRFC" and memtype == "DDR4":
            return module.get(name, module.timing_settings.fine_refresh_mode)
        return module.get(name)
    need = {n: clocks(entry(n)) for n in
        ["tRP", "tRCD", "tWR", "tWTR", "tRFC", "tFAW", "tCCD", "tRRD", "tRAS", "tZQCS"]}
    need["tRC"] = None if entry("tRAS") is None else clocks(entry("tRAS") + entry("tRP"))
    # Clocks from the write command to the end of its data burst (tWR / tWTR start there).
    need["wr_end"] = 1 if memtype == "SDR" else cwl + burst_lengths[memtype]//2
    return need


class BusRules:
    """Replays the command stream seen on the DFI bus (T = sys_cycle*nphases + phase) and checks every
    pair of commands against the datasheet minimums. Explicit precharge, auto-precharge (A10 on the CAS,
    the internal precharge starts when tRAS / write recovery allow it) and precharge-all are handled."""
    def __init__(self, need, nbanks, nphases, tag):
        self.need, self.nbanks, self.nphases, self.tag = need, nbanks, nphases, tag
        self.errors   = []
        self.is_open  = [False]*nbanks
        self.t_act    = [None]*nbanks   # last ACT per bank
        self.t_wr     = [None]*nbanks   # last WR per bank since the row was opened
        self.t_pre    = [None]*nbanks   # start of the last (explicit / internal) precharge per bank
        self.acts     = []              # last four ACT, any bank
        self.t_cas    = None
        self.t_wr_any = None
        self.t_ref    = None
        self.t_zq     = None
        self.n        = dict(ACT=0, PRE=0, PREA=0, RD=0, WR=0, RDA=0, WRA=0, REF=0, ZQCS=0)
        self.slack    = {}
        self.ref_ref_sys = None         # min REF -> REF distance in controller cycles
        self.prea_per_ref = []          # for each REF: was there a PREA since the previous REF/ZQCS?
        self._prea_seen = False

    def fail(self, T, msg):
        self.errors.append("%s: T=%d (cycle %d phase %d) %s" % (self.tag, T, T//self.nphases, T % self.nphases, msg))

    def spacing(self, T, t0, need, rule):
        if t0 is None or need is None:
            return
        s = (T - t0) - need
        if s < self.slack.get(rule, 1 << 30):
            self.slack[rule] = s
        if s < 0:
            self.fail(T, "%s: %d clocks, datasheet needs %d" % (rule, T - t0, need))

    def command(self, T, kind, bank, a10):
        need = self.need
        self.spacing(T, self.t_ref, need["tRFC"],  "tRFC")
        self.spacing(T, self.t_zq,  need["tZQCS"], "tZQCS")
        if kind == "ACT":
            self.n["ACT"] += 1
            if self.is_open[bank]:
                self.fail(T, "ACT on bank %d which is already open" % bank)
            self.spacing(T, self.t_pre[bank], need["tRP"], "tRP")
            self.spacing(T, self.t_act[bank], need["tRC"], "tRC")
            if self.acts:
                self.spacing(T, self.acts[-1], need["tRRD"], "tRRD")
            if len(self.acts) == 4:
                self.spacing(T, self.acts[0], need["tFAW"], "tFAW")
            self.acts = (self.acts + [T])[-4:]
            self.is_open[bank] = True
            self.t_act[bank]   = T
            self.t_wr[bank]    = None
        elif kind in ("RD", "WR"):
            self.n[kind + ("A" if a10 else "")] += 1
            if not self.is_open[bank]:
                self.fail(T, "%s on bank %d which is closed" % (kind, bank))
            self.spacing(T, self.t_act[bank], need["tRCD"], "tRCD")
            self.spacing(T, self.t_cas,       need["tCCD"], "tCCD")
            if kind == "RD":
                self.spacing(T, self.t_wr_any, need["wr_end"] + need["tWTR"], "tWTR")
            else:
                self.t_wr_any  = T
                self.t_wr[bank] = T
            self.t_cas = T
            if a10:
                # Auto-precharge: the device starts the precharge as soon as tRAS and the write recovery
                # are satisfied (not before the CAS itself).
                start = T
                if self.t_wr[bank] is not None:
                    start = max(start, self.t_wr[bank] + need["wr_end"] + need["tWR"])
                if need["tRAS"] is not None and self.t_act[bank] is not None:
                    start = max(start, self.t_act[bank] + need["tRAS"])
                self.t_pre[bank]   = start
                self.is_open[bank] = False
        elif kind == "PRE":
            self.n["PREA" if a10 else "PRE"] += 1
            if a10:
                self._prea_seen = True
            for b in (range(self.nbanks) if a10 else [bank]):
                if self.is_open[b]:
                    self.spacing(T, self.t_act[b], need["tRAS"], "tRAS")
                    self.spacing(T, self.t_wr[b],  need["wr_end"] + need["tWR"], "tWR")
                    self.is_open[b] = False
                    self.t_pre[b]   = T
                elif self.t_pre[b] is not None and self.t_pre[b] > T:
                    self.fail(T, "precharge of bank %d before its pending auto-precharge could start" % b)
        elif kind in ("REF", "ZQCS"):
            self.n[kind] += 1
            for b in range(self.nbanks):
                if self.is_open[b]:
                    self.fail(T, "%s while bank %d is open" % (kind, b))
                self.spacing(T, self.t_pre[b], need["tRP"], "tRP before " + kind)
            if kind == "REF":
                if self.t_ref is not None:
                    d = (T - self.t_ref)//self.nphases
                    if self.ref_ref_sys is None or d < self.ref_ref_sys:
                        self.ref_ref_sys = d
                self.prea_per_ref.append(self._prea_seen)
                self.t_ref = T
            else:
                self.t_zq = T
            self._prea_seen = False
        else:
            self.fail(T, "unexpected command %s" % kind)


# (cas_n, ras_n, we_n) -> command
COMMANDS = {
    (1, 0, 1): "ACT",
    (1, 0, 0): "PRE",
    (0, 0, 1): "REF",
    (0, 1, 1): "RD",
    (0, 1, 0): "WR",
    (1, 1, 0): "ZQCS",
    (0, 0, 0): "MRS",
}


def sim_phy_settings(memtype, nphases, cl, cwl, rdphase, wrphase):
    return PhySettings(
        phytype       = "SIM",
        memtype       = memtype,
        databits      = 16,
        dfi_databits  = 16 if memtype == "SDR" else 32,
        nphases       = nphases,
        rdphase       = rdphase,
        wrphase       = wrphase,
        cl            = cl,
        cwl           = cwl,
        read_latency  = math.ceil(cl/nphases) + 4,
        write_latency = math.ceil(cwl/nphases))


def run_controller(modname, clk_freq, rate, speedgrade, cl, cwl, rdphase, wrphase, seed, cycles,
        auto_precharge=True, buffered=False, postponing=1, trefi=None, pattern="mixed", zqcs_every=3,
        probe=None):
    """Random traffic on every bank of the real LiteDRAMController, every DFI command checked by BusRules."""
    module  = getattr(M, modname)(clk_freq, rate, speedgrade=speedgrade)
    memtype = module.memtype
    nphases = int(rate.split(":")[1])
    tag = "%s %gMHz %s sg=%s rdphase=%d wrphase=%d ap=%d buf=%d postpone=%d %s seed=%d" % (
        modname, clk_freq/1e6, rate, speedgrade, rdphase, wrphase, auto_precharge, buffered, postponing, pattern, seed)

    timing = module.timing_settings
    # tREFI is a maximum: refreshing (much) more often is always legal and gives many "row opened just
    # before the refresh request" races.
    timing.tREFI = trefi if trefi is not None else 100 + 9*(seed % 6)
    settings = ControllerSettings(
        cmd_buffer_depth    = 4,
        cmd_buffer_buffered = buffered,
        read_time           = 12,
        write_time          = 8,
        with_auto_precharge = auto_precharge,
        refresh_zqcs_freq   = clk_freq/(zqcs_every*postponing*timing.tREFI + 13),
        refresh_postponing  = postponing)
    dut = LiteDRAMController(
        phy_settings        = sim_phy_settings(memtype, nphases, cl, cwl, rdphase, wrphase),
        geom_settings       = module.geom_settings,
        timing_settings     = timing,
        clk_freq            = clk_freq,
        controller_settings = settings)

    bankbits = module.geom_settings.bankbits
    nbanks   = 2**bankbits
    rules    = BusRules(datasheet_clocks(module, nphases, cwl), nbanks, nphases, tag)
    prng     = random.Random(seed)
    ports    = [getattr(dut.interface, "bank%d" % n) for n in range(nbanks)]
    align    = int(math.log2(nphases if memtype == "SDR" else burst_lengths[memtype]))
    colsplit = module.geom_settings.colbits - align

    # One wide signal per cycle instead of many small simulator reads.
    top = Module()
    top.submodules.dut = dut
    readys = Signal(nbanks)
    top.comb += readys.eq(Cat(*[p.ready for p in ports]))
    width = 4 + bankbits + 1
    bus   = Signal(width*nphases)
    top.comb += bus.eq(Cat(*[Cat(ph.cs_n[0], ph.cas_n, ph.ras_n, ph.we_n, ph.bank[:bankbits], ph.address[10])
        for ph in dut.dfi.phases]))
    probe_sig = None
    if probe is not None:
        probe_sig = Signal(32)
        top.comb += probe_sig.eq(probe(top, dut))
    rules.probe_values = []

    def traffic():
        st = [dict(row=0, we=prng.randrange(2), wait=prng.randrange(16), busy=False) for _ in range(nbanks)]
        silence = 0
        for _ in range(cycles):
            if not silence and prng.random() < 0.005:
                silence = prng.randrange(8, 100)
            silence = max(0, silence - 1)
            rdy = (yield readys)
            for n, (p, s) in enumerate(zip(ports, st)):
                if s["busy"]:
                    if not (rdy >> n) & 1:
                        continue
                    s["busy"] = False
                    yield p.valid.eq(0)
                    s["wait"] = 0 if prng.random() < 0.7 else prng.randrange(1, 30)
                if s["wait"]:
                    s["wait"] -= 1
                elif not silence:
                    if pattern == "conflict":      # (nearly) every access to another row
                        s["row"] = prng.randrange(5)
                    elif pattern == "hits":        # long runs on the open row
                        s["row"] = s["row"] if prng.random() < 0.92 else prng.randrange(3)
                    else:
                        s["row"] = s["row"] if prng.random() < 0.6 else prng.randrange(3)
                    if prng.random() < (0.5 if pattern == "turnaround" else 0.2):
                        s["we"] = prng.randrange(2)
                    yield p.addr.eq((s["row"] << colsplit) | prng.randrange(2**colsplit))
                    yield p.we.eq(s["we"])
                    yield p.valid.eq(1)
                    s["busy"] = True
            yield

    @passive
    def monitor():
        cycle = 0
        while True:
            v = (yield bus)
            if probe_sig is not None:
                rules.probe_values.append((yield probe_sig))
            for ph in range(nphases):
                w = (v >> (ph*width)) & (2**width - 1)
                if w & 1:                        # cs_n
                    continue
                key = ((w >> 1) & 1, (w >> 2) & 1, (w >> 3) & 1)
                if key == (1, 1, 1):             # NOP
                    continue
                rules.command(cycle*nphases + ph, COMMANDS[key], (w >> 4) & (nbanks - 1), (w >> (4 + bankbits)) & 1)
            yield
            cycle += 1

    run_simulation(top, [traffic(), monitor()])
    return rules


def _job(cfg):
    r = run_controller(**cfg)
    return dict(tag=r.tag, errors=r.errors, n=r.n, slack=r.slack, ref_ref_sys=r.ref_ref_sys,
        prea_per_ref=r.prea_per_ref, probe_values=getattr(r, "probe_values", []))


def run_many(cfgs, min_activity=True):
    """Runs the configurations in parallel, prints one line per run; returns (number of problems, results)."""
    import multiprocessing
    with multiprocessing.Pool(int(os.environ.get("KEEP_JOBS", "6"))) as pool:
        results = pool.map(_job, cfgs, chunksize=1)
    bad   = 0
    slack = {}
    for r in results:
        for k, v in r["slack"].items():
            slack[k] = min(slack.get(k, v), v)
        print("%-86s %s %s" % (r["tag"], "FAIL" if r["errors"] else "ok  ",
            " ".join("%s=%d" % kv for kv in sorted(r["n"].items()) if kv[1])))
        for e in r["errors"][:8]:
            print("      " + e)
        bad += len(r["errors"])
        n = r["n"]
        if min_activity and (n["ACT"] < 40 or n["RD"] + n["RDA"] < 20 or n["WR"] + n["WRA"] < 20 or n["REF"] < 4):
            print("      not enough activity in this run")
            bad += 1
    print("minimum slack over all runs, in DRAM clocks, per rule:", dict(sorted(slack.items())))
    return bad, results


# Library configurations used for the end-to-end runs: (module, controller clock, rate, speedgrade, cl, cwl)
LIBRARY = [
    ("MT48LC16M16",  100e6, "1:1", None,   2, 2),
    ("IS42S32800J6", 133e6, "1:1", None,   3, 3),
    ("MT46V32M16",   100e6, "1:2", None,   3, 1),
    ("MT47H64M16",   125e6, "1:2", None,   4, 3),
    ("MT41K128M16",  100e6, "1:4", "800",  6, 5),
    ("MT41K256M16",  200e6, "1:4", "1600", 11, 8),
    ("MT41J256M16",  125e6, "1:2", "1066", 5, 5),
    ("MT41K64M16",    50e6, "1:4", "800",  5, 5),
    ("MT40A1G8",     200e6, "1:4", "2400", 11, 9),
    ("MT40A512M16",  150e6, "1:4", "2400", 9, 9),
]

# ==================================================================================================
# keep_3: BankMachine - the tRAS gate no longer has its own count-down, it is a tap (tXXDTap) on the tRC
# count-down started by the same activate: ready when trccon.ready or no more than tRC - tRAS cycles remain.
# ==================================================================================================
#
# Part A: the real tXXDController + tXXDTap against (1) a separate real tXXDController(tRAS) = the original
#   structure and (2) the specification "ready <=> at least tRAS cycles since the last valid", for every
#   1 <= tRAS <= tRC <= 20, with valid streams gated by the tRC ready (as the bank machine does) and ungated
#   (re-triggers while counting). Everything is compared in every cycle by sticky comparators inside the
#   simulated design. The comparators are validated with a deliberately wrong tap (remaining + 1).
# Part B: BankMachine construction: shared count-down used when both timings are given and tRAS <= tRC,
#   separate controller otherwise (tRC or tRAS missing, tRAS > tRC).
# Part C: the real LiteDRAMController, random traffic (bank conflicts: activate -> precharge as early as
#   possible, activate just before a refresh request), every DFI command pair checked against the datasheet
#   in DRAM clocks; in addition an independent tXXDController(tRAS) per bank is started by the bank's
#   activates in the test bench and compared with the bank machine's trascon.ready in every cycle.

from litedram.common import tXXDController, tXXDTap
from litedram.core.bankmachine import BankMachine

class PairCheck(Module):
    def __init__(self, trc, tras, gated, seed, wrong=False):
        self.submodules.c   = c   = tXXDController(trc)
        self.submodules.tap = tap = tXXDTap(c, trc - tras + (1 if wrong else 0))
        self.submodules.ref = ref = tXXDController(tras)
        lfsr  = Signal(16, reset=(seed*2654435761 % 65535) + 1)
        valid = Signal()
        self.sync += lfsr.eq(Cat(lfsr[15] ^ lfsr[13] ^ lfsr[12] ^ lfsr[10], lfsr[:15]))
        # density changes with time: dense bursts and long pauses
        want = Signal()
        self.comb += want.eq((lfsr[0] & lfsr[3]) | (lfsr[5] & lfsr[6] & lfsr[9]))
        self.comb += valid.eq(want & (c.ready if gated else 1))
        self.comb += [c.valid.eq(valid), ref.valid.eq(valid)]
        # specification: cycles since the last valid
        since  = Signal(max=64)
        seen   = Signal()
        self.sync += [
            If(valid, since.eq(1), seen.eq(1)).Elif(since != 63, since.eq(since + 1)),
        ]
        self.err_ref  = Signal()   # sticky: differs from the separate controller
        self.err_spec = Signal()   # sticky: differs from the specification
        self.closed   = Signal()   # sticky: the gate was seen closed
        self.sync += [
            If(seen & (tap.ready != ref.ready), self.err_ref.eq(1)),
            If(seen & (tap.ready != (since >= tras)), self.err_spec.eq(1)),
            If(seen & ~tap.ready, self.closed.eq(1)),
        ]

def _part_a_job(args):
    trcs, wrong = args
    top   = Module()
    pairs = []
    for trc in trcs:
        for tras in range(1, trc + 1):
            for gated in (True, False):
                p = PairCheck(trc, tras, gated, seed=trc*64 + tras*2 + gated, wrong=wrong)
                top.submodules += p
                pairs.append((trc, tras, gated, p))
    out = []
    def gen():
        for _ in range(1500):
            yield
        for trc, tras, gated, p in pairs:
            out.append((trc, tras, gated, (yield p.err_ref), (yield p.err_spec), (yield p.closed)))
    run_simulation(top, [gen()])
    return out

def part_a():
    import multiprocessing
    groups = [[1, 2, 3, 4, 5, 6, 7, 8], [9, 10, 11, 12], [13, 14, 15], [16, 17], [18, 19], [20]]
    with multiprocessing.Pool(6) as pool:
        good  = sum(pool.map(_part_a_job, [(g, False) for g in groups]), [])
        wrong = sum(pool.map(_part_a_job, [([5, 9, 14], True)]), [])
    bad = 0
    for trc, tras, gated, e_ref, e_spec, closed in good:
        if e_ref or e_spec:
            print("tRC=%d tRAS=%d gated=%d: differs from %s" % (trc, tras, gated,
                " and ".join(n for n, e in [("separate controller", e_ref), ("specification", e_spec)] if e)))
            bad += 1
        if tras > 1 and not closed:
            print("tRC=%d tRAS=%d gated=%d: gate never seen closed" % (trc, tras, gated)); bad += 1
    caught = sum(1 for _, tras, _, e_ref, e_spec, _ in wrong if e_ref and e_spec)
    expect = sum(1 for _, tras, _, _, _, _ in wrong if tras > 1)
    if caught < expect:
        print("comparators did not catch the off-by-one tap: %d of %d" % (caught, expect)); bad += 1
    print("part A: %d (tRC, tRAS, gating) combinations, tap == separate controller == specification in every "
          "cycle: %s; off-by-one tap detected in %d/%d" % (len(good), "FAIL" if bad else "ok", caught, expect))
    return bad

def bm_settings(trc, tras):
    class Obj: pass
    s = Obj()
    s.cmd_buffer_depth = 4; s.cmd_buffer_buffered = False; s.with_auto_precharge = True
    s.geom = Obj(); s.geom.addressbits = 13; s.geom.bankbits = 2; s.geom.rowbits = 13; s.geom.colbits = 9
    s.phy = Obj(); s.phy.cwl = 2; s.phy.nphases = 2
    s.timing = Obj()
    s.timing.tRAS = tras; s.timing.tRC = trc; s.timing.tRP = 2; s.timing.tRCD = 2; s.timing.tWR = 2; s.timing.tCCD = 1
    return s

def part_b():
    bad = 0
    for trc, tras, shared in [(9, 6, True), (6, 6, True), (1, 1, True), (16, None, False), (None, 32, False),
                              (None, None, False), (5, 8, False)]:
        bm = BankMachine(0, address_width=22, address_align=3, nranks=1, settings=bm_settings(trc, tras))
        is_shared = isinstance(bm.trascon, tXXDTap)
        if is_shared != shared:
            print("BankMachine tRC=%s tRAS=%s: shared=%s, expected %s" % (trc, tras, is_shared, shared)); bad += 1
        if not is_shared and not isinstance(bm.trascon, tXXDController):
            bad += 1
    print("part B: BankMachine picks the shared / separate tRAS gate as expected: %s" % ("FAIL" if bad else "ok"))
    return bad

def tras_probe(top, dut):
    """bit 0: some bank's trascon.ready differs from an independent controller started by the same activates
       bit 1: some bank machine is being held back by its tRAS gate
       bit 2: the shared count-down is in use"""
    tras = dut.settings.timing.tRAS
    mism, hold = [], []
    shared = 0
    for n, bm in enumerate(b for b in dut._submodules if isinstance(b[1], BankMachine)):
        bm = bm[1]
        if isinstance(bm.trascon, tXXDTap):
            shared = 1
        ref  = tXXDController(tras)
        top.submodules += ref
        seen = Signal()
        top.comb += ref.valid.eq(bm.trccon.valid)
        top.sync += If(bm.trccon.valid, seen.eq(1))
        m = Signal(); h = Signal()
        top.comb += [
            m.eq(seen & (ref.ready != bm.trascon.ready)),
            h.eq(~bm.trascon.ready & (bm.fsm.ongoing("PRECHARGE") | bm.fsm.ongoing("AUTOPRECHARGE") | bm.fsm.ongoing("REFRESH"))),
        ]
        mism.append(m); hold.append(h)
    from functools import reduce
    from operator import or_
    return Cat(reduce(or_, mism), reduce(or_, hold), Constant(shared, 1))

def part_c(quick):
    prng = random.Random(3003)
    cfgs = []
    for i, (mod, f, rate, sg, cl, cwl) in enumerate(LIBRARY):
        if getattr(M, mod)(f, rate, speedgrade=sg).timing_settings.tRAS is None:
            continue        # no tRAS figure in the datasheet entry: nothing is shared
        nph = int(rate[2:])
        cfgs.append(dict(modname=mod, clk_freq=f, rate=rate, speedgrade=sg, cl=cl, cwl=cwl,
            rdphase=prng.randrange(nph), wrphase=prng.randrange(nph), seed=300 + i, cycles=1300 if quick else 2200,
            auto_precharge=bool(i & 1), buffered=bool(i & 2), postponing=1 + (i % 2),
            pattern=["conflict", "mixed", "conflict", "turnaround"][i % 4], probe=tras_probe))
    bad, results = run_many(cfgs)
    held = idle_runs = 0
    for r in results:
        pv = r["probe_values"]
        mm = sum(1 for v in pv if v & 1)
        hh = sum(1 for v in pv if v & 2)
        held += hh
        if mm:
            print("      %s: trascon.ready differs from the independent controller in %d cycles" % (r["tag"], mm)); bad += 1
        if not pv or not (pv[-1] & 4):
            print("      %s: shared count-down not in use" % r["tag"]); bad += 1
        if hh == 0:
            # slow controller clocks: tRAS is over before the first column access is, nothing to hold back
            print("      %s: note: tRAS gate never held anything back in this run" % r["tag"]); idle_runs += 1
        if "tRAS" not in r["slack"]:
            print("      %s: no activate -> precharge seen" % r["tag"]); bad += 1
    if held == 0 or 2*idle_runs > len(results):
        print("      tRAS gate not exercised enough"); bad += 1
    print("part C: %d runs, tRAS gate seen holding a precharge / refresh grant back in %d cycles" % (len(results), held))
    return bad

if __name__ == "__main__":
    quick = "--quick" in sys.argv
    bad = part_a()
    bad += part_b()
    if "--no-sim" not in sys.argv:
        bad += part_c(quick)
    print("FAIL" if bad else "PASS")
    sys.exit(1 if bad else 0)
