#!/usr/bin/env python3
# Check for keep_3 (phy/dfi.py DFIRateConverter: one shared command Serializer per PHY phase).
#
# Part A: the real DFIRateConverter is simulated side by side with a converter built the unmodified
#         way (RefConverter below: one Serializer per command signal, verbatim copy of the original
#         constructor code, using the real Serializer/Deserializer) on the same random traffic, from
#         the very first cycle after reset, for ratios 2/4, 1/2/4 PHY phases, several serdes_reset_cnt
#         and write/read delays; every signal of the PHY interface is compared at every clk edge and
#         the read path at every clkdiv edge.
# Part B: the real DFIRateConverter against an independent model of the C18 property (every command
#         of the slow interface exactly once, in phase order, after Serializer.LATENCY clkdiv cycles;
#         write data in the write_delay sub-cycle; read data of the read_delay sub-cycle), for ratios
#         2 and 4, 1/2/4 PHY phases and every write_delay/read_delay.
# Part C: the generated PHY wrapper still reports the same latencies (ser/des latency attributes).
import os, sys, random
sys.path.insert(0, os.getcwd())

from migen import *
from litedram.phy.utils import Serializer, Deserializer
from litedram.phy.dfi import Interface as DFIInterface, DFIRateConverter, phase_description


def clocks_for(ratio, clkdiv="sys", clk=None):
    clk = clk or "sys{}x".format(ratio)
    return {clkdiv: (4*ratio, 4*ratio//2 - 1), clk: (4, 1)}


# ---------------------------------------------------------------------------------------------
# Converter built exactly like the unmodified DFIRateConverter (reference)
class RefConverter(Module):
    def __init__(self, phy_dfi, *, clkdiv, clk, ratio, serdes_reset_cnt=-1, write_delay=0, read_delay=0):
        phase_params = dict(
            addressbits = len(phy_dfi.p0.address),
            bankbits = len(phy_dfi.p0.bank),
            nranks = len(phy_dfi.p0.cs_n),
            databits = len(phy_dfi.p0.wrdata) // ratio,
        )
        self.dfi = DFIInterface(nphases=ratio * len(phy_dfi.phases), **phase_params)
        wr_delayed = ["wrdata", "wrdata_mask"]
        rd_delayed = ["rddata", "rddata_valid"]
        for name, width, dir in phase_description(**phase_params):
            if name in wr_delayed + rd_delayed:
                continue
            for pi, phase_s in enumerate(phy_dfi.phases):
                sig_s = getattr(phase_s, name)
                assert len(sig_s) == width
                sigs_m = []
                for j in range(ratio):
                    phase_m = self.dfi.phases[pi + len(phy_dfi.phases)*j]
                    sigs_m.append(getattr(phase_m, name))
                self.submodules += Serializer(clkdiv=clkdiv, clk=clk, i_dw=ratio*width, o_dw=width,
                    i=Cat(sigs_m), o=sig_s, reset_cnt=serdes_reset_cnt, name=name)
        for name, width, dir in phase_description(**phase_params):
            if name not in wr_delayed:
                continue
            for pi, phase_s in enumerate(phy_dfi.phases):
                sig_s = getattr(phase_s, name)
                sig_m = Signal(len(sig_s) * ratio)
                sigs_m = []
                for j in range(ratio):
                    phase_m = self.dfi.phases[pi*ratio + j]
                    sigs_m.append(getattr(phase_m, name))
                width = len(Cat(sigs_m))
                self.comb += sig_m[write_delay*width:(write_delay+1)*width].eq(Cat(sigs_m))
                o = Signal.like(sig_s)
                self.submodules += Serializer(clkdiv=clkdiv, clk=clk, i_dw=len(sig_m), o_dw=len(sig_s),
                    i=sig_m, o=o, reset_cnt=serdes_reset_cnt, name=name)
                self.comb += sig_s.eq(o)
        for name, width, dir in phase_description(**phase_params):
            if name not in rd_delayed:
                continue
            for pi, phase_s in enumerate(phy_dfi.phases):
                sig_s = getattr(phase_s, name)
                sig_m = Signal(ratio * len(sig_s))
                sigs_m = []
                for j in range(ratio):
                    phase_m = self.dfi.phases[pi*ratio + j]
                    sigs_m.append(getattr(phase_m, name))
                self.submodules += Deserializer(clkdiv=clkdiv, clk=clk, i_dw=len(sig_s), o_dw=len(sig_m),
                    i=sig_s, o=sig_m, reset_cnt=serdes_reset_cnt, name=name)
                if name == "rddata_valid":
                    self.comb += Cat(sigs_m).eq(Replicate(sig_m[read_delay], ratio))
                else:
                    out_width = len(Cat(sigs_m))
                    self.comb += Cat(sigs_m).eq(sig_m[read_delay*out_width:(read_delay + 1)*out_width])


M2S_ALL = [n for n, w, d in phase_description(1, 1, 1, 8) if n not in ["rddata", "rddata_valid"]]


def side_by_side(ratio, phy_nphases, reset_cnt, write_delay, read_delay, nslow, seed):
    rng = random.Random(seed)
    clk = "sys{}x".format(ratio)
    params = dict(addressbits=6, bankbits=3, nranks=2, databits=8*ratio)

    class Dut(Module):
        def __init__(self):
            self.phy_new = DFIInterface(nphases=phy_nphases, **params)
            self.phy_ref = DFIInterface(nphases=phy_nphases, **params)
            kw = dict(clkdiv="sys", clk=clk, ratio=ratio, serdes_reset_cnt=reset_cnt,
                      write_delay=write_delay, read_delay=read_delay)
            self.submodules.new = DFIRateConverter(self.phy_new, **kw)
            self.submodules.ref = RefConverter(self.phy_ref, **kw)
    dut = Dut()
    errors = []
    cnt = dict(fast=0, slow=0, nonreset=0)

    def slow_gen():
        for k in range(nslow):
            idle = rng.choice([0.0, 0.5, 0.9])
            for pn, pr in zip(dut.new.dfi.phases, dut.ref.dfi.phases):
                for name in ["rddata", "rddata_valid"]:
                    a, b = (yield getattr(pn, name)), (yield getattr(pr, name))
                    cnt["slow"] += 1
                    if a != b:
                        errors.append(("slow", k, name, a, b))
                for name in M2S_ALL:
                    sn, sr = getattr(pn, name), getattr(pr, name)
                    v = sn.reset.value if rng.random() < idle else rng.getrandbits(len(sn))
                    yield sn.eq(v)
                    yield sr.eq(v)
            yield

    def fast_gen():
        for n in range(nslow*ratio):
            for pn, pr in zip(dut.phy_new.phases, dut.phy_ref.phases):
                for name in M2S_ALL:
                    a, b = (yield getattr(pn, name)), (yield getattr(pr, name))
                    cnt["fast"] += 1
                    cnt["nonreset"] += int(a != getattr(pn, name).reset.value)
                    if a != b:
                        errors.append(("fast", n, name, a, b))
                for name in ["rddata", "rddata_valid"]:
                    sn, sr = getattr(pn, name), getattr(pr, name)
                    v = rng.getrandbits(len(sn))
                    yield sn.eq(v)
                    yield sr.eq(v)
            yield

    run_simulation(dut, {"sys": [slow_gen()], clk: [fast_gen()]}, clocks=clocks_for(ratio))
    assert not errors, "differs from the unmodified converter: ratio={} nph={} reset_cnt={} wd={} rd={}: {}".format(
        ratio, phy_nphases, reset_cnt, write_delay, read_delay, errors[:4])
    assert cnt["nonreset"] > cnt["fast"] // 10, "stimulus too weak"
    return cnt["fast"] + cnt["slow"]


def part_a():
    n = tot = 0
    for ratio in [2, 4]:
        for phy_nphases in [1, 2, 4]:
            for reset_cnt in [-1, 0, 1] + ([2, -2] if ratio == 4 else []):
                for wd, rd in [(0, 0), (ratio - 1, 1), (1, ratio - 1)]:
                    tot += side_by_side(ratio, phy_nphases, reset_cnt, wd, rd, nslow=30, seed=1000 + n)
                    n += 1
    print("part A: {} configurations identical to the unmodified converter ({} comparisons)".format(n, tot))


# ---------------------------------------------------------------------------------------------
CMD  = [n for n, w, d in phase_description(1, 1, 1, 8) if n not in ["wrdata", "wrdata_mask", "rddata", "rddata_valid"]]
assert "wrdata_en" in CMD and "rddata_en" in CMD and "address" in CMD and len(CMD) == 12


def check_converter(ratio, phy_nphases, write_delay, read_delay, nslow, seed, addressbits=7, bankbits=3, nranks=2, phy_databits=16):
    rng = random.Random(seed)
    clk = "sys{}x".format(ratio)

    class Dut(Module):
        def __init__(self):
            self.dfi_phy = DFIInterface(addressbits, bankbits, nranks, phy_databits, nphases=phy_nphases)
            self.submodules.converter = DFIRateConverter(self.dfi_phy, clkdiv="sys", clk=clk, ratio=ratio,
                write_delay=write_delay, read_delay=read_delay)
            self.dfi = self.converter.dfi
    dut = Dut()
    assert len(dut.dfi.phases) == ratio*phy_nphases
    sdb = phy_databits // ratio
    assert len(dut.dfi.p0.wrdata) == sdb

    def rnd(sig, idle):
        n = len(sig)
        if rng.random() < idle:
            return sig.reset.value
        return rng.getrandbits(n)

    slow_in  = []   # slow_in[k][phase][name]    driven at clkdiv edge k
    slow_out = []   # slow_out[k][phase][name]   sampled at clkdiv edge k (value before the edge)
    phy_in   = []   # phy_in[n][phase][name]     driven at clk edge n
    phy_out  = []   # phy_out[n][phase][name]    sampled at clk edge n (value before the edge)

    def slow_gen():
        for k in range(nslow):
            idle = rng.choice([0.0, 0.5, 0.9])
            smp, drv = [], []
            for ph in dut.dfi.phases:
                got = {}
                for name in ["rddata", "rddata_valid"]:
                    got[name] = (yield getattr(ph, name))
                smp.append(got)
                vals = {}
                for name in CMD + ["wrdata", "wrdata_mask"]:
                    sig = getattr(ph, name)
                    vals[name] = rnd(sig, idle)
                    yield sig.eq(vals[name])
                drv.append(vals)
            slow_out.append(smp); slow_in.append(drv)
            yield

    def fast_gen():
        for n in range(nslow*ratio):
            smp, drv = [], []
            for ph in dut.dfi_phy.phases:
                got = {}
                for name in CMD + ["wrdata", "wrdata_mask"]:
                    got[name] = (yield getattr(ph, name))
                smp.append(got)
                vals = {}
                for name in ["rddata", "rddata_valid"]:
                    sig = getattr(ph, name)
                    vals[name] = rng.getrandbits(len(sig))
                    yield sig.eq(vals[name])
                drv.append(vals)
            phy_out.append(smp); phy_in.append(drv)
            yield

    run_simulation(dut, {"sys": [slow_gen()], clk: [fast_gen()]}, clocks=clocks_for(ratio))

    SER, DES = Serializer.LATENCY, Deserializer.LATENCY
    assert (SER, DES) == (1, 2)
    ncmd = nwr = nrd = 0
    # commands / enables: slow phase (pi + phy_nphases*j) of clkdiv cycle k -> PHY phase pi, sub-cycle j of clkdiv cycle k+SER
    # (a value driven at clk edge e is on the wire during [e, e+1) and sampled at edge e+1)
    for k in range(1, nslow - SER - 1):
        for j in range(ratio):
            e = ratio*(k + SER) + j + 1
            for pi in range(phy_nphases):
                for name in CMD:
                    exp = slow_in[k][pi + phy_nphases*j][name]
                    got = phy_out[e][pi][name]
                    assert got == exp, "ratio={} nph={} cmd {} k={} j={} pi={}: {:#x} != {:#x}".format(ratio, phy_nphases, name, k, j, pi, got, exp)
                    ncmd += 1
                # write data: whole burst of PHY phase pi in sub-cycle write_delay, nothing elsewhere
                for name, w in [("wrdata", sdb), ("wrdata_mask", sdb//8)]:
                    exp = 0
                    if j == write_delay:
                        for jj in range(ratio):
                            exp |= slow_in[k][pi*ratio + jj][name] << (jj*w)
                    got = phy_out[e][pi][name]
                    assert got == exp, "ratio={} nph={} wd={} {} k={} j={} pi={}: {:#x} != {:#x}".format(ratio, phy_nphases, write_delay, name, k, j, pi, got, exp)
                    nwr += 1
    # read data: PHY sample of sub-cycle read_delay of clkdiv cycle K is presented DES clkdiv cycles later
    for k in range(DES + 3, nslow):
        K = (k - 1) - DES          # value sampled at edge k was presented after edge k-1
        src = phy_in[ratio*K + read_delay]
        for pi in range(phy_nphases):
            for jj in range(ratio):
                got = slow_out[k][pi*ratio + jj]
                exp_d = (src[pi]["rddata"] >> (jj*sdb)) & ((1 << sdb) - 1)
                assert got["rddata"] == exp_d, "ratio={} nph={} rd={} rddata k={} pi={} jj={}: {:#x} != {:#x}".format(ratio, phy_nphases, read_delay, k, pi, jj, got["rddata"], exp_d)
                assert got["rddata_valid"] == src[pi]["rddata_valid"], "rddata_valid k={} pi={} jj={}".format(k, pi, jj)
                nrd += 1
    return ncmd, nwr, nrd


def part_b():
    tot = [0, 0, 0]
    seed = 177
    for ratio in [2, 4]:
        for phy_nphases in [1, 2, 4]:
            for write_delay in range(ratio):
                for read_delay in range(ratio):
                    seed += 1
                    r = check_converter(ratio, phy_nphases, write_delay, read_delay, nslow=40, seed=seed,
                                        phy_databits=8*ratio*(1 + seed % 2))
                    tot = [a + b for a, b in zip(tot, r)]
    print("part B: rate converter model OK ({} command, {} write-data, {} read-data comparisons)".format(*tot))


def part_c():
    phy = DFIInterface(8, 3, 1, 32, nphases=2)
    conv = DFIRateConverter(phy, clkdiv="sys", clk="sys2x", ratio=2)
    assert conv.ser_latency == Serializer.LATENCY == 1
    assert conv.des_latency == Deserializer.LATENCY == 2
    assert len(conv.dfi.phases) == 4 and len(conv.dfi.p0.wrdata) == 16
    print("part C: latency attributes unchanged")


if __name__ == "__main__":
    part_a()
    part_b()
    part_c()
    print("keep_3: OK")
