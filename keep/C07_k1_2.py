# ---- common harness: byte-accurate model + randomised master / controller-side stub ----------------
import os, sys, random
sys.path.insert(0, os.getcwd())

from migen import *
from litedram.common import LiteDRAMNativePort


class Op:
    def __init__(self, we, addr, data=0, be=0, last=0, gap=0, early=False):
        self.we, self.addr, self.data, self.be = we, addr, data, be
        self.last, self.gap, self.early = last, gap, early
        self.offered = False


def user_byte_addrs(a, wu, wn, reverse):
    """Byte addresses (in the controller-side memory) of the wu bytes of user word a."""
    if wu < wn:      # up-conversion: user narrower
        ratio = wn//wu
        c     = a % ratio
        pos   = ratio - 1 - c if reverse else c
        base  = (a//ratio)*wn + pos*wu
        return [base + j for j in range(wu)]
    elif wu > wn:    # down-conversion: user wider
        ratio = wu//wn
        res = []
        for n in range(ratio):
            pos = ratio - 1 - n if reverse else n
            res += [(a*ratio + pos)*wn + j for j in range(wn)]
        return res
    else:
        return [a*wn + j for j in range(wn)]


def gen_ops(rng, n, mode, nwords_user, wu, style):
    """Command sequence; address order selected by `style`."""
    ops  = []
    addr = rng.randrange(nwords_user)
    for k in range(n):
        if style == "asc":
            addr = (addr + 1) % nwords_user
        elif style == "desc":
            addr = (addr - 1) % nwords_user
        elif style == "rep":
            if rng.random() < 0.3:
                addr = rng.randrange(nwords_user)
        elif style == "local":   # random walk inside a few wide words
            addr = (addr + rng.choice([-3, -2, -1, -1, 0, 0, 1, 1, 2, 3])) % nwords_user
        else:
            addr = rng.randrange(nwords_user)
        if mode == "both":
            if style in ("asc", "desc") and k and rng.random() < 0.8:
                we = ops[-1].we
            else:
                we = rng.random() < 0.5
        else:
            we = mode == "write"
        be = rng.choice([2**wu - 1, 2**wu - 1, rng.getrandbits(wu), rng.getrandbits(wu), 0])
        ops.append(Op(
            we    = int(we),
            addr  = addr,
            data  = rng.getrandbits(8*wu),
            be    = be,
            last  = int(rng.random() < 0.15),
            gap   = rng.choice([0, 0, 0, 0, 1, 2, 5]) if rng.random() < 0.7 else rng.randrange(12),
            early = rng.random() < 0.3))
    return ops


class Bench:
    def __init__(self, dut, port_from, port_to, ops, rng, reverse=False, blind=True,
                 p_cmd=0.7, p_w=0.7, p_r=0.7, wlat=2, rlat=2, p_flush=0.05, depth=8, timeout=None):
        self.dut, self.pf, self.pt = dut, port_from, port_to
        self.ops, self.rng, self.reverse, self.blind = ops, rng, reverse, blind
        self.p_cmd, self.p_w, self.p_r, self.wlat, self.rlat, self.p_flush = p_cmd, p_w, p_r, wlat, rlat, p_flush
        self.mode = port_from.mode
        self.wu, self.wn = port_from.data_width//8, port_to.data_width//8
        self.depth = depth                        # controller-side words
        init = [rng.getrandbits(8) for _ in range(depth*self.wn)]
        self.model = bytearray(init)              # reference
        self.mem   = bytearray(init)              # what the controller-side stub holds
        self.errors = []
        self.rdata  = []
        self.expected_rdata = []
        self.master_done = False
        self.slave_idle  = True
        self.ctrl_cmds = []
        self.extra = []
        self.timeout = timeout or (400 + 60*len(ops)*max(1, self.wu//self.wn))
        # Reference result, commands applied in issue order.
        for op in ops:
            ba = user_byte_addrs(op.addr, self.wu, self.wn, reverse)
            if op.we:
                for j, b in enumerate(ba):
                    if (op.be >> j) & 1:
                        self.model[b] = (op.data >> (8*j)) & 0xff
            else:
                self.expected_rdata.append(sum(self.model[b] << (8*j) for j, b in enumerate(ba)))

    # User side: holds commands until accepted, offers write data no later than the command and holds
    # it, always accepts read data.
    def master(self):
        p, ops, rng = self.pf, self.ops, self.rng
        i, gap = 0, 0
        cmd_on = wd_on = False
        if self.mode in ["read", "both"]:
            yield p.rdata.ready.eq(1)
        yield
        while True:
            if cmd_on and (yield p.cmd.ready):
                cmd_on = False
                yield p.cmd.valid.eq(0)
                gap = ops[i].gap
                i  += 1
            if wd_on and (yield p.wdata.ready):
                wd_on = False
                yield p.wdata.valid.eq(0)
            if self.mode in ["read", "both"] and (yield p.rdata.valid):
                self.rdata.append((yield p.rdata.data))
            if not cmd_on and i < len(ops):
                op = ops[i]
                if op.we and not op.offered and not wd_on and (op.early or gap == 0):
                    op.offered = wd_on = True
                    yield p.wdata.valid.eq(1)
                    yield p.wdata.data.eq(op.data)
                    yield p.wdata.we.eq(op.be)
                if gap > 0:
                    gap -= 1
                elif (not op.we) or op.offered:
                    cmd_on = True
                    yield p.cmd.valid.eq(1)
                    yield p.cmd.we.eq(op.we)
                    yield p.cmd.addr.eq(op.addr)
                    yield p.cmd.last.eq(op.last)
            if i >= len(ops) and not cmd_on:
                yield p.flush.eq(1)    # let the converter drain what it still holds
                self.master_done = not wd_on
            else:
                yield p.flush.eq(int(rng.random() < self.p_flush))
            yield

    # Controller side: accepts commands at random, executes them in order; write data is fetched with a
    # `wdata.ready` pulse some cycles after the command (blind: as the crossbar does, without looking at
    # valid), read data comes back as single-cycle `rdata.valid` pulses without back-pressure.
    def slave(self):
        p, rng, wn = self.pt, self.rng, self.wn
        pend, rret, t = [], [], 0
        while True:
            if (yield p.cmd.valid) and (yield p.cmd.ready):
                pend.append(((yield p.cmd.we), (yield p.cmd.addr), t))
                self.ctrl_cmds.append(pend[-1][:2])
            if self.mode in ["write", "both"] and (yield p.wdata.ready):
                if (yield p.wdata.valid):
                    assert pend and pend[0][0]
                    _, addr, _ = pend.pop(0)
                    data, we = (yield p.wdata.data), (yield p.wdata.we)
                    for j in range(wn):
                        if (we >> j) & 1:
                            self.mem[(addr % self.depth)*wn + j] = (data >> (8*j)) & 0xff
                    if addr >= self.depth:
                        self.errors.append("write outside memory: 0x%x" % addr)
                elif self.blind:
                    self.errors.append("t=%d: controller fetched write data but none was offered" % t)
                    if pend and pend[0][0]:
                        pend.pop(0)
            if self.mode in ["read", "both"] and (yield p.rdata.valid) and not (yield p.rdata.ready):
                self.errors.append("t=%d: read data beat dropped" % t)
            while pend and not pend[0][0]:
                _, addr, _ = pend.pop(0)
                if addr >= self.depth:
                    self.errors.append("read outside memory: 0x%x" % addr)
                base = (addr % self.depth)*wn
                rret.append((sum(self.mem[base + j] << (8*j) for j in range(wn)), t + self.rlat))
            yield p.cmd.ready.eq(int(rng.random() < self.p_cmd))
            if self.mode in ["write", "both"]:
                go = bool(pend) and pend[0][0] and (t + 1 >= pend[0][2] + self.wlat) and rng.random() < self.p_w
                yield p.wdata.ready.eq(int(go))
            if self.mode in ["read", "both"]:
                if rret and t + 1 >= rret[0][1] and rng.random() < self.p_r:
                    yield p.rdata.valid.eq(1)
                    yield p.rdata.data.eq(rret.pop(0)[0])
                else:
                    yield p.rdata.valid.eq(0)
                    yield p.rdata.data.eq(rng.getrandbits(8*wn))
            self.slave_idle = not pend and not rret
            t += 1
            yield

    def control(self):
        t = quiet = 0
        need = 40 + 4*max(self.wu//self.wn, self.wn//self.wu)
        while quiet < need:     # finished and nothing spurious coming afterwards
            t += 1
            if t > self.timeout:
                self.errors.append("timeout: stuck after %d cycles (%d/%d read words returned)" % (
                    t, len(self.rdata), len(self.expected_rdata)))
                return
            if (self.master_done and self.slave_idle and len(self.rdata) >= len(self.expected_rdata)
                and not (yield self.pt.cmd.valid)):
                quiet += 1
            else:
                quiet = 0
            yield

    def run(self):
        @passive
        def m(): yield from self.master()
        @passive
        def s(): yield from self.slave()
        run_simulation(self.dut, [self.control(), m(), s()] + self.extra)
        if not self.slave_idle:
            self.errors.append("controller side still has pending commands at the end")
        if self.rdata != self.expected_rdata:
            self.errors.append("read data mismatch: got %d words, expected %d; first difference at #%s" % (
                len(self.rdata), len(self.expected_rdata),
                next((k for k, (a, b) in enumerate(zip(self.rdata, self.expected_rdata)) if a != b), "-")))
        if self.mem != self.model:
            bad = [k for k in range(len(self.mem)) if self.mem[k] != self.model[k]]
            self.errors.append("memory mismatch at bytes %s" % bad[:8])
        return self.errors

# ---- keep_2: up-converter with binary chunk counters instead of one-hot shift registers -------------
import itertools, time
from multiprocessing import Pool
from litex.soc.interconnect import stream
from litedram.common import *
from litedram.frontend.adapter import LiteDRAMNativePortConverter, LiteDRAMNativePortUpConverter


class RefUpConverter(Module):
    """Verbatim copy of the unmodified LiteDRAMNativePortUpConverter (one-hot chunk shift registers)."""
    def __init__(self, port_from, port_to, reverse=False):
        assert port_from.clock_domain == port_to.clock_domain
        assert port_from.data_width    < port_to.data_width
        assert port_from.mode         == port_to.mode
        if port_to.data_width % port_from.data_width:
            raise ValueError("Ratio must be an int")

        # # #

        ratio = port_to.data_width//port_from.data_width
        mode  = port_from.mode

        # Command ----------------------------------------------------------------------------------

        # Defines cmd type and the chunks that have been requested for the current port_to command.
        sel              = Signal(ratio)
        cmd_buffer       = stream.SyncFIFO([("sel", ratio), ("we", 1)], 0)
        self.submodules += cmd_buffer
        # Store last received command.
        cmd_addr         = Signal.like(port_from.cmd.addr)
        cmd_we           = Signal()
        cmd_last         = Signal()
        # Indicates that we need to proceed to the next port_to command.
        next_cmd         = Signal()
        addr_changed     = Signal()
        # Signals that indicate that write/read convertion has finished.
        wdata_finished   = Signal()
        rdata_finished   = Signal()
        # Used to prevent reading old memory value if previous command has written the same address.
        read_lock        = Signal()
        read_unlocked    = Signal()
        rw_collision     = Signal()

        # Different order depending on read/write:
        # - read:  new -> cmd -> fill -> commit -> new
        # - write: new -> fill -> commit -> cmd -> new
        # For writes we have to send the command at the end to prevent situations when, during
        # a burst, LiteDRAM expects data (wdata_ready=1) but write converter is still converting.
        self.submodules.fsm = fsm = FSM()
        fsm.act("NEW",
            port_from.cmd.ready.eq(port_from.cmd.valid & ~read_lock),
            If(port_from.cmd.ready,
                NextValue(cmd_addr, port_from.cmd.addr),
                NextValue(cmd_we, port_from.cmd.we),
                NextValue(cmd_last, port_from.cmd.last),
                NextValue(sel, 1 << port_from.cmd.addr[:log2_int(ratio)]),
                If(port_from.cmd.we,
                    NextState("FILL"),
                ).Else(
                    NextState("CMD"),
                )
            )
        )
        fsm.act("CMD",
            port_to.cmd.valid.eq(1),
            port_to.cmd.we.eq(cmd_we),
            port_to.cmd.addr.eq(cmd_addr[log2_int(ratio):]),
            If(port_to.cmd.ready,
                If(cmd_we,
                    NextState("NEW")
                ).Else(
                    NextState("FILL")
                )
            )
        )
        fsm.act("FILL",
            If(next_cmd,
                NextState("COMMIT")
            ).Else(  # Acknowledge incomming commands, while filling `sel`.
                port_from.cmd.ready.eq(port_from.cmd.valid),
                NextValue(cmd_last, port_from.cmd.last),
                If(port_from.cmd.valid,
                    NextValue(sel, sel | 1 << port_from.cmd.addr[:log2_int(ratio)])
                )
            )
        )
        fsm.act("COMMIT",
            cmd_buffer.sink.valid.eq(1),
            cmd_buffer.sink.sel.eq(sel),
            cmd_buffer.sink.we.eq(cmd_we),
            If(cmd_buffer.sink.ready,
                If(cmd_we,
                    NextState("CMD")
                ).Else(
                    NextState("NEW")
                )
            )
        )

        self.comb += [
            cmd_buffer.source.ready.eq(wdata_finished | rdata_finished),
            addr_changed.eq(cmd_addr[log2_int(ratio):] != port_from.cmd.addr[log2_int(ratio):]),
            # Collision happens on write to read transition when address does not change.
            rw_collision.eq(cmd_we & (port_from.cmd.valid & ~port_from.cmd.we) & ~addr_changed),
            # Go to the next command if one of the following happens:
            #  - port_to address changes.
            #  - cmd type changes.
            #  - we received all the `ratio` commands.
            #  - this is the last command in a sequence.
            #  - master requests a flush (even after the command has been sent).
            # Data chunks are handled in ascending order: only merge commands targeting a chunk above
            # all the chunks already selected.
            next_cmd.eq(addr_changed | (cmd_we != port_from.cmd.we) | (sel == 2**ratio - 1)
                        | cmd_last | port_from.flush
                        | (port_from.cmd.valid & ((sel >> port_from.cmd.addr[:log2_int(ratio)]) != 0))),
        ]

        self.sync += [
            # Block sending read command if we have just written to that address
            If(wdata_finished,
                read_lock.eq(0),
                read_unlocked.eq(1),
            ).Elif(rw_collision & ~port_to.cmd.valid & ~read_unlocked,
                read_lock.eq(1)
            ),
            If(port_from.cmd.valid & port_from.cmd.ready,
                read_unlocked.eq(0)
            )
        ]

        # Read Datapath ----------------------------------------------------------------------------

        if mode in ["read", "both"]:
            # Queue received data not to loose it when it comes too fast.
            rdata_fifo = stream.SyncFIFO(port_to.rdata.description, ratio - 1)
            rdata_converter = stream.StrideConverter(
                description_from = port_to.rdata.description,
                description_to   = port_from.rdata.description,
                reverse          = reverse)
            self.submodules +=  rdata_fifo, rdata_converter

            # Shift register with a bitmask of current chunk.
            rdata_chunk       = Signal(ratio, reset=1)
            rdata_chunk_valid = Signal()
            self.sync += \
                If(rdata_converter.source.valid &
                   rdata_converter.source.ready,
                    rdata_chunk.eq(Cat(rdata_chunk[ratio-1], rdata_chunk[:ratio-1]))
                )

            self.comb += [
                # port_to -> rdata_fifo -> rdata_converter -> port_from
                port_to.rdata.connect(rdata_fifo.sink),
                rdata_fifo.source.connect(rdata_converter.sink),
                rdata_chunk_valid.eq((cmd_buffer.source.sel & rdata_chunk) != 0),
                If(cmd_buffer.source.valid & ~cmd_buffer.source.we,
                   # If that chunk is valid we send it to the user port and wait for ready.
                    If(rdata_chunk_valid,
                        port_from.rdata.valid.eq(rdata_converter.source.valid),
                        port_from.rdata.data.eq(rdata_converter.source.data),
                        rdata_converter.source.ready.eq(port_from.rdata.ready)
                    ).Else(  # If this chunk was not requested in `sel`, ignore it.
                        rdata_converter.source.ready.eq(1)
                    ),
                    rdata_finished.eq(rdata_converter.source.valid & rdata_converter.source.ready
                                      & rdata_chunk[ratio - 1])
                ),
            ]

        # Write Datapath ---------------------------------------------------------------------------

        if mode in ["write", "both"]:
            # Queue write data not to miss it when the lower chunks haven't been reqested.
            wdata_fifo    = stream.SyncFIFO(port_from.wdata.description, ratio - 1)
            wdata_buffer  = stream.SyncFIFO(port_to.wdata.description, 1)
            wdata_converter = stream.StrideConverter(
                description_from = port_from.wdata.description,
                description_to   = port_to.wdata.description,
                reverse          = reverse)
            self.submodules += wdata_converter, wdata_fifo, wdata_buffer

            # Shift register with a bitmask of current chunk.
            wdata_chunk       = Signal(ratio, reset=1)
            wdata_chunk_valid = Signal()
            self.sync += \
                If(wdata_converter.sink.valid & wdata_converter.sink.ready,
                    wdata_chunk.eq(Cat(wdata_chunk[ratio-1], wdata_chunk[:ratio-1]))
                )

            # Replicate `sel` bits to match the width of port_to.wdata.we.
            wdata_sel = Signal.like(port_to.wdata.we)
            if reverse:
                wdata_sel_parts = [
                    Replicate(cmd_buffer.source.sel[i], port_to.wdata.we.nbits // sel.nbits)
                    for i in reversed(range(ratio))
                ]
            else:
                wdata_sel_parts = [
                    Replicate(cmd_buffer.source.sel[i], port_to.wdata.we.nbits // sel.nbits)
                    for i in range(ratio)
                ]

            self.sync += \
                If(cmd_buffer.source.valid & cmd_buffer.source.we & wdata_chunk[ratio - 1],
                    wdata_sel.eq(Cat(wdata_sel_parts))
                )

            self.comb += [
                # port_from -> wdata_fifo -> wdata_converter
                port_from.wdata.connect(wdata_fifo.sink),
                wdata_buffer.source.connect(port_to.wdata),
                wdata_chunk_valid.eq((cmd_buffer.source.sel & wdata_chunk) != 0),
                If(cmd_buffer.source.valid & cmd_buffer.source.we,
                    # When the current chunk is valid, read it from wdata_fifo.
                    If(wdata_chunk_valid,
                        wdata_converter.sink.valid.eq(wdata_fifo.source.valid),
                        wdata_converter.sink.data.eq(wdata_fifo.source.data),
                        wdata_converter.sink.we.eq(wdata_fifo.source.we),
                        wdata_fifo.source.ready.eq(wdata_converter.sink.ready),
                    ).Else(  # If chunk is not valid, send any data and do not advance fifo.
                        wdata_converter.sink.valid.eq(1),
                    ),
                ),
                wdata_buffer.sink.valid.eq(wdata_converter.source.valid),
                wdata_buffer.sink.data.eq(wdata_converter.source.data),
                wdata_buffer.sink.we.eq(wdata_converter.source.we & wdata_sel),
                wdata_converter.source.ready.eq(wdata_buffer.sink.ready),
                wdata_finished.eq(wdata_converter.sink.valid & wdata_converter.sink.ready
                                  & wdata_chunk[ratio-1]),
            ]



class DUT(Module):
    """Converter under test, plus the reference converter fed with exactly the same inputs."""
    def __init__(self, mode, wu, wn, reverse):
        self.pf  = LiteDRAMNativePort(mode, 32, wu)
        self.pt  = LiteDRAMNativePort(mode, 32, wn)
        self.rpf = LiteDRAMNativePort(mode, 32, wu)
        self.rpt = LiteDRAMNativePort(mode, 32, wn)
        self.submodules.conv = LiteDRAMNativePortConverter(self.pf, self.pt, reverse)
        assert isinstance(self.conv.converter, LiteDRAMNativePortUpConverter)
        self.submodules.ref  = RefUpConverter(self.rpf, self.rpt, reverse)
        pf, pt, rpf, rpt = self.pf, self.pt, self.rpf, self.rpt
        self.comb += [
            rpf.cmd.valid.eq(pf.cmd.valid), rpf.cmd.we.eq(pf.cmd.we), rpf.cmd.addr.eq(pf.cmd.addr),
            rpf.cmd.last.eq(pf.cmd.last), rpf.cmd.first.eq(pf.cmd.first), rpf.flush.eq(pf.flush),
            rpf.wdata.valid.eq(pf.wdata.valid), rpf.wdata.data.eq(pf.wdata.data), rpf.wdata.we.eq(pf.wdata.we),
            rpf.rdata.ready.eq(pf.rdata.ready),
            rpt.cmd.ready.eq(pt.cmd.ready), rpt.wdata.ready.eq(pt.wdata.ready),
            rpt.rdata.valid.eq(pt.rdata.valid), rpt.rdata.data.eq(pt.rdata.data),
        ]
        # Everything the converter drives.
        self.outputs = [(a, b) for a, b in [
            (pf.cmd.ready, rpf.cmd.ready), (pf.wdata.ready, rpf.wdata.ready),
            (pf.rdata.valid, rpf.rdata.valid), (pf.rdata.data, rpf.rdata.data),
            (pt.cmd.valid, rpt.cmd.valid), (pt.cmd.we, rpt.cmd.we), (pt.cmd.addr, rpt.cmd.addr),
            (pt.wdata.valid, rpt.wdata.valid), (pt.wdata.data, rpt.wdata.data), (pt.wdata.we, rpt.wdata.we),
            (pt.rdata.ready, rpt.rdata.ready)]]


def traffic(args):
    wu, wn, mode, style, reverse, seed = args
    rng   = random.Random(repr(args))
    ratio = wn//wu
    depth = 4
    kw = dict(blind=rng.random() < 0.7, p_cmd=rng.choice([1.0, 0.7, 0.3]), p_w=rng.choice([1.0, 0.7, 0.3]),
              p_r=rng.choice([1.0, 0.7, 0.3]), wlat=rng.choice([1, 2, 4]), rlat=rng.choice([1, 2, 6]),
              p_flush=rng.choice([0, 0.05, 0.3]))
    dut = DUT(mode, wu, wn, reverse)
    ops = gen_ops(rng, 48, mode, depth*wn//wu, wu//8, style)
    b   = Bench(dut, dut.pf, dut.pt, ops, rng, reverse=reverse, depth=depth, **kw)
    diffs = []
    @passive
    def lockstep():
        t = 0
        while True:
            for a, r in dut.outputs:
                va, vr = (yield a), (yield r)
                if va != vr and len(diffs) < 3:
                    diffs.append("t=%d: output differs from the unmodified converter (%d bits: 0x%x != 0x%x)" % (
                        t, len(a), va, vr))
            t += 1
            yield
    b.extra = [lockstep()]
    errs = b.run() + diffs
    return args, kw, errs


if __name__ == "__main__":
    t0 = time.time()
    nseeds = int(sys.argv[1]) if len(sys.argv) > 1 else 1
    full   = [(8, 16), (8, 32), (16, 64)]
    wide   = [(16, 32), (8, 64), (8, 128), (8, 256)]
    jobs   = [(wu, wn, mode, style, reverse, seed)
        for (wu, wn), mode, style, reverse, seed in itertools.product(
            full, ["both", "write", "read"], ["asc", "desc", "rep", "local", "rand"], [False, True], range(nseeds))]
    jobs  += [(wu, wn, mode, style, (k + len(style)) % 2 == 1, seed)
        for k, ((wu, wn), mode, style, seed) in enumerate(itertools.product(
            wide, ["both", "write", "read"], ["desc", "local", "rand"], range(nseeds)))]
    nfail = 0
    with Pool(int(os.environ.get("JOBS", "4"))) as pool:
        for args, kw, errs in pool.imap_unordered(traffic, jobs, chunksize=4):
            if errs:
                nfail += 1
                print("FAIL", args, kw, errs[:3])
    print("%d runs, %d failed, %.0f s" % (len(jobs), nfail, time.time() - t0))
    sys.exit(1 if nfail else 0)
