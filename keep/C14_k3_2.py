import os, sys, random
sys.path.insert(0, os.getcwd())
from math import ceil
from migen import *
from litedram.common import LiteDRAMNativeWritePort, LiteDRAMNativeReadPort
from litedram.frontend.bist import _LiteDRAMBISTGenerator, _LiteDRAMBISTChecker
from test.common import DRAMMemory

def lfsr31_step(state):
    cur = [(state >> i) & 1 for i in range(31)]
    for _ in range(31):
        cur.insert(0, 1 ^ cur[27] ^ cur[30]); cur.pop()
    return sum(b << i for i, b in enumerate(cur))

def seq(n, rnd):
    out, st = [], 0
    for i in range(n):
        if rnd:
            st = lfsr31_step(st); out.append(st)
        else:
            out.append(i)
    return out

def run(m, cfg):
    yield m.reset.eq(1); yield; yield m.reset.eq(0); yield
    for k, v in cfg.items():
        yield getattr(m, k).eq(v)
    yield m.start.eq(1); yield; yield m.start.eq(0); yield
    t = 0
    while not (yield m.done):
        yield; t += 1
        assert t < 20000
    e = (yield m.errors) if hasattr(m, "errors") else None
    for _ in range(3):
        yield
        assert (yield m.done)
        if e is not None: assert (yield m.errors) == e
    return e

def sim(dw, seed, ncases, rv):
    prng = random.Random(seed)
    ashift = log2_int(dw//8)
    depth = 64
    class DUT(Module):
        def __init__(self):
            self.wp = LiteDRAMNativeWritePort(address_width=32, data_width=dw)
            self.rp = LiteDRAMNativeReadPort(address_width=32, data_width=dw)
            self.submodules.g = _LiteDRAMBISTGenerator(self.wp)
            self.submodules.c = _LiteDRAMBISTChecker(self.rp)
    dut = DUT(); mem = DRAMMemory(dw, depth)
    done = []
    def main():
        for _ in range(ncases):
            size = 1 << prng.randrange(1, 6)
            basew = prng.randrange(0, depth - size)
            n = prng.choice([1, 2, size, size + 3, prng.randrange(1, 40)])
            ra, rd = prng.randrange(2), prng.randrange(2)
            cfg = dict(base=basew << ashift, end=(basew << ashift) + size, length=n << ashift,
                       random_addr=ra, random_data=rd)
            yield from run(dut.g, cfg)
            a = [basew + (x & (size - 1)) for x in seq(n, ra)]
            rep = ceil(dw/31)
            w = [sum(x << (31*r) for r in range(rep)) & (2**dw - 1) for x in seq(n, rd)]
            exp_mem = {}
            for x, y in zip(a, w): exp_mem[x] = y
            for x, y in exp_mem.items(): assert mem.mem[x] == y, ("mem", cfg)
            locs = sorted(exp_mem)
            k = min(prng.choice([0, 1, 2, 7, 100]), len(locs))
            for x in prng.sample(locs, k):
                mem.mem[x] ^= 1 << prng.randrange(dw)
            expected = sum(1 for x, y in zip(a, w) if mem.mem[x] != y)
            if len(locs) == n: assert expected == k
            e = yield from run(dut.c, cfg)
            assert e == expected, (e, expected, k, cfg)
            done.append(expected); print("case n=%d uniq=%d k=%d errors=%d" % (n, len(locs), k, e))
    run_simulation(dut, [main(), mem.write_handler(dut.wp, 30), mem.read_handler(dut.rp, rv)])
    assert len(done) == ncases
    return done

if __name__ == "__main__":
    tot = []
    for i, dw in enumerate([8, 32, 64, 128, 32, 16]):
        tot += sim(dw, i, 5, [0, 50, 20][i % 3])
    print(tot)
    assert any(tot)
    print("keep_2 OK", len(tot), "cases, errors seen:", sum(tot))
