"""keep_1 check (multiplexer: _CommandChooser uses a mask + priority-encoder round-robin pointer).

Run from the root of a tree with keep_1.diff applied. Drives the REAL code:
 * the new arbiter against migen's RoundRobin(n, SP_CE) in lockstep (same request / ce every cycle),
   n = 1..9, random stimulus, with full coverage of every (grant, request, ce) triple for n <= 4;
 * the real _CommandChooser against a verbatim copy of the ORIGINAL _CommandChooser in lockstep:
   random bank-machine requests (held until accepted, as the bank machines do), random want_* and
   cmd.ready; every output (cmd.valid, payload, cas/ras/we, every request.ready) equal every cycle,
   and a fairness monitor: a request that stays eligible is accepted after at most n acceptances;
 * full system (crossbar + controller with the real bank machines, refresher, multiplexer) on a
   behavioural DFI DRAM model, 12 adversarial / random scenarios: the complete port-level event trace
   must be IDENTICAL to the trace of the unmodified tree (digests recorded on the unmodified tree);
   latency bounds, read data and DRAM command legality are checked as well.
Exit status 0 = all good.
"""
# ---- shared harness (inlined in every keep_k.py) ---------------------------------------------------
# Full system: real LiteDRAMCrossbar + real LiteDRAMController (BankMachines, Multiplexer, Refresher)
# on top of a behavioural DFI memory model written as a simulation generator.
import os, sys, random, hashlib, math
sys.path.insert(0, os.getcwd())

from migen import *
from migen.sim import run_simulation

from litedram.common import PhySettings, GeomSettings, TimingSettings, burst_lengths
from litedram.core.controller import ControllerSettings, LiteDRAMController
from litedram.core.crossbar import LiteDRAMCrossbar


class System(Module):
    def __init__(self, nports, nphases=2, memtype="DDR2", depth=4, buffered=False, read_time=16,
                 write_time=8, auto_precharge=True, tccd=1, tfaw=None, read_latency=4,
                 write_latency=1, with_refresh=True, bankbits=2, trefi=128):
        rdphase, wrphase = (0, 0) if nphases == 1 else (nphases - 1, nphases - 2)
        phy = PhySettings(phytype="model", memtype=memtype, databits=8, dfi_databits=16,
            nphases=nphases, rdphase=rdphase, wrphase=wrphase, cl=2, cwl=2,
            read_latency=read_latency, write_latency=write_latency)
        geom   = GeomSettings(bankbits=bankbits, rowbits=13, colbits=10)
        timing = TimingSettings(tRP=2, tRCD=2, tWR=2, tWTR=2, tREFI=trefi, tRFC=5, tFAW=tfaw,
            tCCD=tccd, tRRD=2, tRC=6, tRAS=4, tZQCS=None)
        cs = ControllerSettings(cmd_buffer_depth=depth, cmd_buffer_buffered=buffered,
            read_time=read_time, write_time=write_time, with_auto_precharge=auto_precharge,
            with_refresh=with_refresh)
        self.phy, self.geom, self.timing, self.cs = phy, geom, timing, cs
        self.submodules.controller = LiteDRAMController(phy, geom, timing, 100e6, cs)
        self.submodules.crossbar   = LiteDRAMCrossbar(self.controller.interface)
        self.ports   = [self.crossbar.get_port() for _ in range(nports)]
        self.align   = int(math.log2(1 if memtype == "SDR" else burst_lengths[memtype])) \
                       if memtype != "SDR" else int(math.log2(nphases))
        self.colbits_p = geom.colbits - self.align
        self.bankbits  = bankbits
        self.dw        = phy.dfi_databits*nphases

    def addr(self, bank, row, col):
        return (row << (self.colbits_p + self.bankbits)) | (bank << self.colbits_p) | col


SYSTEM_CLS = System


def default_data(key, dw):
    h = hashlib.md5(repr(key).encode()).digest()
    return int.from_bytes(h, "little") & (2**dw - 1)


def dfi_model(dut, log, ncycles):
    """Behavioural DRAM behind the DFI: open-row tracking + data storage."""
    dfi   = dut.controller.dfi
    phy   = dut.phy
    mem   = {}
    rows  = {}
    wr_q  = {}   # cycle -> key
    rd_q  = {}   # cycle -> key
    nph   = len(dfi.phases)
    dwp   = phy.dfi_databits
    rdv   = False
    last_pre, last_act, last_ref = {}, {}, [None]
    def gap(name, since):
        if since is not None:
            log[name] = min(log.get(name, 10**9), cyc - since)
    for cyc in range(ncycles):
        # 1. capture the write data that is due this cycle
        if cyc in wr_q:
            key  = wr_q.pop(cyc)
            data = 0
            mask = 0
            for i, p in enumerate(dfi.phases):
                data |= (yield p.wrdata) << (i*dwp)
                mask |= (yield p.wrdata_mask) << (i*dwp//8)
            old = mem.get(key, default_data(key, dut.dw))
            new = 0
            for b in range(dut.dw//8):
                src = old if (mask >> b) & 1 else data
                new |= src & (0xff << (8*b))
            mem[key] = new
        # 2. decode commands
        ncas = 0
        for i, p in enumerate(dfi.phases):
            cas = not (yield p.cas_n)
            ras = not (yield p.ras_n)
            if not (cas or ras):
                continue
            we  = not (yield p.we_n)
            if (yield p.cs_n):
                continue
            a   = (yield p.address)
            ba  = (yield p.bank)
            if ras and not cas and not we:      # ACTIVATE
                assert rows.get(ba) is None, "cycle %d: ACTIVATE of bank %d with an open row" % (cyc, ba)
                rows[ba] = a
                log["act"] += 1
                gap("pre_act", last_pre.get(ba)); gap("act_act", last_act.get(ba)); gap("ref_act", last_ref[0])
                last_act[ba] = cyc
            elif ras and not cas and we:        # PRECHARGE
                if a & (1 << 10):
                    for b in list(rows) + list(last_act):
                        gap("act_pre", last_act.get(b))
                    rows.clear()
                    for b in range(2**dut.bankbits):
                        last_pre[b] = cyc
                else:
                    gap("act_pre", last_act.get(ba))
                    rows.pop(ba, None)
                    last_pre[ba] = cyc
            elif ras and cas and not we:        # REFRESH
                assert not rows, "cycle %d: REFRESH with open rows" % cyc
                log["refresh"] += 1
                for b in last_pre:
                    gap("pre_ref", last_pre[b])
                last_ref[0] = cyc
            elif cas and not ras:               # READ / WRITE
                ncas += 1
                assert rows.get(ba) is not None, "cycle %d: CAS to closed bank %d" % (cyc, ba)
                key = (ba, rows[ba], a & ~(1 << 10))
                gap("act_cas", last_act.get(ba))
                if we:
                    assert (yield p.wrdata_en)
                    assert i == phy.wrphase
                    assert (cyc + phy.write_latency) not in wr_q
                    wr_q[cyc + phy.write_latency] = key
                else:
                    assert (yield p.rddata_en)
                    assert i == phy.rdphase
                    rd_q[cyc + phy.read_latency - 1] = key
                if a & (1 << 10):
                    rows.pop(ba, None)
                    last_pre[ba] = cyc    # auto-precharge: not earlier than the CAS itself
        assert ncas <= 1
        # 3. drive read data (visible next cycle)
        if cyc in rd_q:
            key  = rd_q.pop(cyc)
            data = mem.get(key, default_data(key, dut.dw))
            log["reads"] += 1
            for i, p in enumerate(dfi.phases):
                yield p.rddata.eq((data >> (i*dwp)) & (2**dwp - 1))
                yield p.rddata_valid.eq(1)
            rdv = True
        elif rdv:
            for p in dfi.phases:
                yield p.rddata_valid.eq(0)
            rdv = False
        yield


def wdata_of(pid, seq, dw):
    return default_data(("w", pid, seq), dw)


class PortAgent:
    """Drives one native port from a schedule generator and records per-command timing."""
    def __init__(self, dut, pid, schedule):
        self.dut, self.pid, self.port = dut, pid, dut.ports[pid]
        self.schedule  = schedule      # iterator of (we, addr, gap_before)
        self.shadow    = {}
        self.offer_lat = []            # cycles from first valid to accept
        self.data_lat  = []            # cycles from accept to wdata.ready / rdata.valid
        self.wr_acc    = []            # accept cycle of writes not strobed yet
        self.rd_acc    = []            # (accept cycle, expected data)
        self.events    = []            # (cycle, kind) for the golden digest
        self.pending_since = None
        self.n_done    = 0

    def driver(self, ncycles):
        port, dut = self.port, self.dut
        cyc   = 0
        wseq  = 0      # writes accepted
        sseq  = 0      # strobes seen
        cur   = None
        nxt   = None
        wait  = 0
        exhausted = False
        yield port.wdata.valid.eq(1)
        yield port.wdata.we.eq(2**(dut.dw//8) - 1)
        yield port.wdata.data.eq(wdata_of(self.pid, 0, dut.dw))
        yield port.rdata.ready.eq(1)
        presented = False
        while cyc < ncycles:
            # ---- observe (values of this cycle)
            if presented and (yield port.cmd.ready):
                we, addr = cur
                self.offer_lat.append(cyc - self.pending_since)
                self.events.append((cyc, "A", we, addr))
                if we:
                    self.shadow[addr] = wdata_of(self.pid, wseq, dut.dw)
                    wseq += 1
                    self.wr_acc.append(cyc)
                else:
                    exp = self.shadow.get(addr)
                    self.rd_acc.append((cyc, addr, exp))
                cur, presented, self.pending_since = None, False, None
            if (yield port.wdata.ready):
                assert self.wr_acc, "port %d: wdata.ready without an accepted write (cycle %d)" % (self.pid, cyc)
                t = self.wr_acc.pop(0)
                self.data_lat.append(cyc - t)
                self.events.append((cyc, "W"))
                sseq += 1
                self.n_done += 1
                yield port.wdata.data.eq(wdata_of(self.pid, sseq, dut.dw))
            if (yield port.rdata.valid):
                assert self.rd_acc, "port %d: rdata.valid without an accepted read (cycle %d)" % (self.pid, cyc)
                t, addr, exp = self.rd_acc.pop(0)
                got = (yield port.rdata.data)
                if exp is None:
                    # never written by this port: the model default (address regions are private)
                    pass
                else:
                    assert got == exp, "port %d: read of %x returned %x, expected %x (cycle %d)" % (
                        self.pid, addr, got, exp, cyc)
                self.data_lat.append(cyc - t)
                self.events.append((cyc, "R", got))
                self.n_done += 1
            # ---- drive (takes effect next cycle)
            if cur is None:
                if nxt is None and not exhausted:
                    nxt = next(self.schedule, None)
                    if nxt is None:
                        exhausted = True
                    else:
                        wait = nxt[2]
                if nxt is not None:
                    if wait == 0:
                        cur, nxt = (nxt[0], nxt[1]), None
                    else:
                        wait -= 1
                if cur is not None:
                    yield port.cmd.valid.eq(1)
                    yield port.cmd.we.eq(cur[0])
                    yield port.cmd.addr.eq(cur[1])
                    presented = True
                    self.pending_since = cyc + 1
                else:
                    yield port.cmd.valid.eq(0)
            yield
            cyc += 1
        self.end_cycle = cyc
# ---- traffic schedules + runner (inlined in every keep_k.py) --------------------------------------
def sched(dut, pid, kind, rng, n):
    """Adversarial / random schedules. Every port owns a private set of columns (col % 8 == pid), so
    that the data a port reads back only depends on its own program order."""
    nb = 2**dut.bankbits
    def col():
        return (rng.randrange(8) << 3) | pid
    own = pid % nb
    if kind == "own_w":           # continuous writes to the port's private bank, one row
        for _ in range(n):
            yield 1, dut.addr(own, 1, col()), 0
    elif kind == "own_r":
        for _ in range(n):
            yield 0, dut.addr(own, 1, col()), 0
    elif kind == "own_altrows_w": # continuous writes to the private bank, alternating rows
        for i in range(n):
            yield 1, dut.addr(own, 2 + (i & 1), col()), 0
    elif kind == "own_altrows_r":
        for i in range(n):
            yield 0, dut.addr(own, 2 + (i & 1), col()), 0
    elif kind == "own_random":    # random direction / row / gaps, private bank
        for _ in range(n):
            gap = rng.choice([0, 0, 0, 0, 1, 2, 5, 17])
            yield int(rng.random() < 0.5), dut.addr(own, rng.randrange(3), col()), gap
    elif kind == "own_sparse_r":  # isolated reads on the private bank
        for _ in range(n):
            yield 0, dut.addr(own, rng.randrange(2), col()), rng.randrange(0, 30)
    elif kind == "own_sparse_w":
        for _ in range(n):
            yield 1, dut.addr(own, rng.randrange(2), col()), rng.randrange(0, 30)
    elif kind == "hammer_w":        # continuous writes, one bank, one row
        for _ in range(n):
            yield 1, dut.addr(0, 1, col()), 0
    elif kind == "hammer_r":      # continuous reads, one bank, one row
        for _ in range(n):
            yield 0, dut.addr(0, 1, col()), 0
    elif kind == "altrows_w":     # continuous writes, one bank, alternating rows
        for i in range(n):
            yield 1, dut.addr(0, 2 + (i & 1), col()), 0
    elif kind == "altrows_r":
        for i in range(n):
            yield 0, dut.addr(0, 2 + (i & 1), col()), 0
    elif kind == "sweep_w":       # continuous writes walking over the banks
        for i in range(n):
            yield 1, dut.addr(i % nb, 1, col()), 0
    elif kind == "sweep_r":
        for i in range(n):
            yield 0, dut.addr(i % nb, 1, col()), 0
    elif kind == "bursty":        # bursts to one bank, then a pause that lets the bank drain
        i = 0
        while i < n:
            b, r, we = rng.randrange(nb), rng.randrange(3), rng.random() < 0.5
            ln = rng.randrange(1, 9)
            for k in range(ln):
                yield int(we), dut.addr(b, r, col()), (rng.randrange(0, 40) if k == 0 else 0)
            i += ln
    elif kind == "random":
        for _ in range(n):
            gap = rng.choice([0, 0, 0, 1, 2, 5, 17])
            yield int(rng.random() < 0.5), dut.addr(rng.randrange(nb), rng.randrange(3), col()), gap
    elif kind == "victim_r":      # sparse single reads on its own bank
        for _ in range(n):
            yield 0, dut.addr(nb - 1, rng.randrange(2), col()), rng.randrange(0, 12)
    elif kind == "victim_w":
        for _ in range(n):
            yield 1, dut.addr(nb - 1, rng.randrange(2), col()), rng.randrange(0, 12)
    elif kind == "victim_rw":     # write then read back, own bank
        for _ in range(n):
            a = dut.addr(nb - 1, rng.randrange(2), col())
            yield 1, a, rng.randrange(0, 12)
            yield 0, a, rng.randrange(0, 3)
    else:
        raise ValueError(kind)


def run(cfg, kinds, seed, ncycles, extra_generators=None, n=10**9):
    rng    = random.Random(seed)
    dut    = SYSTEM_CLS(nports=len(kinds), **cfg)
    log    = {"act": 0, "refresh": 0, "reads": 0}
    agents = [PortAgent(dut, i, sched(dut, i, k, random.Random(rng.random()), n)) for i, k in enumerate(kinds)]
    gens   = [dfi_model(dut, log, ncycles)] + [a.driver(ncycles) for a in agents]
    for g in (extra_generators or []):
        gens.append(g(dut, ncycles))
    run_simulation(dut, gens)
    return dut, agents, log


def digest(agents):
    h = hashlib.sha256()
    for a in agents:
        h.update(repr(a.events).encode())
    return h.hexdigest()[:16]
# ---- scenarios -------------------------------------------------------------------------------------
SDR  = dict(nphases=1, memtype="SDR")
DDR3 = dict(nphases=4, memtype="DDR3", buffered=True, tccd=2, tfaw=10)

# (name, cfg, kinds, seed, ncycles, private_banks)
SCENARIOS = [
    ("P1", dict(),                                ["own_w", "own_r", "own_altrows_w", "own_sparse_r"], 11, 1000, True),
    ("P2", dict(SDR, depth=2),                    ["own_r", "own_r", "own_sparse_w"],                  12, 1000, True),
    ("P3", dict(DDR3),                            ["own_altrows_r", "own_w", "own_random"],            13, 1000, True),
    ("P4", dict(depth=1, read_time=4, write_time=4), ["own_random", "own_random", "own_random"],       14, 1000, True),
    ("P5", dict(auto_precharge=False, read_time=8, write_time=24), ["own_w", "own_w", "own_sparse_r"], 15, 1000, True),
    ("P6", dict(DDR3, depth=8, auto_precharge=False), ["own_r", "own_altrows_w", "own_sparse_w", "own_random"], 16, 1000, True),
    ("S1", dict(),                                ["random", "random", "random"],                      21, 1000, False),
    ("S2", dict(buffered=True),                   ["hammer_w", "victim_r", "bursty"],                  22, 1000, False),
    ("S3", dict(SDR),                             ["hammer_r", "victim_w", "bursty"],                  23, 1000, False),
    ("S4", dict(DDR3),                            ["altrows_w", "altrows_r", "random"],                24, 1000, False),
    ("S5", dict(depth=2),                         ["sweep_w", "sweep_r", "victim_rw"],                 25, 1000, False),
    ("S6", dict(depth=0),                         ["random", "bursty", "sweep_r"],                     26, 1000, False),
]


def stats(agents, ncycles):
    offer, data = 0, 0
    for a in agents:
        offer = max([offer] + a.offer_lat)
        data  = max([data] + a.data_lat)
        if a.pending_since is not None:
            offer = max(offer, ncycles - a.pending_since)
        for t in a.wr_acc[:1]:
            data = max(data, ncycles - t)
        for t in a.rd_acc[:1]:
            data = max(data, ncycles - t[0])
    return offer, data, sum(a.n_done for a in agents)
# Digests of the complete port-level event traces (cycle of every cmd accept, wdata.ready, rdata.valid
# and the read data) recorded with this very script on the UNMODIFIED tree.
GOLDEN = {
    "P1": "405eff0d5cda4894", "P2": "b66a84ab7e6c39e3", "P3": "c3aab50c3c60cc2c", "P4": "ff2e50510b175aeb",
    "P5": "47ff68cc419a37ba", "P6": "0e544dd56ef051b7", "S1": "3f43384ce989521a", "S2": "8b10d812d9d8f211",
    "S3": "fbab1bf2fa8a0d21", "S4": "d93947c6af5092da", "S5": "0900ce543cf43802", "S6": "e8a21820d2dc232c",
}
# ---- keep_1 specific: lockstep comparison with the original round-robin / original chooser ---------
import traceback
from migen.genlib.roundrobin import RoundRobin, SP_CE
from litex.soc.interconnect import stream
from litedram.common import cmd_request_rw_layout
from litedram.core import multiplexer as mux_mod
from litedram.core.multiplexer import _CommandChooser


class OrigCommandChooser(Module):
    """Verbatim copy of the _CommandChooser of the unmodified tree (reference)."""
    def __init__(self, requests):
        self.want_reads     = Signal()
        self.want_writes    = Signal()
        self.want_cmds      = Signal()
        self.want_activates = Signal()
        a  = len(requests[0].a)
        ba = len(requests[0].ba)
        self.cmd = cmd = stream.Endpoint(cmd_request_rw_layout(a, ba))
        n = len(requests)
        self.ready_o = [Signal() for _ in range(n)]   # instead of driving request.ready
        valids = Signal(n)
        for i, request in enumerate(requests):
            is_act_cmd = request.ras & ~request.cas & ~request.we
            command = request.is_cmd & self.want_cmds & (~is_act_cmd | self.want_activates)
            read = request.is_read == self.want_reads
            write = request.is_write == self.want_writes
            self.comb += valids[i].eq(request.valid & (command | (read & write)))
        arbiter = RoundRobin(n, SP_CE)
        self.submodules += arbiter
        self.arbiter = arbiter
        choices = Array(valids[i] for i in range(n))
        self.comb += [
            arbiter.request.eq(valids),
            cmd.valid.eq(choices[arbiter.grant])
        ]
        for name in ["a", "ba", "is_read", "is_write", "is_cmd"]:
            choices = Array(getattr(req, name) for req in requests)
            self.comb += getattr(cmd, name).eq(choices[arbiter.grant])
        for name in ["cas", "ras", "we"]:
            choices = Array(getattr(req, name) for req in requests)
            self.comb += If(cmd.valid, getattr(cmd, name).eq(choices[arbiter.grant]))
        for i, request in enumerate(requests):
            self.comb += If(cmd.valid & cmd.ready & (arbiter.grant == i), self.ready_o[i].eq(1))
        self.comb += arbiter.ce.eq(cmd.ready | ~cmd.valid)


class ArbPair(Module):
    def __init__(self, n):
        assert hasattr(mux_mod, "_RotatingArbiter"), "keep_1.diff is not applied"
        self.submodules.new = mux_mod._RotatingArbiter(n)
        self.submodules.ref = RoundRobin(n, SP_CE)
        self.n = n


def arbiter_case(args):
    n, seed, ncycles = args
    try:
        dut  = ArbPair(n)
        rng  = random.Random(seed)
        seen = set()
        def gen():
            pat = rng.choice(["uniform", "sparse", "dense"])
            for cyc in range(ncycles):
                if cyc % 64 == 0:
                    pat = rng.choice(["uniform", "sparse", "dense", "onehot"])
                if pat == "uniform":
                    r = rng.getrandbits(n)
                elif pat == "sparse":
                    r = rng.getrandbits(n) & rng.getrandbits(n) & rng.getrandbits(n)
                elif pat == "dense":
                    r = rng.getrandbits(n) | rng.getrandbits(n)
                else:
                    r = 1 << rng.randrange(n)
                ce = int(rng.random() < 0.7)
                yield dut.new.request.eq(r); yield dut.ref.request.eq(r)
                yield dut.new.ce.eq(ce);     yield dut.ref.ce.eq(ce)
                yield
                g_new, g_ref = (yield dut.new.grant), (yield dut.ref.grant)
                assert g_new == g_ref, "n=%d cycle %d: grant %d, RoundRobin %d" % (n, cyc, g_new, g_ref)
                seen.add((g_new, r, ce))
        # note: the grant sampled after the `yield` is the one the (request, ce) just written acts on
        run_simulation(dut, gen())
        if n <= 4:
            want = n * 2**n * 2
            assert len(seen) == want, "n=%d: only %d of %d (grant, request, ce) triples covered" % (n, len(seen), want)
    except Exception:
        return False, "arbiter n=%d: %s" % (n, traceback.format_exc())
    return True, "arbiter n=%d: grant equal to RoundRobin(n, SP_CE) on %d cycles, %d (grant, request, ce) triples%s" % (
        n, ncycles, len(seen), " = all" if n <= 4 else "")


class ChooserPair(Module):
    def __init__(self, n):
        self.requests = [stream.Endpoint(cmd_request_rw_layout(a=13, ba=3)) for _ in range(n)]
        self.submodules.new = _CommandChooser(self.requests)
        self.submodules.ref = OrigCommandChooser(self.requests)
        assert not any(isinstance(m, RoundRobin) for _, m in self.new._submodules), "keep_1.diff is not applied"


def chooser_case(args):
    n, seed, ncycles = args
    try:
        dut = ChooserPair(n)
        rng = random.Random(seed)
        KINDS = ["read", "write", "act", "pre"]
        def new_request():
            k = rng.choice(KINDS)
            d = dict(valid=1, a=rng.getrandbits(13), ba=rng.getrandbits(3), cas=0, ras=0, we=0, is_cmd=0, is_read=0, is_write=0)
            if k == "read":
                d.update(cas=1, is_read=1)
            elif k == "write":
                d.update(cas=1, we=1, is_write=1)
            elif k == "act":
                d.update(ras=1, is_cmd=1)
            else:
                d.update(ras=1, we=1, is_cmd=1)
            return d
        cur     = [None]*n
        waiting = [0]*n          # acceptances of other requests seen while continuously eligible
        stats   = {"acc": 0, "maxwait": 0}
        def gen():
            mode = dict(want_reads=0, want_writes=0, want_cmds=0, want_activates=0)
            p_ready = 0.5
            for cyc in range(ncycles):
                # ---- drive
                if cyc % 40 == 0:
                    rw = rng.choice(["r", "w", "none"])
                    mode = dict(want_reads=int(rw == "r"), want_writes=int(rw == "w"),
                                want_cmds=int(rng.random() < 0.6), want_activates=int(rng.random() < 0.7))
                    p_ready = rng.choice([0.1, 0.5, 0.9, 1.0])
                    p_new   = rng.choice([0.05, 0.3, 0.9])
                for name, v in mode.items():
                    yield getattr(dut.new, name).eq(v); yield getattr(dut.ref, name).eq(v)
                rdy = int(rng.random() < p_ready)
                yield dut.new.cmd.ready.eq(rdy); yield dut.ref.cmd.ready.eq(rdy)
                for i, r in enumerate(dut.requests):
                    if cur[i] is None and rng.random() < p_new:
                        cur[i] = new_request()
                        for k, v in cur[i].items():
                            yield getattr(r, k).eq(v)
                    elif cur[i] is None:
                        yield r.valid.eq(0)
                yield
                # ---- compare all outputs of this cycle
                for name in ["valid", "a", "ba", "cas", "ras", "we", "is_cmd", "is_read", "is_write"]:
                    v_new, v_ref = (yield getattr(dut.new.cmd, name)), (yield getattr(dut.ref.cmd, name))
                    assert v_new == v_ref, "n=%d cycle %d: cmd.%s %d, original %d" % (n, cyc, name, v_new, v_ref)
                acc = None
                for i, r in enumerate(dut.requests):
                    v_new, v_ref = (yield r.ready), (yield dut.ref.ready_o[i])
                    assert v_new == v_ref, "n=%d cycle %d: request[%d].ready %d, original %d" % (n, cyc, i, v_new, v_ref)
                    if v_new:
                        assert acc is None and cur[i] is not None
                        acc = i
                # ---- fairness: eligible = what the chooser filter lets through with the current mode
                def eligible(d):
                    if d is None:
                        return False
                    if d["is_cmd"]:
                        is_act = d["ras"] and not d["we"]
                        return bool(mode["want_cmds"] and (not is_act or mode["want_activates"])) or \
                               (mode["want_reads"] == 0 and mode["want_writes"] == 0)
                    return d["is_read"] == mode["want_reads"] and d["is_write"] == mode["want_writes"]
                for i in range(n):
                    if i == acc or not eligible(cur[i]):
                        waiting[i] = 0
                    elif acc is not None:
                        waiting[i] += 1
                        stats["maxwait"] = max(stats["maxwait"], waiting[i])
                        assert waiting[i] <= n - 1, "n=%d cycle %d: request %d overtaken %d times" % (n, cyc, i, waiting[i])
                if acc is not None:
                    stats["acc"] += 1
                    cur[acc] = None
                    yield dut.requests[acc].valid.eq(0)
        run_simulation(dut, gen())
        assert stats["acc"] > ncycles//100
    except Exception:
        return False, "chooser n=%d: %s" % (n, traceback.format_exc())
    return True, "chooser n=%d: all outputs equal to the original chooser on %d cycles, %d acceptances, an eligible request overtaken at most %d times (<= n-1)" % (
        n, ncycles, stats["acc"], stats["maxwait"])


EXTRA_JOBS  = [(arbiter_case, (n, 100 + n, 6000 if n <= 4 else 4000)) for n in range(1, 10)] + \
              [(chooser_case, (n, 200 + n, 3000)) for n in (1, 2, 3, 4, 8)]
MONITOR     = None
MONITORED   = set()
MONITOR_MSG = None
# ---- main ------------------------------------------------------------------------------------------
import multiprocessing, time, traceback


def system_case(sc):
    name, cfg, kinds, seed, n, private = sc
    try:
        extra = [MONITOR] if name in MONITORED else []
        dut, agents, log = run(cfg, kinds, seed, n, extra_generators=extra)
    except Exception:
        return False, "system %s: %s" % (name, traceback.format_exc())
    offer, data, done = stats(agents, n)
    per = dut.cs.read_time + dut.cs.write_time + 40
    data_bound  = (dut.cs.cmd_buffer_depth + 3)*per
    offer_bound = 2*per
    d  = digest(agents)
    ok = data <= data_bound and done > 50 and log["refresh"] >= 5
    if private:
        # with private banks nothing but the multiplexer can delay a port: both latencies are bounded
        ok = ok and offer <= offer_bound and all(a.n_done > 8 for a in agents)
    same = d == GOLDEN[name]
    ok   = ok and same
    msg = "system %s: trace %s unmodified tree (%s); done=%d max offer->accept=%d%s max accept->data=%d (<=%d)" % (
        name, "IDENTICAL to" if same else "DIFFERS from", d, done, offer,
        " (<=%d)" % offer_bound if private else "", data, data_bound)
    if name in MONITORED:
        msg += "; " + MONITOR_MSG(dut)
    return ok, msg


def _dispatch(job):
    return job[0](job[1])


if __name__ == "__main__":
    t0   = time.time()
    bad  = 0
    jobs = [(system_case, sc) for sc in SCENARIOS] + EXTRA_JOBS
    with multiprocessing.Pool(min(8, os.cpu_count() or 2)) as pool:
        for ok, msg in pool.imap(_dispatch, jobs):
            print("ok  " if ok else "FAIL", msg, flush=True)
            bad += not ok
    print("%d jobs, %d failed, %.0f s" % (len(jobs), bad, time.time() - t0))
    sys.exit(1 if bad else 0)
