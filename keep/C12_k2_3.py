#!/usr/bin/env python3
# Check for change 3 (CSR mode of LiteDRAMDMAReader / LiteDRAMDMAWriter: the address presented on
# the internal sink comes from a running address register instead of the `base + offset` adder).
#
# Drives the real modules in CSR mode (native and AXI port, several FIFO depths) with random base /
# length (including length 1 and address wrap-around), random port back-pressure, memory latency and
# consumer / producer stalls, with and without loop mode, and with a disable / reprogram / re-enable
# sequence, and checks:
#   - the commands are base, base+1, ..., base+length-1 (modulo the address width), repeated in loop
#     mode, `last` exactly on the final address of each pass, the offset CSR following the index;
#   - reader: one word per command on the source, in order, right data, `last` on the matching word,
#     never more than fifo_depth reads outstanding, no word returned while rdata.ready is low;
#   - writer: n-th data word on the port is the n-th word taken from the sink (paired with the n-th
#     command), each exactly once;
#   - done is reported only after the last address has been accepted.
# Run from the root of the tree with the change applied. Exits 0 on success.

import os
import sys
import random
from collections import deque

sys.path.insert(0, os.getcwd())

from migen import *

from litedram.common import LiteDRAMNativePort
from litedram.frontend.axi import LiteDRAMAXIPort
from litedram.frontend.dma import LiteDRAMDMAReader, LiteDRAMDMAWriter

AW = 12
DW = 32
MASK = 2**AW - 1


def _patch_csr_naming():
    # The CSR classes find their name by decoding the bytecode of the caller, which does not work with
    # every Python version (CSRs can then not be created at all). Only for this check: use `dis`.
    import dis
    import inspect
    from litex.soc.interconnect import csr

    def get_obj_var_name(override=None, default=None):
        if override:
            return override
        frame = inspect.currentframe().f_back
        ourclass = frame.f_locals["self"].__class__
        while "self" in frame.f_locals and isinstance(frame.f_locals["self"], ourclass):
            frame = frame.f_back
        for ins in dis.get_instructions(frame.f_code):
            if ins.offset > frame.f_lasti and ins.opname in ("STORE_ATTR", "STORE_FAST", "STORE_NAME", "STORE_DEREF"):
                name = ins.argval
                if len(name) > 2 and name[0] == "_" and name[1] != "_":
                    name = name[1:]
                return name
        return default
    csr.get_obj_var_name = get_obj_var_name


_patch_csr_naming()


class Failure(Exception):
    pass


def memf(addr):
    return ((addr * 2654435761) ^ 0x5bd1e995 ^ (addr << 7)) & (2**DW - 1)


def expected_cmds(base, length, count):
    return [((base + (i % length)) & MASK, int((i % length) == length - 1)) for i in range(count)]


# Reader -------------------------------------------------------------------------------------------

def run_reader_csr(seed, port_kind, fifo_depth, buffered, phases):
    """phases: list of (base, length, passes); passes > 1 uses loop mode. The DMA is disabled and
    reprogrammed between the phases."""
    prng = random.Random(seed)
    if port_kind == "native":
        port = LiteDRAMNativePort("read", AW, DW)
        cmd, rdata = port.cmd, port.rdata
    else:
        port = LiteDRAMAXIPort(DW, AW)
        cmd, rdata = port.ar, port.r
    # (not assigned directly to a name captured by the generators below: migen's name tracer does
    # not cope with closure cells on recent Python versions)
    m = LiteDRAMDMAReader(port, fifo_depth=fifo_depth, fifo_buffered=buffered, with_csr=True)
    dma = m
    p_cmd, p_rv, p_src = prng.choice([(1.0, 1.0, 1.0), (0.7, 0.8, 0.4), (0.3, 1.0, 0.15), (1.0, 0.3, 1.0)])
    lat = prng.choice([(1, 1), (1, 6), (10, 20)])
    st = dict(cmds=[], offs=[], got=[], errors=[], outstanding_max=0, counts=[])

    def main():
        for (base, length, passes) in phases:
            n0 = len(st["cmds"])
            g0 = len(st["got"])
            yield dma._enable.storage.eq(0)
            yield dma._base.storage.eq(base*4 + prng.randrange(4))     # low bits are ignored
            yield dma._length.storage.eq(length*4 + prng.randrange(4))
            yield dma._loop.storage.eq(int(passes > 1))
            yield
            yield
            yield dma._enable.storage.eq(1)
            t = 0
            while True:
                yield
                t += 1
                ncmd = len(st["cmds"]) - n0
                if ncmd > length*(passes - 1):
                    # Enough passes started: leave loop mode, the current pass is then the last one
                    # (how many passes are done in the end is taken from the number of commands).
                    yield dma._loop.storage.eq(0)
                if (yield dma._done.status):
                    if ncmd < length*passes or ncmd % length:
                        st["errors"].append("done after %d commands (length %d, %d passes)" % (ncmd, length, passes))
                    if len(st["got"]) - g0 >= ncmd:
                        break
                if t > 300*length*(passes + 2) + 5000:
                    st["errors"].append("timeout (%d commands, %d words)" % (ncmd, len(st["got"]) - g0))
                    st["counts"].append(ncmd)
                    return
            for _ in range(3*fifo_depth + 30):
                yield
            st["counts"].append(len(st["cmds"]) - n0)
            if len(st["cmds"]) - n0 != ncmd or len(st["got"]) - g0 != ncmd:
                st["errors"].append("phase base=%d length=%d passes=%d: activity after done" % (base, length, passes))
                return

    @passive
    def memory():
        queue = deque()
        presenting = None
        cycle = 0
        while True:
            if (yield cmd.valid) and (yield cmd.ready):
                queue.append((cycle + prng.randint(*lat), (yield cmd.addr)))
                st["cmds"].append(((yield cmd.addr), (yield cmd.last)))
                st["offs"].append((yield dma._offset.status))
            if presenting is not None:
                rdy = (yield rdata.ready)
                if port_kind == "native" and not rdy:
                    st["errors"].append("cycle %d: word returned while rdata.ready=0 (lost)" % cycle)
                if port_kind == "native" or rdy:
                    presenting = None
            yield cmd.ready.eq(int(prng.random() < p_cmd))
            if presenting is None:
                if queue and queue[0][0] <= cycle and prng.random() < p_rv:
                    presenting = queue.popleft()
                    yield rdata.valid.eq(1)
                    yield rdata.data.eq(memf(presenting[1]))
                else:
                    yield rdata.valid.eq(0)
            yield
            cycle += 1

    @passive
    def consumer():
        while True:
            if (yield dma.source.valid) and (yield dma.source.ready):
                st["got"].append(((yield dma.source.data), (yield dma.source.last)))
            out = len(st["cmds"]) - len(st["got"])
            st["outstanding_max"] = max(st["outstanding_max"], out)
            if prng.random() < 0.02:
                yield dma.source.ready.eq(0)
                for _ in range(prng.randint(fifo_depth, 3*fifo_depth + 20)):
                    yield
                    out = len(st["cmds"]) - len(st["got"])
                    st["outstanding_max"] = max(st["outstanding_max"], out)
            yield dma.source.ready.eq(int(prng.random() < p_src))
            yield

    run_simulation(dma, [main(), memory(), consumer()])
    errors = list(st["errors"])
    want, want_offs = [], []
    for (base, length, passes), count in zip(phases, st["counts"]):
        want += expected_cmds(base, length, count)
        want_offs += [i % length for i in range(count)]
    if len(st["counts"]) != len(phases):
        errors.append("not all phases were run")
    if st["cmds"] != want:
        k = next((i for i, (g, w) in enumerate(zip(st["cmds"], want)) if g != w), min(len(st["cmds"]), len(want)))
        errors.append("command stream wrong at %d (%d commands, expected %d): got %s want %s" % (
            k, len(st["cmds"]), len(want), st["cmds"][k:k+3], want[k:k+3]))
    if st["offs"] != want_offs:
        errors.append("offset CSR does not follow the index")
    if st["got"] != [(memf(a), l) for a, l in st["cmds"]]:
        errors.append("source stream != one word per command, in order")
    if st["outstanding_max"] > fifo_depth:
        errors.append("%d reads outstanding > fifo_depth" % st["outstanding_max"])
    if errors:
        raise Failure("reader seed=%d %s depth=%d buffered=%s phases=%s: %s" % (
            seed, port_kind, fifo_depth, buffered, phases, errors[:4]))


# Writer -------------------------------------------------------------------------------------------

def run_writer_csr(seed, port_kind, fifo_depth, buffered, phases):
    prng = random.Random(seed)
    if port_kind == "native":
        port = LiteDRAMNativePort("write", AW, DW)
        cmd, wdata = port.cmd, port.wdata
    else:
        port = LiteDRAMAXIPort(DW, AW)
        cmd, wdata = port.aw, port.w
    m = LiteDRAMDMAWriter(port, fifo_depth=fifo_depth, fifo_buffered=buffered, with_csr=True)
    dma = m
    p_cmd, p_wr, p_snk = prng.choice([(1.0, 1.0, 1.0), (0.7, 0.6, 0.7), (0.3, 1.0, 1.0), (1.0, 0.2, 0.5)])
    st = dict(cmds=[], offs=[], datas=[], sent=[], errors=[], counts=[])

    def main():
        for (base, length, passes) in phases:
            n0 = len(st["cmds"])
            yield dma.sink.valid.eq(0)
            yield dma._enable.storage.eq(0)
            yield dma._base.storage.eq(base*4 + prng.randrange(4))
            yield dma._length.storage.eq(length*4 + prng.randrange(4))
            yield dma._loop.storage.eq(int(passes > 1))
            yield
            yield
            yield dma._enable.storage.eq(1)
            yield
            yield  # The IDLE state acknowledges (and drops) what is on the sink: feed from RUN on.
            t = 0
            nsent = 0
            valid = 0
            while True:
                # Outer sink handshake of the current cycle.
                if valid and (yield dma.sink.ready):
                    st["sent"].append((yield dma.sink.data))
                    nsent += 1
                    valid = 0
                if nsent > length*(passes - 1):
                    yield dma._loop.storage.eq(0)
                done = (yield dma._done.status)
                if not valid and not done and prng.random() < p_snk:
                    valid = 1
                    yield dma.sink.valid.eq(1)
                    yield dma.sink.data.eq(prng.randrange(2**DW))
                elif not valid:
                    yield dma.sink.valid.eq(0)
                if done:
                    ncmd = len(st["cmds"]) - n0
                    if ncmd < length*passes or ncmd % length:
                        st["errors"].append("done after %d commands (length %d, %d passes)" % (ncmd, length, passes))
                    if len(st["datas"]) >= len(st["cmds"]):
                        break
                yield
                t += 1
                if t > 300*length*(passes + 2) + 5000:
                    st["errors"].append("timeout (%d commands, %d sent)" % (len(st["cmds"]) - n0, nsent))
                    st["counts"].append(len(st["cmds"]) - n0)
                    return
            for _ in range(3*fifo_depth + 30):
                yield
            st["counts"].append(len(st["cmds"]) - n0)
            if len(st["cmds"]) - n0 != nsent:
                st["errors"].append("phase base=%d length=%d passes=%d: %d commands for %d words taken" % (
                    base, length, passes, len(st["cmds"]) - n0, nsent))
                return

    @passive
    def memory():
        while True:
            if (yield cmd.valid) and (yield cmd.ready):
                st["cmds"].append(((yield cmd.addr), (yield cmd.last)))
                st["offs"].append((yield dma._offset.status))
            if (yield wdata.valid) and (yield wdata.ready):
                st["datas"].append((yield wdata.data))
            yield cmd.ready.eq(int(prng.random() < p_cmd))
            if port_kind == "native":
                yield wdata.ready.eq(int(len(st["cmds"]) > len(st["datas"]) and prng.random() < p_wr))
            else:
                yield wdata.ready.eq(int(prng.random() < p_wr))
            yield

    run_simulation(dma, [main(), memory()])
    errors = list(st["errors"])
    want, want_offs = [], []
    for (base, length, passes), count in zip(phases, st["counts"]):
        want += expected_cmds(base, length, count)
        want_offs += [i % length for i in range(count)]
    if len(st["counts"]) != len(phases):
        errors.append("not all phases were run")
    if st["cmds"] != want:
        k = next((i for i, (g, w) in enumerate(zip(st["cmds"], want)) if g != w), min(len(st["cmds"]), len(want)))
        errors.append("command stream wrong at %d (%d commands, expected %d): got %s want %s" % (
            k, len(st["cmds"]), len(want), st["cmds"][k:k+3], want[k:k+3]))
    if st["offs"] != want_offs:
        errors.append("offset CSR does not follow the index")
    if st["datas"] != st["sent"]:
        errors.append("data stream != words taken from the sink (%d vs %d)" % (len(st["datas"]), len(st["sent"])))
    if errors:
        raise Failure("writer seed=%d %s depth=%d buffered=%s phases=%s: %s" % (
            seed, port_kind, fifo_depth, buffered, phases, errors[:4]))


def main():
    prng = random.Random(1234)
    runs = 0
    fixed = [
        [(0, 1, 1)],
        [(5, 1, 3)],
        [(MASK, 2, 2)],                      # wraps after the first address
        [(MASK - 2, 7, 1), (3, 4, 2)],        # wrap-around then reprogrammed
        [(100, 20, 2), (100, 20, 1), (7, 3, 3)],
    ]
    for port_kind in ["native", "axi"]:
        for fifo_depth, buffered in [(1, False), (2, False), (4, True), (16, False)]:
            plist = list(fixed)
            for _ in range(3):
                plist.append([(prng.randrange(2**AW), prng.randint(1, 30), prng.randint(1, 3))
                              for _ in range(prng.randint(1, 3))])
            for i, phases in enumerate(plist):
                seed = prng.randrange(1 << 30)
                run_reader_csr(seed, port_kind, fifo_depth, buffered, phases)
                run_writer_csr(seed + 1, port_kind, fifo_depth, buffered, phases)
                runs += 2
    print("keep_3: %d simulations OK" % runs)


if __name__ == "__main__":
    try:
        main()
    except Failure as e:
        print("FAIL:", e)
        sys.exit(1)
    sys.exit(0)
