#!/usr/bin/env python3
# Check for keep_3: LiteDRAMCrossbar decodes each master's bank address once into a one-hot vector
# (migen Decoder) and the per-bank arbiters use bit nb of it instead of a (ba == nb) comparator.
# Property C06: port address -> (rank, bank, row, col) is a bijection, columns then banks then rows,
# A10 never used as column bit, ACT row is the row part of the address.
#
# Level A: exhaustive (or dense random) evaluation of the crossbar split + bankmachine slicer expressions
#          over a geometry grid, compared against an independent Python reference and checked for
#          injectivity / ontoness / walk order.
# Level B: full LiteDRAMController + LiteDRAMCrossbar simulation, DFI ACT / RD / WR observed and compared
#          against the reference decode of each issued port address.
# Level D: LiteDRAMCrossbar alone with several masters issuing random commands and randomly stalling /
#          locking banks: checked on every cycle that a bank only sees a request from a master whose
#          address decodes to that bank (with the right row/column address) and that every accepted master
#          command is accepted by exactly the bank its address decodes to.
import os
import sys
import random
import itertools

sys.path.insert(0, os.getcwd())

from migen import *

from litedram.common import *
from litedram.core.controller import ControllerSettings, LiteDRAMController
from litedram.core.crossbar import LiteDRAMCrossbar
from litedram.core.bankmachine import _AddressSlicer

# Reference model ----------------------------------------------------------------------------------

MEMTYPES = {  # address_align -> (memtype, nphases)
    0: ("SDR",    1),
    1: ("SDR",    2),
    2: ("DDR2",   2),
    3: ("DDR3",   4),
    4: ("LPDDR4", 4),
}

def log2(n):
    assert n and (n & (n - 1)) == 0
    return n.bit_length() - 1

class Ref:
    def __init__(self, align, bankbits, rowbits, colbits, nranks, bba, data_bytes):
        self.align, self.bankbits, self.rowbits, self.colbits = align, bankbits, rowbits, colbits
        self.rankbits = log2(nranks)
        self.bb       = bankbits + self.rankbits
        self.split    = colbits - align
        words         = bba // data_bytes
        self.cba      = max(self.split, log2(words) if words else 0)
        self.aw       = rowbits + colbits - align + self.bb
        self.rca_bits = rowbits + colbits + self.rankbits - align

    def decode(self, addr):
        field = (addr >> self.cba) & (2**self.bb - 1)
        bank  = field & (2**self.bankbits - 1)
        rank  = field >> self.bankbits
        rca   = (addr & (2**self.cba - 1)) | ((addr >> (self.cba + self.bb)) << self.cba)
        colw  = rca & (2**self.split - 1)
        row   = rca >> self.split
        col   = colw << self.align
        return rank, bank, row, col, rca

    def dfi_col(self, col):
        # A10 is skipped
        if self.colbits > 10:
            return (col & 0x3ff) | ((col >> 10) << 11)
        return col

# Level A ------------------------------------------------------------------------------------------

class ExprDUT(Module):
    def __init__(self, ref):
        port = LiteDRAMNativePort("both", ref.aw, 32)
        self.addr = port.cmd.addr
        self.ba   = Signal(max(ref.bb, 1))
        self.rca  = Signal(ref.rca_bits)
        self.row  = Signal(ref.rowbits)
        self.col  = Signal(max(ref.rowbits, ref.colbits + 1))
        slicer = _AddressSlicer(ref.colbits, ref.align)
        self.comb += [
            self.ba.eq(port.get_bank_address(ref.bb, ref.cba)),
            self.rca.eq(port.get_row_column_address(ref.bb, ref.rca_bits, ref.cba)),
            self.row.eq(slicer.row(self.rca)),
            self.col.eq(slicer.col(self.rca)),
        ]

def level_a(ref, addrs, exhaustive):
    dut  = ExprDUT(ref)
    seen = {}
    prev = [None]
    def gen():
        for a in addrs:
            yield dut.addr.eq(a)
            yield
            ba, rca, row, col = (yield dut.ba), (yield dut.rca), (yield dut.row), (yield dut.col)
            rank, bank, rrow, rcol, rrca = ref.decode(a)
            assert ba  == (rank << ref.bankbits | bank), (vars(ref), hex(a), ba)
            assert rca == rrca,                          (vars(ref), hex(a), hex(rca), hex(rrca))
            assert row == rrow,                          (vars(ref), hex(a), row, rrow)
            assert col == ref.dfi_col(rcol),             (vars(ref), hex(a), hex(col))
            if ref.colbits > 10:
                assert (col >> 10) & 1 == 0, "A10 used as a column bit"
            assert col & (2**ref.align - 1) == 0
            assert row < 2**ref.rowbits and col < 2**(ref.colbits + (ref.colbits > 10))
            key = (ba, row, col)
            assert seen.get(key, a) == a, "two addresses hit the same burst: %x %x" % (seen[key], a)
            seen[key] = a
            # Walk order: columns, then banks, then rows (only with default bank alignment).
            if exhaustive and prev[0] is not None and ref.cba == ref.split:
                pba, prow, pcol = prev[0]
                if pcol != ref.dfi_col((2**ref.split - 1) << ref.align):
                    assert (ba, row) == (pba, prow) and col > pcol
                elif pba != 2**ref.bb - 1:
                    assert (ba, row, col) == (pba + 1, prow, 0)
                else:
                    assert (ba, row, col) == (0, prow + 1, 0)
            prev[0] = key
    run_simulation(dut, gen())
    if exhaustive:
        assert len(seen) == 2**ref.aw == 2**(ref.rowbits + ref.bb + ref.split), "not onto"

def run_level_a():
    rng = random.Random(1)
    n = 0
    for align, bankbits, colbits, nranks in itertools.product(range(5), range(1, 5), range(8, 13), (1, 2)):
        data_bytes = 4 * MEMTYPES[align][1]  # dfi_databits=32
        for rowbits, bba in ((2, 0), (13, 0), (3, 2**(colbits + 1)), (14, 2**(colbits + 2)), (13, 0x10000)):
            ref = Ref(align, bankbits, rowbits, colbits, nranks, bba, data_bytes)
            if ref.cba + ref.bb > ref.aw:
                continue  # bank bits pushed out of the port address: not a legal configuration
            if ref.aw <= 11:
                level_a(ref, range(2**ref.aw), True)
            else:
                base  = rng.getrandbits(ref.aw)
                addrs = {rng.getrandbits(ref.aw) for _ in range(200)}
                addrs |= {(base + i) % 2**ref.aw for i in range(64)}
                addrs |= {base ^ (1 << i) for i in range(ref.aw)} | {0, 2**ref.aw - 1}
                level_a(ref, sorted(addrs), False)
            n += 1
    print("level A: %d geometries ok" % n)

# Level B ------------------------------------------------------------------------------------------

class CoreDUT(Module):
    def __init__(self, align, bankbits, rowbits, colbits, nranks, bba, auto_precharge=True):
        memtype, nphases = MEMTYPES[align]
        phy = PhySettings(phytype="check", memtype=memtype, databits=16, dfi_databits=32, nphases=nphases,
            rdphase=0, wrphase=nphases - 1, cl=2, cwl=2, read_latency=4, write_latency=1, nranks=nranks)
        geom   = GeomSettings(bankbits=bankbits, rowbits=rowbits, colbits=colbits)
        timing = TimingSettings(tRP=2, tRCD=2, tWR=2, tWTR=2, tREFI=400, tRFC=4, tFAW=None, tCCD=1,
            tRRD=None, tRC=None, tRAS=None, tZQCS=None)
        settings = ControllerSettings(cmd_buffer_depth=4, with_auto_precharge=auto_precharge,
            bank_byte_alignment=bba)
        self.submodules.controller = LiteDRAMController(phy, geom, timing, 100e6, settings)
        self.submodules.crossbar   = LiteDRAMCrossbar(self.controller.interface)
        self.port = self.crossbar.get_port()
        self.ref  = Ref(align, bankbits, rowbits, colbits, nranks, bba, 4*nphases)
        assert self.controller.interface.address_align == align
        assert self.port.address_width == self.ref.aw, (self.port.address_width, self.ref.aw)

def level_b(cfg, n_access, seed):
    dut = [CoreDUT(**cfg)][0]  # (not a direct closure-variable store: migen's name tracer trips on it)
    ref = dut.ref
    rng = random.Random(seed)
    hot = [rng.getrandbits(ref.aw) for _ in range(3)]
    def pick():
        r = rng.random()
        if r < 0.4:
            return rng.getrandbits(ref.aw)
        if r < 0.7:
            return (rng.choice(hot) + rng.randrange(8)) % 2**ref.aw
        return rng.choice(hot) ^ (1 << rng.randrange(ref.aw))
    accesses = [(pick(), rng.random() < 0.5) for _ in range(n_access)]
    done = {"cmd": False}

    def cmd_gen():
        port = dut.port
        for a, we in accesses:
            yield port.cmd.addr.eq(a)
            yield port.cmd.we.eq(we)
            yield port.cmd.valid.eq(1)
            yield
            while not (yield port.cmd.ready):
                yield
            yield port.cmd.valid.eq(0)
            for _ in range(rng.choice((0, 0, 0, 1, 3))):
                yield
        done["cmd"] = True

    observed  = []  # (rank, bank, row, col, we)
    open_rows = {}
    def monitor():
        yield dut.port.wdata.valid.eq(1)
        yield dut.port.rdata.ready.eq(1)
        idle = 0
        while not (done["cmd"] and len(observed) >= len(accesses)) and idle < 3000:
            idle += 1
            for phase in dut.controller.dfi.phases:
                cs_n = (yield phase.cs_n)
                cmd  = ((yield phase.cas_n), (yield phase.ras_n), (yield phase.we_n))
                if cmd == (1, 1, 1):
                    continue
                ranks = [r for r in range(2**ref.rankbits) if not (cs_n >> r) & 1]
                bank, address = (yield phase.bank), (yield phase.address)
                if cmd == (1, 0, 1):    # activate
                    assert len(ranks) == 1
                    assert (ranks[0], bank) not in open_rows, "activate on an open bank"
                    open_rows[ranks[0], bank] = address
                elif cmd == (1, 0, 0):  # precharge
                    for r, b in list(open_rows):
                        if r in ranks and (b == bank or address & (1 << 10)):  # A10: precharge all
                            del open_rows[r, b]
                elif cmd in [(0, 1, 1), (0, 1, 0)]:  # read / write
                    assert len(ranks) == 1
                    key = (ranks[0], bank)
                    assert key in open_rows, "column access to a closed bank"
                    observed.append((ranks[0], bank, open_rows[key], address & ~(1 << 10), cmd[2] == 0))
                    if address & (1 << 10):
                        del open_rows[key]
                    idle = 0
                elif cmd == (0, 0, 1):  # refresh
                    assert not open_rows, "refresh with open rows"
            yield

    run_simulation(dut, [cmd_gen(), monitor()])
    expected = []
    for a, we in accesses:
        rank, bank, row, col, _ = ref.decode(a)
        expected.append((rank, bank, row, ref.dfi_col(col), we))
    assert len(observed) == len(expected), (cfg, len(observed), len(expected))
    # Per bank the order is preserved; across banks the multiplexer may reorder.
    for rb in {(e[0], e[1]) for e in expected} | {(o[0], o[1]) for o in observed}:
        exp = [e for e in expected if (e[0], e[1]) == rb]
        obs = [o for o in observed if (o[0], o[1]) == rb]
        assert exp == obs, (cfg, rb, exp[:4], obs[:4])

def run_level_b(n_access=80):
    cfgs = [
        dict(align=2, bankbits=3, rowbits=13, colbits=10, nranks=1, bba=0),
        dict(align=3, bankbits=2, rowbits=14, colbits=11, nranks=1, bba=0),
        dict(align=3, bankbits=3, rowbits=13, colbits=12, nranks=2, bba=0),
        dict(align=0, bankbits=1, rowbits=11, colbits=8,  nranks=1, bba=0),
        dict(align=1, bankbits=2, rowbits=12, colbits=9,  nranks=2, bba=0),
        dict(align=4, bankbits=3, rowbits=15, colbits=10, nranks=1, bba=0),
        dict(align=4, bankbits=4, rowbits=13, colbits=12, nranks=1, bba=0),
        dict(align=3, bankbits=2, rowbits=14, colbits=10, nranks=1, bba=0x10000),
        dict(align=2, bankbits=3, rowbits=13, colbits=11, nranks=2, bba=0x8000, auto_precharge=False),
        dict(align=3, bankbits=1, rowbits=13, colbits=12, nranks=1, bba=0x40000),
    ]
    for i, cfg in enumerate(cfgs):
        level_b(cfg, n_access, seed=100 + i)
        print("level B ok:", cfg)

# Level D ------------------------------------------------------------------------------------------

class CrossbarDUT(Module):
    def __init__(self, align, bankbits, rowbits, colbits, nranks, bba, nmasters):
        memtype, nphases = MEMTYPES[align]
        settings = ControllerSettings(cmd_buffer_depth=4, bank_byte_alignment=bba)
        settings.phy = PhySettings(phytype="check", memtype=memtype, databits=16, dfi_databits=32,
            nphases=nphases, rdphase=0, wrphase=nphases - 1, cl=2, cwl=2, read_latency=4, write_latency=1,
            nranks=nranks)
        settings.geom = GeomSettings(bankbits=bankbits, rowbits=rowbits, colbits=colbits)
        self.interface = LiteDRAMInterface(align, settings)
        self.submodules.crossbar = LiteDRAMCrossbar(self.interface)
        self.ports = [self.crossbar.get_port() for _ in range(nmasters)]
        self.ref   = Ref(align, bankbits, rowbits, colbits, nranks, bba, 4*nphases)
        assert self.ports[0].address_width == self.ref.aw

def level_d(cfg, n_cmds, seed):
    dut = [CrossbarDUT(**cfg)][0]
    ref = dut.ref
    rng = random.Random(seed)
    nbanks = dut.interface.nbanks
    banks  = [getattr(dut.interface, "bank%d" % n) for n in range(nbanks)]
    hot    = [rng.getrandbits(ref.aw) for _ in range(2)]
    sent   = [0]*len(dut.ports)
    taken  = [[] for _ in range(nbanks)]   # (addr, we) accepted per bank

    def pick():
        r = rng.random()
        if r < 0.5:
            return rng.getrandbits(ref.aw)
        return (rng.choice(hot) + rng.randrange(4) * rng.choice((1, 2**ref.cba))) % 2**ref.aw

    def run():
        cur = [None]*len(dut.ports)   # command currently driven by each master
        lock_cnt = [0]*nbanks
        cycles = 0
        while min(sent) < n_cmds:
            cycles += 1
            assert cycles < 200*n_cmds, "crossbar stuck"
            # drive masters
            for m, port in enumerate(dut.ports):
                if cur[m] is None and rng.random() < 0.7:
                    cur[m] = (pick(), rng.random() < 0.5)
                    yield port.cmd.addr.eq(cur[m][0])
                    yield port.cmd.we.eq(cur[m][1])
                    yield port.cmd.valid.eq(1)
            # drive banks
            for n, bank in enumerate(banks):
                yield bank.ready.eq(rng.random() < 0.6)
                yield bank.lock.eq(lock_cnt[n] > 0)
                lock_cnt[n] = max(lock_cnt[n] - 1, 0)
            yield
            # observe the cycle that has just been driven
            accepted_by = {}
            for n, bank in enumerate(banks):
                if (yield bank.valid):
                    addr, we = (yield bank.addr), (yield bank.we)
                    # some master must drive exactly this, and its address must decode to this bank
                    cands = [m for m in range(len(dut.ports)) if cur[m] is not None
                        and ref.decode(cur[m][0])[4] == addr and bool(cur[m][1]) == bool(we)
                        and (ref.decode(cur[m][0])[0] << ref.bankbits | ref.decode(cur[m][0])[1]) == n]
                    assert cands, (cfg, "bank %d sees a request no master addressed to it" % n, hex(addr))
                    if (yield bank.ready):
                        taken[n].append((addr, we))
                        accepted_by[n] = cands
                        lock_cnt[n] = rng.choice((0, 1, 3))
            nready = 0
            for m, port in enumerate(dut.ports):
                if cur[m] is not None and (yield port.cmd.ready):
                    rank, bank, row, col, rca = ref.decode(cur[m][0])
                    n = rank << ref.bankbits | bank
                    assert n in accepted_by and m in accepted_by[n], (cfg, "master %d accepted by the wrong bank" % m)
                    accepted_by[n] = [m]
                    nready += 1
                    sent[m] += 1
                    cur[m] = None
                    yield port.cmd.valid.eq(0)
            assert nready == len(accepted_by), (cfg, "bank accepted a command no master saw accepted")

    run_simulation(dut, run())
    assert sum(len(t) for t in taken) == sum(sent)

def run_level_d(n_cmds=60):
    rng = random.Random(11)
    n = 0
    for align, colbits in itertools.product(range(5), range(8, 13)):
        bankbits, nranks = rng.choice(((1, 1), (2, 1), (3, 1), (2, 2), (1, 2), (4, 1), (3, 2)))
        bba = rng.choice((0, 0, 2**(colbits + 2), 0x10000))
        cfg = dict(align=align, bankbits=bankbits, rowbits=rng.choice((13, 15)), colbits=colbits,
            nranks=nranks, bba=bba, nmasters=rng.choice((1, 2, 3, 4)))
        level_d(cfg, n_cmds, seed=n)
        n += 1
    print("level D: %d crossbar configurations ok" % n)

if __name__ == "__main__":
    if "-b" not in sys.argv:
        run_level_d()
        run_level_a()
    run_level_b()
    print("OK")
