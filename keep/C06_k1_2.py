#!/usr/bin/env python3
# Check for keep_2: BankMachine splits the request address into (row, col index) in front of the command
# buffers (lookahead FIFO / 1-deep buffer now carry "row" and "col" fields instead of "addr"), the column
# address (alignment zeros, A10 skipped) is expanded from the buffered col index.
# Property C06: port address -> (rank, bank, row, col) is a bijection, columns then banks then rows,
# A10 never used as column bit, ACT row is the row part of the address.
#
# Level A: exhaustive (or dense random) evaluation of the crossbar split + bankmachine slicer expressions
#          over a geometry grid, compared against an independent Python reference and checked for
#          injectivity / ontoness / walk order.
# Level B: full LiteDRAMController + LiteDRAMCrossbar simulation, DFI ACT / RD / WR observed and compared
#          against the reference decode of each issued port address.
# Level C: BankMachine alone (all buffer depths, buffered or not, with / without auto-precharge, random
#          cmd.ready stalls and refresh requests): every RD/WR is issued in request order, with the
#          request's column address, on a row opened by an ACT carrying the request's row.
import os
import sys
import random
import itertools

sys.path.insert(0, os.getcwd())

from migen import *

from litedram.common import *
from litedram.core.controller import ControllerSettings, LiteDRAMController
from litedram.core.crossbar import LiteDRAMCrossbar
from litedram.core.bankmachine import _AddressSlicer, BankMachine

# Reference model ----------------------------------------------------------------------------------

MEMTYPES = {  # address_align -> (memtype, nphases)
    0: ("SDR",    1),
    1: ("SDR",    2),
    2: ("DDR2",   2),
    3: ("DDR3",   4),
    4: ("LPDDR4", 4),
}

def log2(n):
    assert n and (n & (n - 1)) == 0
    return n.bit_length() - 1

class Ref:
    def __init__(self, align, bankbits, rowbits, colbits, nranks, bba, data_bytes):
        self.align, self.bankbits, self.rowbits, self.colbits = align, bankbits, rowbits, colbits
        self.rankbits = log2(nranks)
        self.bb       = bankbits + self.rankbits
        self.split    = colbits - align
        words         = bba // data_bytes
        self.cba      = max(self.split, log2(words) if words else 0)
        self.aw       = rowbits + colbits - align + self.bb
        self.rca_bits = rowbits + colbits + self.rankbits - align

    def decode(self, addr):
        field = (addr >> self.cba) & (2**self.bb - 1)
        bank  = field & (2**self.bankbits - 1)
        rank  = field >> self.bankbits
        rca   = (addr & (2**self.cba - 1)) | ((addr >> (self.cba + self.bb)) << self.cba)
        colw  = rca & (2**self.split - 1)
        row   = rca >> self.split
        col   = colw << self.align
        return rank, bank, row, col, rca

    def dfi_col(self, col):
        # A10 is skipped
        if self.colbits > 10:
            return (col & 0x3ff) | ((col >> 10) << 11)
        return col

# Level A ------------------------------------------------------------------------------------------

class ExprDUT(Module):
    def __init__(self, ref):
        port = LiteDRAMNativePort("both", ref.aw, 32)
        self.addr = port.cmd.addr
        self.ba   = Signal(max(ref.bb, 1))
        self.rca  = Signal(ref.rca_bits)
        self.row  = Signal(ref.rowbits)
        self.col  = Signal(max(ref.rowbits, ref.colbits + 1))
        slicer = _AddressSlicer(ref.colbits, ref.align)
        self.comb += [
            self.ba.eq(port.get_bank_address(ref.bb, ref.cba)),
            self.rca.eq(port.get_row_column_address(ref.bb, ref.rca_bits, ref.cba)),
            self.row.eq(slicer.row(self.rca)),
            self.col.eq(slicer.col(self.rca)),
        ]

def level_a(ref, addrs, exhaustive):
    dut  = ExprDUT(ref)
    seen = {}
    prev = [None]
    def gen():
        for a in addrs:
            yield dut.addr.eq(a)
            yield
            ba, rca, row, col = (yield dut.ba), (yield dut.rca), (yield dut.row), (yield dut.col)
            rank, bank, rrow, rcol, rrca = ref.decode(a)
            assert ba  == (rank << ref.bankbits | bank), (vars(ref), hex(a), ba)
            assert rca == rrca,                          (vars(ref), hex(a), hex(rca), hex(rrca))
            assert row == rrow,                          (vars(ref), hex(a), row, rrow)
            assert col == ref.dfi_col(rcol),             (vars(ref), hex(a), hex(col))
            if ref.colbits > 10:
                assert (col >> 10) & 1 == 0, "A10 used as a column bit"
            assert col & (2**ref.align - 1) == 0
            assert row < 2**ref.rowbits and col < 2**(ref.colbits + (ref.colbits > 10))
            key = (ba, row, col)
            assert seen.get(key, a) == a, "two addresses hit the same burst: %x %x" % (seen[key], a)
            seen[key] = a
            # Walk order: columns, then banks, then rows (only with default bank alignment).
            if exhaustive and prev[0] is not None and ref.cba == ref.split:
                pba, prow, pcol = prev[0]
                if pcol != ref.dfi_col((2**ref.split - 1) << ref.align):
                    assert (ba, row) == (pba, prow) and col > pcol
                elif pba != 2**ref.bb - 1:
                    assert (ba, row, col) == (pba + 1, prow, 0)
                else:
                    assert (ba, row, col) == (0, prow + 1, 0)
            prev[0] = key
    run_simulation(dut, gen())
    if exhaustive:
        assert len(seen) == 2**ref.aw == 2**(ref.rowbits + ref.bb + ref.split), "not onto"

def run_level_a():
    rng = random.Random(1)
    n = 0
    for align, bankbits, colbits, nranks in itertools.product(range(5), range(1, 5), range(8, 13), (1, 2)):
        data_bytes = 4 * MEMTYPES[align][1]  # dfi_databits=32
        for rowbits, bba in ((2, 0), (13, 0), (3, 2**(colbits + 1)), (14, 2**(colbits + 2)), (13, 0x10000)):
            ref = Ref(align, bankbits, rowbits, colbits, nranks, bba, data_bytes)
            if ref.cba + ref.bb > ref.aw:
                continue  # bank bits pushed out of the port address: not a legal configuration
            if ref.aw <= 11:
                level_a(ref, range(2**ref.aw), True)
            else:
                base  = rng.getrandbits(ref.aw)
                addrs = {rng.getrandbits(ref.aw) for _ in range(200)}
                addrs |= {(base + i) % 2**ref.aw for i in range(64)}
                addrs |= {base ^ (1 << i) for i in range(ref.aw)} | {0, 2**ref.aw - 1}
                level_a(ref, sorted(addrs), False)
            n += 1
    print("level A: %d geometries ok" % n)

# Level B ------------------------------------------------------------------------------------------

class CoreDUT(Module):
    def __init__(self, align, bankbits, rowbits, colbits, nranks, bba, auto_precharge=True):
        memtype, nphases = MEMTYPES[align]
        phy = PhySettings(phytype="check", memtype=memtype, databits=16, dfi_databits=32, nphases=nphases,
            rdphase=0, wrphase=nphases - 1, cl=2, cwl=2, read_latency=4, write_latency=1, nranks=nranks)
        geom   = GeomSettings(bankbits=bankbits, rowbits=rowbits, colbits=colbits)
        timing = TimingSettings(tRP=2, tRCD=2, tWR=2, tWTR=2, tREFI=400, tRFC=4, tFAW=None, tCCD=1,
            tRRD=None, tRC=None, tRAS=None, tZQCS=None)
        settings = ControllerSettings(cmd_buffer_depth=4, with_auto_precharge=auto_precharge,
            bank_byte_alignment=bba)
        self.submodules.controller = LiteDRAMController(phy, geom, timing, 100e6, settings)
        self.submodules.crossbar   = LiteDRAMCrossbar(self.controller.interface)
        self.port = self.crossbar.get_port()
        self.ref  = Ref(align, bankbits, rowbits, colbits, nranks, bba, 4*nphases)
        assert self.controller.interface.address_align == align
        assert self.port.address_width == self.ref.aw, (self.port.address_width, self.ref.aw)

def level_b(cfg, n_access, seed):
    dut = [CoreDUT(**cfg)][0]  # (not a direct closure-variable store: migen's name tracer trips on it)
    ref = dut.ref
    rng = random.Random(seed)
    hot = [rng.getrandbits(ref.aw) for _ in range(3)]
    def pick():
        r = rng.random()
        if r < 0.4:
            return rng.getrandbits(ref.aw)
        if r < 0.7:
            return (rng.choice(hot) + rng.randrange(8)) % 2**ref.aw
        return rng.choice(hot) ^ (1 << rng.randrange(ref.aw))
    accesses = [(pick(), rng.random() < 0.5) for _ in range(n_access)]
    done = {"cmd": False}

    def cmd_gen():
        port = dut.port
        for a, we in accesses:
            yield port.cmd.addr.eq(a)
            yield port.cmd.we.eq(we)
            yield port.cmd.valid.eq(1)
            yield
            while not (yield port.cmd.ready):
                yield
            yield port.cmd.valid.eq(0)
            for _ in range(rng.choice((0, 0, 0, 1, 3))):
                yield
        done["cmd"] = True

    observed  = []  # (rank, bank, row, col, we)
    open_rows = {}
    def monitor():
        yield dut.port.wdata.valid.eq(1)
        yield dut.port.rdata.ready.eq(1)
        idle = 0
        while not (done["cmd"] and len(observed) >= len(accesses)) and idle < 3000:
            idle += 1
            for phase in dut.controller.dfi.phases:
                cs_n = (yield phase.cs_n)
                cmd  = ((yield phase.cas_n), (yield phase.ras_n), (yield phase.we_n))
                if cmd == (1, 1, 1):
                    continue
                ranks = [r for r in range(2**ref.rankbits) if not (cs_n >> r) & 1]
                bank, address = (yield phase.bank), (yield phase.address)
                if cmd == (1, 0, 1):    # activate
                    assert len(ranks) == 1
                    assert (ranks[0], bank) not in open_rows, "activate on an open bank"
                    open_rows[ranks[0], bank] = address
                elif cmd == (1, 0, 0):  # precharge
                    for r, b in list(open_rows):
                        if r in ranks and (b == bank or address & (1 << 10)):  # A10: precharge all
                            del open_rows[r, b]
                elif cmd in [(0, 1, 1), (0, 1, 0)]:  # read / write
                    assert len(ranks) == 1
                    key = (ranks[0], bank)
                    assert key in open_rows, "column access to a closed bank"
                    observed.append((ranks[0], bank, open_rows[key], address & ~(1 << 10), cmd[2] == 0))
                    if address & (1 << 10):
                        del open_rows[key]
                    idle = 0
                elif cmd == (0, 0, 1):  # refresh
                    assert not open_rows, "refresh with open rows"
            yield

    run_simulation(dut, [cmd_gen(), monitor()])
    expected = []
    for a, we in accesses:
        rank, bank, row, col, _ = ref.decode(a)
        expected.append((rank, bank, row, ref.dfi_col(col), we))
    assert len(observed) == len(expected), (cfg, len(observed), len(expected))
    # Per bank the order is preserved; across banks the multiplexer may reorder.
    for rb in {(e[0], e[1]) for e in expected} | {(o[0], o[1]) for o in observed}:
        exp = [e for e in expected if (e[0], e[1]) == rb]
        obs = [o for o in observed if (o[0], o[1]) == rb]
        assert exp == obs, (cfg, rb, exp[:4], obs[:4])

def run_level_b(n_access=80):
    cfgs = [
        dict(align=2, bankbits=3, rowbits=13, colbits=10, nranks=1, bba=0),
        dict(align=3, bankbits=2, rowbits=14, colbits=11, nranks=1, bba=0),
        dict(align=3, bankbits=3, rowbits=13, colbits=12, nranks=2, bba=0),
        dict(align=0, bankbits=1, rowbits=11, colbits=8,  nranks=1, bba=0),
        dict(align=1, bankbits=2, rowbits=12, colbits=9,  nranks=2, bba=0),
        dict(align=4, bankbits=3, rowbits=15, colbits=10, nranks=1, bba=0),
        dict(align=4, bankbits=4, rowbits=13, colbits=12, nranks=1, bba=0),
        dict(align=3, bankbits=2, rowbits=14, colbits=10, nranks=1, bba=0x10000),
        dict(align=2, bankbits=3, rowbits=13, colbits=11, nranks=2, bba=0x8000, auto_precharge=False),
        dict(align=3, bankbits=1, rowbits=13, colbits=12, nranks=1, bba=0x40000),
    ]
    for i, cfg in enumerate(cfgs):
        level_b(cfg, n_access, seed=100 + i)
        print("level B ok:", cfg)

# Level C ------------------------------------------------------------------------------------------

class BankMachineDUT(Module):
    def __init__(self, align, bankbits, rowbits, colbits, nranks, depth, buffered, auto_precharge):
        memtype, nphases = MEMTYPES[align]
        settings = ControllerSettings(cmd_buffer_depth=depth, cmd_buffer_buffered=buffered,
            with_auto_precharge=auto_precharge)
        settings.phy = PhySettings(phytype="check", memtype=memtype, databits=16, dfi_databits=32,
            nphases=nphases, rdphase=0, wrphase=nphases - 1, cl=2, cwl=2, read_latency=4, write_latency=1,
            nranks=nranks)
        settings.geom   = GeomSettings(bankbits=bankbits, rowbits=rowbits, colbits=colbits)
        settings.timing = TimingSettings(tRP=2, tRCD=2, tWR=2, tWTR=2, tREFI=400, tRFC=4, tFAW=None, tCCD=1,
            tRRD=None, tRC=3, tRAS=2, tZQCS=None)
        iface = LiteDRAMInterface(align, settings)
        self.address_width = iface.address_width
        self.submodules.bm = BankMachine(n=1, address_width=iface.address_width, address_align=align,
            nranks=nranks, settings=settings)

def level_c(cfg, n_req, seed):
    dut = [BankMachineDUT(**cfg)][0]
    bm  = dut.bm
    rng = random.Random(seed)
    align, rowbits, colbits = cfg["align"], cfg["rowbits"], cfg["colbits"]
    split = colbits - align
    rows  = [rng.getrandbits(rowbits) for _ in range(3)] + [0, 2**rowbits - 1]
    def pick():
        row = rng.choice(rows) if rng.random() < 0.8 else rng.getrandbits(rowbits)
        return (row << split) | rng.getrandbits(split)
    reqs = [(pick(), rng.random() < 0.5) for _ in range(n_req)]
    state = {"sent": False, "ndone": 0}

    def producer():
        for a, we in reqs:
            yield bm.req.addr.eq(a)
            yield bm.req.we.eq(we)
            yield bm.req.valid.eq(1)
            yield
            while not (yield bm.req.ready):
                yield
            yield bm.req.valid.eq(0)
            for _ in range(rng.choice((0, 0, 0, 2, 9))):
                yield
        state["sent"] = True

    def dfi_col(col):
        return (col & 0x3ff) | ((col >> 10) << 11) if colbits > 10 else col

    def consumer():
        open_row = None
        refresh  = [0]
        idle = 0
        while state["ndone"] < len(reqs):
            idle += 1
            assert idle < 2000, "bank machine stuck"
            # refresh handshake (commands keep being accepted while the request is pending)
            if refresh[0] == 0 and rng.random() < 0.01:
                yield bm.refresh_req.eq(1)
                refresh[0] = 1
            elif refresh[0] == 1 and (yield bm.refresh_gnt):
                open_row   = None
                refresh[0] = 2
            elif refresh[0] >= 2:
                assert not (yield bm.cmd.valid), "command during refresh"
                refresh[0] += 1
                if refresh[0] == 5:
                    yield bm.refresh_req.eq(0)
                    refresh[0] = 0
            ready = rng.random() < 0.6
            yield bm.cmd.ready.eq(ready)
            yield
            if ready and (yield bm.cmd.valid):
                cas, ras, we, a = (yield bm.cmd.cas), (yield bm.cmd.ras), (yield bm.cmd.we), (yield bm.cmd.a)
                assert (yield bm.cmd.ba) == 1
                if (cas, ras, we) == (0, 1, 0):    # activate
                    assert open_row is None, "activate with a row open"
                    open_row = a
                elif (cas, ras, we) == (0, 1, 1):  # precharge
                    open_row = None
                else:
                    assert cas and not ras
                    addr, rwe = reqs[state["ndone"]]
                    assert bool(we) == rwe, (cfg, state["ndone"])
                    assert open_row == addr >> split, (cfg, state["ndone"], open_row, hex(addr))
                    assert a & ~(1 << 10) == dfi_col((addr & (2**split - 1)) << align), (cfg, hex(a), hex(addr))
                    assert (yield bm.req.wdata_ready) == rwe and (yield bm.req.rdata_valid) == (not rwe)
                    if a & (1 << 10):
                        assert cfg["auto_precharge"]
                        open_row = None
                    state["ndone"] += 1
                    idle = 0

    run_simulation(dut, [producer(), consumer()])
    assert state["ndone"] == len(reqs)

def run_level_c(n_req=100):
    rng = random.Random(7)
    n = 0
    for align, colbits in itertools.product(range(5), range(8, 13)):
        for depth, buffered in ((4, False), (8, True), (1, False), (0, False)):
            cfg = dict(align=align, bankbits=rng.choice((1, 2, 3, 4)), rowbits=rng.choice((13, 14, 16)),
                colbits=colbits, nranks=rng.choice((1, 2)), depth=depth, buffered=buffered,
                auto_precharge=rng.random() < 0.6)
            level_c(cfg, n_req, seed=n)
            n += 1
    print("level C: %d bank machine configurations ok" % n)

if __name__ == "__main__":
    if "-b" not in sys.argv:
        run_level_c()
        run_level_a()
    run_level_b()
    print("OK")
