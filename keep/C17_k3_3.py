#!/usr/bin/env python3
# Check for change 3: SDR / DDR / LPDDR / DDR2 mode registers built by one shared, field-checked
# formatter (format_legacy_mr, via reg()) instead of four copies of hand-written shifts and sums.
import os, re, sys, itertools
sys.path.insert(0, os.getcwd())

from migen import log2_int
from litedram import init
from litedram.common import PhySettings, GeomSettings, get_default_cl_cwl
from litedram.init import (get_sdram_phy_init_sequence, get_sdram_phy_c_header,
    get_sdram_phy_py_header, cmds)

assert hasattr(init, "format_legacy_mr"), "change 3 not applied"

MRS = cmds["MODE_REGISTER"]

def mk(memtype, cl, nphases):
    return PhySettings(phytype="GENSDRPHY" if memtype == "SDR" else "S7DDRPHY", memtype=memtype,
        databits=16, dfi_databits=16 if memtype == "SDR" else 32, nphases=nphases, rdphase=0,
        wrphase=min(1, nphases-1), cl=cl, cwl=(cl-1 if memtype == "DDR2" else None),
        read_latency=5, write_latency=0)

# The sequences of the unmodified generator, written out as golden data (name, a, ba, cmd, delay).
def golden(memtype, cl, nphases):
    CKE, PRE, REF = cmds["CKE"], cmds["PRECHARGE_ALL"], cmds["AUTO_REFRESH"]
    bl = nphases if memtype == "SDR" else 4
    mr = log2_int(bl) + (cl << 4) + ((2 << 9) if memtype == "DDR2" else 0)
    n_rst = "Load Mode Register / Reset DLL, CL={0:d}, BL={1:d}".format(cl, bl)
    n_mr  = "Load Mode Register / CL={0:d}, BL={1:d}".format(cl, bl)
    head = [("Bring CKE high", 0, 0, CKE, 20000), ("Precharge All", 0x400, 0, PRE, 0)]
    emrs = {
        "SDR":   [],
        "DDR":   [("Load Extended Mode Register", 0, 1, MRS, 0)],
        "LPDDR": [("Load Extended Mode Register", 0, 2, MRS, 0)],
        "DDR2":  [("Load Extended Mode Register 3", 0, 3, MRS, 0), ("Load Extended Mode Register 2", 0, 2, MRS, 0),
                  ("Load Extended Mode Register", 0, 1, MRS, 0)],
    }[memtype]
    tail = [(n_rst, mr + 0x100, 0, MRS, 200), ("Precharge All", 0x400, 0, PRE, 0),
            ("Auto Refresh", 0, 0, REF, 4), ("Auto Refresh", 0, 0, REF, 4), (n_mr, mr, 0, MRS, 200)]
    if memtype == "DDR2":
        tail += [("Load Extended Mode Register / OCD Default", 7 << 7, 1, MRS, 0),
                 ("Load Extended Mode Register / OCD Exit", 0, 1, MRS, 0)]
    return head + emrs + tail

def parse_c(h):
    body = h[h.index("static inline void init_sequence(void)"):]
    out = []
    for m in re.finditer(r"/\* (.*?) \*/\n\s*sdram_dfii_pi0_address_write\((0x[0-9a-f]+|0)\);\n"
                         r"\s*sdram_dfii_pi0_baddress_write\((\d+)\);\n\s*(\w+)\((.*?)\);\n(?:\s*cdelay\((\d+)\);)?", body):
        c, a, ba, fn, cmd, d = m.groups()
        out.append((c, int(a, 16), int(ba), cmd, int(d) if d else 0))
    return out

geom = GeomSettings(bankbits=2, rowbits=13, colbits=10)

def check(ps):
    memtype, cl, nphases = ps.memtype, ps.cl, ps.nphases
    seq, mr = get_sdram_phy_init_sequence(ps, None)
    assert mr is None
    assert seq == golden(memtype, cl, nphases), (memtype, cl, nphases)
    # JEDEC decode of every base Mode Register write (ba == 0)
    mrws = [a for c, a, ba, cmd, d in seq if cmd == MRS and ba == 0]
    assert len(mrws) == 2 and mrws[0] == mrws[1] | 0x100 and not mrws[1] & 0x100
    for a in mrws:
        assert a < 2**12
        assert 1 << (a & 7) == (nphases if memtype == "SDR" else 4)   # burst length
        assert (a >> 3) & 1 == 0                                       # sequential
        assert (a >> 4) & 7 == cl                                      # CAS latency
        assert (a >> 7) & 1 == 0                                       # no test mode
        if memtype == "DDR2":
            assert ((a >> 9) & 7) + 1 == 3 and (a >> 12) == 0          # WR = 3
        else:
            assert (a >> 9) == 0
    # both renderings describe the same sequence
    assert parse_c(get_sdram_phy_c_header(ps, None, geom)) == seq
    env = {}
    exec(get_sdram_phy_py_header(ps, None), env)
    assert [(c, a, ba, d) for c, a, ba, _, d in env["init_sequence"]] == [(c, a, ba, d) for c, a, ba, _, d in seq]
    for (c, a, ba, cmd, d), e in zip(seq, env["init_sequence"]):
        v = 0
        for t in cmd.split("|"):
            v |= env[t.lower()]
        assert v == e[3]

n = 0
# 1) exhaustive small grid (encodable CL 0..7; supported nphases)
for memtype in ["SDR", "DDR", "LPDDR", "DDR2"]:
    for cl in range(0, 8):
        for nphases in ([1, 2, 4] if memtype == "SDR" else [2, 4]):
            check(mk(memtype, cl, nphases)); n += 1
    # CL that does not fit A6:A4 used to spill silently into A7 (test mode) / A8 (DLL reset): now rejected.
    for cl in range(8, 20):
        try:
            get_sdram_phy_init_sequence(mk(memtype, cl, 2), None)
        except AssertionError:
            pass
        else:
            raise SystemExit("overflowing CL accepted")

# 2) the formatter itself against the original arithmetic, all field values
for bl, cl, wr, rst in itertools.product([1, 2, 4, 8], range(8), range(8), [0, 1]):
    assert init.format_legacy_mr(bl, cl, wr, rst) == log2_int(bl) + (cl << 4) + (wr << 9) + (rst << 8)

# 3) every CL the default tables / PHYs select for these memtypes
for memtype, m in [("SDR", 1), ("DDR2", 2)]:
    for mhz in range(20, 540, 3):
        tck = 1/(mhz*1e6)
        try:
            cl, cwl = get_default_cl_cwl(memtype, tck)
        except ValueError:
            continue
        for nphases in ([1, 2] if memtype == "SDR" else [2, 4]):
            check(mk(memtype, cl, nphases)); n += 1
from litedram.phy.model import get_sdram_phy_settings
for memtype in ["SDR", "DDR", "LPDDR", "DDR2"]:
    for f in [50e6, 75e6, 100e6, 125e6]:
        ps = get_sdram_phy_settings(memtype, 16, f)
        if not isinstance(ps, PhySettings):
            ps = PhySettings(**ps) if isinstance(ps, dict) else ps
        check(ps); n += 1

print("keep_3 OK:", n, "configurations")
