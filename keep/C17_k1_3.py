import os, sys, re, itertools, random, hashlib, inspect
sys.path.insert(0, os.getcwd())

from litedram import init as dut_init
from litedram import common as dut_common
from litedram.common import PhySettings, GeomSettings, TimingSettings
from litedram import modules as dram_modules

FAILS = []
def check(cond, msg):
    if not cond:
        FAILS.append(msg)
        if len(FAILS) <= 20:
            print("FAIL:", msg)

def finish(name, stats):
    print(name, "stats:", stats)
    if FAILS:
        print("%d check(s) failed" % len(FAILS))
        sys.exit(1)
    print("OK")
    sys.exit(0)

def mk_phy(memtype, nphases, cl, cwl, phytype="TESTPHY", databits=16, electrical=None,
           rdimm=None, clam_shell=False, **extra):
    ps = PhySettings(
        phytype       = phytype,
        memtype       = memtype,
        databits      = databits,
        dfi_databits  = 2*databits if memtype != "SDR" else databits,
        nphases       = nphases,
        rdphase       = 0,
        wrphase       = nphases - 1,
        cl            = cl,
        cwl           = cwl,
        read_latency  = 6,
        write_latency = 2,
        cmd_latency   = 0,
        is_clam_shell = clam_shell,
        **extra)
    for k, v in (electrical or {}).items():
        setattr(ps, k, v)
    if rdimm is not None:
        ps.set_rdimm(**rdimm)
    return ps

def mk_timing(tWTR, tWR=None, fine_refresh_mode=None):
    ts = TimingSettings(tRP=2, tRCD=2, tWR=tWR if tWR is not None else 2, tWTR=tWTR, tREFI=700, tRFC=30,
                        tFAW=6, tCCD=1, tRRD=2, tRC=8, tRAS=6, tZQCS=16)
    ts.fine_refresh_mode = fine_refresh_mode
    return ts

def run(fn, *a, **kw):
    """-> ("ok", value) or ("exc", None): any exception means 'configuration rejected'."""
    try:
        return ("ok", fn(*a, **kw))
    except Exception as e:
        return ("exc", type(e).__name__)

# -- header parsing ---------------------------------------------------------------------------------

def parse_py_header(txt):
    env = {}
    exec(txt, env)
    return env["init_sequence"], env

def parse_c_header(txt):
    """Returns the list of (comment, a, ba, cmd_value, delay) executed by init_sequence()."""
    defs = {}
    for m in re.finditer(r"^#define (DFII_\w+)\s+(0x[0-9a-fA-F]+)$", txt, re.M):
        defs[m.group(1)] = int(m.group(2), 16)
    body = txt[txt.index("static inline void init_sequence(void)"):]
    seq = []
    cur = None
    for line in body.split("\n"):
        line = line.strip()
        m = re.match(r"/\* (.*) \*/$", line)
        if m:
            cur = {"comment": m.group(1), "delay": 0}
            seq.append(cur)
            continue
        m = re.match(r"sdram_dfii_pi0_address_write\((0x[0-9a-f]+|0)\);", line)
        if m: cur["a"] = int(m.group(1), 16); continue
        m = re.match(r"sdram_dfii_pi0_baddress_write\((\d+)\);", line)
        if m: cur["ba"] = int(m.group(1)); continue
        m = re.match(r"(?:command_p0|sdram_dfii_control_write)\((.*)\);", line)
        if m:
            v = 0
            for t in m.group(1).split("|"):
                v |= defs[t]
            cur["cmd"] = v
            cur["is_control"] = line.startswith("sdram_dfii_control_write")
            continue
        m = re.match(r"cdelay\((\d+)\);", line)
        if m: cur["delay"] = int(m.group(1)); continue
    return seq, defs

PY_CONSTS = dict(dfii_control_sel=1, dfii_control_cke=2, dfii_control_odt=4, dfii_control_reset_n=8,
                 dfii_command_cs=1, dfii_command_we=2, dfii_command_cas=4, dfii_command_ras=8,
                 dfii_command_wrdata=0x10, dfii_command_rddata=0x20)

def cmd_value(cmd):
    v = 0
    for t in cmd.split("|"):
        v |= PY_CONSTS[t.lower()]
    return v

def check_c_py_same(tag, ps, ts, gs):
    """C and Python renderings describe the same sequence, and both describe init_sequence."""
    c  = dut_init.get_sdram_phy_c_header(ps, ts, gs)
    py = dut_init.get_sdram_phy_py_header(ps, ts)
    seq, mr = dut_init.get_sdram_phy_init_sequence(ps, ts)
    cseq, _ = parse_c_header(c)
    pseq, env = parse_py_header(py)
    check(len(cseq) == len(pseq), "%s: C has %d steps, Python %d" % (tag, len(cseq), len(pseq)))
    for cs, p in zip(cseq, pseq):
        check((cs["comment"], cs["a"], cs["ba"], cs["cmd"], cs["delay"]) == (p[0], p[1], p[2], p[3], p[4]),
              "%s: C step %r != Python step %r" % (tag, cs, p))
    if not ps.is_rdimm:
        check(len(pseq) == len(seq), "%s: py header length" % tag)
        for p, s in zip(pseq, seq):
            check((p[0], p[1], p[2], p[3], p[4]) == (s[0], s[1], s[2], cmd_value(s[3]), s[4]),
                  "%s: Python step %r != sequence step %r" % (tag, p, s))
    return c, py, seq, mr
# keep_3: RDIMM A/B-side expansion moved out of the C and Python emitters into one shared generator.

cmds = dut_init.cmds
A_INV, BA_INV = 0b10101111111000, 0b1111

def swap_bit(num, a, b):
    x = ((num >> a) ^ (num >> b)) & 1
    return num ^ ((x << a) | (x << b))

def configs():
    """Deterministic sweep of configurations: (tag, phy_settings, timing_settings, geom_settings)."""
    gs = GeomSettings(3, 14, 10)
    out = []
    for cl in (2, 3):
        for n in (1,):
            out.append(("SDR cl%d" % cl, mk_phy("SDR", 1, cl, None), mk_timing(2), GeomSettings(2, 13, 9)))
    for mt, cl in (("DDR", 3), ("LPDDR", 3)):
        out.append((mt, mk_phy(mt, 2, cl, None), mk_timing(2), gs))
    for cl, cwl in ((3, 2), (4, 3), (5, 4), (6, 5), (7, 5)):
        out.append(("DDR2 %d/%d" % (cl, cwl), mk_phy("DDR2", 2, cl, cwl), mk_timing(2), gs))
    for (cl, cwl), nphases, tWTR in itertools.product(((5, 6), (6, 5), (7, 6), (10, 7), (11, 8), (13, 9)), (2, 4), (1, 2, 3, 4)):
        if max(tWTR*nphases, 5) not in (5, 6, 7, 8, 10, 12, 14, 16): continue
        for el in ({}, {"rtt_nom": "40ohm", "rtt_wr": "120ohm", "ron": "40ohm"}, {"rtt_nom": "disabled", "tdqs": 1}):
            out.append(("DDR3 %d/%d n%d wtr%d %r" % (cl, cwl, nphases, tWTR, el),
                        mk_phy("DDR3", nphases, cl, cwl, electrical=el, write_leveling=True, read_leveling=True, delays=32, bitslips=8),
                        mk_timing(tWTR), gs))
    rdimms = [None]
    for tck in (2/1333e6, 2/1600e6, 2/2133e6, 2/2400e6, 2/3200e6, 1.1e-9):
        for byp in (False, True):
            rdimms.append(dict(tck=tck, rcd_pll_bypass=byp, rcd_ca_cs_drive=0x5, rcd_odt_cke_drive=0x5, rcd_clk_drive=0xa))
    rdimms.append(dict(tck=2/1600e6, rcd_pll_bypass=False, rcd_ca_cs_drive=0x0, rcd_odt_cke_drive=0xf, rcd_clk_drive=0x3))
    for (cl, cwl), tWTR, frm, rd, clam in itertools.product(((9, 9), (11, 9), (13, 10), (15, 11), (16, 12), (18, 14), (24, 20), (32, 18)),
                                                            (1, 3, 4, 5, 6, 7), ("1x", "2x", "4x"), rdimms, (False, True)):
        for el in ({}, {"rtt_nom": "34ohm", "rtt_wr": "80ohm", "ron": "48ohm"}):
            if (frm != "1x" or el) and (cl, cwl) not in ((9, 9), (16, 12)): continue
            out.append(("DDR4 %d/%d wtr%d %s rdimm=%r clam=%r %r" % (cl, cwl, tWTR, frm, rd, clam, el),
                        mk_phy("DDR4", 4, cl, cwl, electrical=el, rdimm=rd, clam_shell=clam, databits=64, write_leveling=True,
                               write_latency_calibration=True, read_leveling=True, delays=512, bitslips=8),
                        mk_timing(tWTR, fine_refresh_mode=frm), GeomSettings(4, 15, 10)))
    for cl, cwl in ((6, 4), (10, 6), (14, 8), (20, 10), (24, 12), (28, 14), (32, 16), (36, 18)):
        for el in ({}, {"dq_odt": "RZQ/6", "ca_odt": "disable", "pull_down_drive_strength": "RZQ/4", "vref_ca_range": 0, "vref_ca": 20.4, "vref_dq": 42.0}):
            out.append(("LPDDR4 %d/%d %r" % (cl, cwl, el), mk_phy("LPDDR4", 8, cl, cwl, electrical=el), mk_timing(2), GeomSettings(3, 15, 10)))
    from litedram.phy.lpddr5.basephy import FREQUENCY_RANGES
    for ratio, frs in FREQUENCY_RANGES.items():
        for fr in frs:
            fr = fr.for_set(wl_set="A", rl_set=0)
            for el in ({}, {"dq_odt": "RZQ/3", "soc_odt": "RZQ/4", "wck_odt": "RZQ/1", "vref_ca": 50.0, "vref_dq": 21.5}):
                out.append(("LPDDR5 r%d %d/%d %r" % (ratio, fr.rl, fr.wl, el),
                            mk_phy("LPDDR5", 1, fr.rl, fr.wl, electrical=dict(el, wck_ck_ratio=ratio)), mk_timing(2), GeomSettings(4, 15, 10)))
    for cl in (9, 11, 12, 14, 4):
        out.append(("RPC %d" % cl, mk_phy("RPC", 4, cl, cl), mk_timing(2), GeomSettings(2, 12, 10)))
    return out

def digest(*txt):
    h = hashlib.sha256()
    for t in txt:
        h.update(t.encode()); h.update(b"\0")
    return h.hexdigest()

def render(ps, ts, gs):
    return run(lambda: (dut_init.get_sdram_phy_c_header(ps, ts, gs), dut_init.get_sdram_phy_py_header(ps, ts)))

if "--gen" in sys.argv:
    # Run on the UNMODIFIED tree: prints the golden digest of all renderings.
    h = hashlib.sha256()
    n = 0
    for tag, ps, ts, gs in configs():
        r = render(ps, ts, gs)
        h.update((tag + "\0" + (digest(*r[1]) if r[0] == "ok" else "exc")).encode())
        n += 1
    print("GOLDEN = (%d, %r)" % (n, h.hexdigest()))
    sys.exit(0)

# Digest of the C + Python renderings of the whole sweep, produced by `keep_3.py --gen` on the unmodified tree.
GOLDEN = (3234, '75312892e7c20bfa3f254532536c8c08add2bd42328663a8f01d79f2972c44de')

stats = dict(configs=0, rendered=0, rdimm=0, clam=0, same=0)
h = hashlib.sha256()
for tag, ps, ts, gs in configs():
    stats["configs"] += 1
    r = render(ps, ts, gs)
    h.update((tag + "\0" + (digest(*r[1]) if r[0] == "ok" else "exc")).encode())
    s = run(dut_init.get_sdram_phy_init_sequence, ps, ts)
    check((r[0] == "ok") == (s[0] == "ok"), "%s: renderings %s but sequence %s" % (tag, r, s[0]))
    if r[0] != "ok":
        continue
    stats["rendered"] += 1
    c, py = r[1]
    seq, mr = s[1]
    cseq, defs = parse_c_header(c)
    pseq, env = parse_py_header(py)

    # expected list of issued commands, computed independently from the raw sequence
    exp = []
    for comment, a, ba, cmd, delay in seq:
        exp.append((comment, a, ba, cmd_value(cmd), delay))
        if ps.is_rdimm and ba != 7:
            exp.append((comment, a ^ A_INV, ba ^ BA_INV, cmd_value(cmd), delay))
    check([tuple(p) for p in pseq] == exp, "%s: Python rendering is not the issued sequence" % tag)
    if ps.is_rdimm:
        stats["rdimm"] += 1
        # every DRAM mode register is programmed on both sides, RCD control words (ba 7) once; B-side decodes to the same MR after the RCD inversion
        for ma in range(7):
            w = [p for p in pseq if p[3] == cmd_value(cmds["MODE_REGISTER"]) and p[2] in (ma, ma ^ BA_INV) and p[0].startswith("Load Mode Register")]
            check(len(w) == 2 and w[0][2] == ma and w[1][2] == (ma ^ 0xf) and (w[1][1] ^ A_INV) == w[0][1], "%s: MR%d A/B side %r" % (tag, ma, w))
        check(len([p for p in pseq if p[2] == 7]) == 8, "%s: RCD words" % tag)
    if not ps.is_clam_shell:
        check([(x["comment"], x["a"], x["ba"], x["cmd"], x["delay"]) for x in cseq] == exp, "%s: C rendering is not the issued sequence" % tag)
        check(all(x["is_control"] == e_cmd.startswith("DFII_CONTROL") for x, e_cmd in zip(cseq, [q[3] for q in seq])) or ps.is_rdimm, "%s: control/command" % tag)
        stats["same"] += 1
    else:
        stats["clam"] += 1
        top, bot = defs["DFII_COMMAND_CS_TOP"], defs["DFII_COMMAND_CS_BOTTOM"]
        expc = []
        for comment, a, ba, cmd, delay in exp:
            if cmd == cmd_value(cmds["MODE_REGISTER"]):
                expc.append((comment + " for top", a, ba, cmd | top, delay))
                a2 = a
                for x, y in ((3, 4), (5, 6), (7, 8), (11, 13)):
                    a2 = swap_bit(a2, x, y)
                expc.append((comment + " for bottom", a2, swap_bit(ba, 0, 1), cmd | bot, delay))
            else:
                expc.append((comment, a, ba, cmd, delay))
        check([(x["comment"], x["a"], x["ba"], x["cmd"], x["delay"]) for x in cseq] == expc, "%s: C clam-shell rendering" % tag)
    # write-leveling defines agree with the sequence
    if ps.memtype in ("DDR3", "DDR4"):
        check(env["ddrx_mr1"] == mr[1] and ("#define DDRX_MR_WRLVL_RESET %d\n" % mr[1]) in c, "%s: MR1 reset value" % tag)
        check([q[1] for q in seq if q[2] == 1 and q[3] == cmds["MODE_REGISTER"]] == [mr[1]], "%s: mr[1] is the programmed MR1" % tag)

check(stats["configs"] == GOLDEN[0], "sweep size %d != %d" % (stats["configs"], GOLDEN[0]))
check(h.hexdigest() == GOLDEN[1], "renderings differ from the unmodified tree (digest %s)" % h.hexdigest())

# golden files of the test-suite: reconstruct the settings of the three boards and compare byte for byte
def golden(fn):
    return open(os.path.join("test", "reference", fn)).read()
kc705 = PhySettings(phytype="K7DDRPHY", memtype="DDR3", databits=64, dfi_databits=128, nphases=4, rdphase=1, wrphase=2, cl=7, cwl=6,
                    read_latency=8, write_latency=1, cmd_latency=0, write_leveling=True, write_dq_dqs_training=True,
                    write_latency_calibration=True, read_leveling=True, delays=32, bitslips=8)
check(dut_init.get_sdram_phy_c_header(kc705, mk_timing(2), GeomSettings(3, 14, 10)) == golden("ddr3_init.h"), "ddr3_init.h")
check(dut_init.get_sdram_phy_py_header(kc705, mk_timing(2)) == golden("ddr3_init.py"), "ddr3_init.py")
for fn, kind in (("ddr4_init", "DDR4"), ("sdr_init", "SDR")):
    # these two are compared on the init_sequence() body / list (the board settings are not all recoverable from the header)
    g_c, _ = parse_c_header(golden(fn + ".h"))
    g_py, _ = parse_py_header(golden(fn + ".py"))
    if kind == "DDR4":
        ps, ts = mk_phy("DDR4", 4, 9, 9, databits=64), mk_timing(2, fine_refresh_mode="1x")
    else:
        ps, ts = mk_phy("SDR", 1, 2, None), mk_timing(2)
    c, _ = parse_c_header(dut_init.get_sdram_phy_c_header(ps, ts, GeomSettings(2, 13, 9)))
    p, _ = parse_py_header(dut_init.get_sdram_phy_py_header(ps, ts))
    check(c == g_c, "%s.h init_sequence body: %r" % (fn, [x for x in zip(c, g_c) if x[0] != x[1]][:2]))
    check([tuple(x) for x in p] == [tuple(x) for x in g_py], "%s.py init_sequence" % fn)

finish("keep_3", stats)
