#!/usr/bin/env python3
# Check for keep_3 (multiplexer: reads are additionally gated with twtrcon.ready in the READ state).
#
# Part 1: the real LiteDRAMController with randomised traffic (frequent direction changes: short
#   read_time/write_time, refreshes every ~100 cycles so that WRITE -> REFRESH -> READ happens all the time)
#   for SDR/DDR/DDR2/DDR3/DDR4 library modules at several clocks, rates and phase alignments. Every command on
#   the DFI bus (time = sys_cycle*nphases + phase) is checked against the spacings computed from the module's
#   datasheet numbers (tWTR and tCCD in particular, but also tRCD/tRP/tRAS/tRC/tRRD/tFAW/tWR/tRFC/tZQCS).
#   It is also reported how often the new gate actually held a read back (expected: never for library
#   modules, the condition is purely defensive there).
# Part 2: same check with synthetic datasheet entries whose tWTR is far longer than tWR + tRP + tRFC, so that
#   the refresh sequence no longer hides the write-to-read turnaround: here the new gate must do the work
#   (it is checked that it does hold reads back) and tWTR must still be met on the bus.
#
# exit 0 = everything holds.

import os
import sys
import math
import random

sys.path.insert(0, os.getcwd())

from migen import *

from litedram import modules as M
from litedram.modules import _TechnologyTimings, _SpeedgradeTimings
from litedram.common import PhySettings, burst_lengths
from litedram.core.controller import LiteDRAMController, ControllerSettings

# Datasheet requirement table (DRAM clocks) --------------------------------------------------------

def requirements(module, nphases, cwl, memtype):
    tck = 1e9/(module.clk_freq*nphases)
    def ck(t):
        if t is None:
            return None
        return max(t.ck, math.ceil(t.ns/tck - 1e-6))
    def g(name):
        if name == "tRFC" and memtype == "DDR4":
            return module.get(name, module.timing_settings.fine_refresh_mode)
        return module.get(name)
    r = {name: ck(g(name)) for name in ["tRP", "tRCD", "tWR", "tWTR", "tRFC", "tFAW", "tCCD", "tRRD", "tRAS", "tZQCS"]}
    r["tRC"] = None if g("tRAS") is None else ck(g("tRAS") + g("tRP"))
    if memtype == "SDR":
        r["wburst"] = 0 + 1               # write data on the command edge, single beat
    else:
        r["wburst"] = cwl + burst_lengths[memtype]//2
    return r

# DFI monitor / checker ----------------------------------------------------------------------------

class Checker:
    def __init__(self, req, nbanks, tag):
        self.r      = req
        self.tag    = tag
        self.nbanks = nbanks
        self.errors = []
        self.open     = [False]*nbanks
        self.last_act = [None]*nbanks
        self.last_wr  = [None]*nbanks
        self.pre_eff  = [None]*nbanks
        self.acts     = []
        self.last_cas    = None
        self.last_wr_any = None
        self.last_ref    = None
        self.last_zq     = None
        self.counts = dict(ACT=0, PRE=0, PREA=0, RD=0, WR=0, RDA=0, WRA=0, REF=0, ZQCS=0)
        self.slack  = {}
        self.rd_held = 0   # cycles (after start-up) in which the new tWTR gate held a read back in READ
        self.nphases = 1
        self.ref_to_act_sys = None   # minimum REF -> ACT distance seen, in controller cycles

    def err(self, T, msg):
        self.errors.append("%s: T=%d %s" % (self.tag, T, msg))

    def gap(self, T, since, need, name):
        if since is None or need is None:
            return
        d = T - since
        s = d - need
        if name not in self.slack or s < self.slack[name]:
            self.slack[name] = s
        if d < need:
            self.err(T, "%s violated: %d < %d" % (name, d, need))

    def common(self, T):
        self.gap(T, self.last_ref, self.r["tRFC"],  "tRFC")
        self.gap(T, self.last_zq,  self.r["tZQCS"], "tZQCS")

    def cmd(self, T, kind, bank, a10):
        r = self.r
        self.common(T)
        if kind == "ACT":
            self.counts["ACT"] += 1
            if self.open[bank]:
                self.err(T, "ACT to open bank %d" % bank)
            self.gap(T, self.pre_eff[bank],  r["tRP"], "tRP")
            if self.last_ref is not None:
                d = T//self.nphases - self.last_ref//self.nphases
                if self.ref_to_act_sys is None or d < self.ref_to_act_sys:
                    self.ref_to_act_sys = d
            self.gap(T, self.last_act[bank], r["tRC"], "tRC")
            if self.acts:
                self.gap(T, self.acts[-1], r["tRRD"], "tRRD")
            if len(self.acts) >= 4:
                self.gap(T, self.acts[-4], r["tFAW"], "tFAW")
            self.acts.append(T)
            self.acts = self.acts[-4:]
            self.open[bank]     = True
            self.last_act[bank] = T
            self.last_wr[bank]  = None
        elif kind in ["RD", "WR"]:
            self.counts[kind + ("A" if a10 else "")] += 1
            if not self.open[bank]:
                self.err(T, "%s to closed bank %d" % (kind, bank))
            self.gap(T, self.last_act[bank], r["tRCD"], "tRCD")
            self.gap(T, self.last_cas,       r["tCCD"], "tCCD")
            if kind == "RD":
                self.gap(T, self.last_wr_any, r["wburst"] + r["tWTR"], "tWTR")
            else:
                self.last_wr_any   = T
                self.last_wr[bank] = T
            self.last_cas = T
            if a10:
                pe = T
                if self.last_wr[bank] is not None:
                    pe = max(pe, self.last_wr[bank] + r["wburst"] + r["tWR"])
                if r["tRAS"] is not None and self.last_act[bank] is not None:
                    pe = max(pe, self.last_act[bank] + r["tRAS"])
                self.pre_eff[bank] = pe
                self.open[bank]    = False
        elif kind == "PRE":
            self.counts["PREA" if a10 else "PRE"] += 1
            banks = range(self.nbanks) if a10 else [bank]
            for b in banks:
                if self.open[b]:
                    self.gap(T, self.last_act[b], r["tRAS"], "tRAS")
                    self.gap(T, self.last_wr[b],  r["wburst"] + r["tWR"], "tWR")
                    self.open[b]    = False
                    self.pre_eff[b] = T
                elif self.pre_eff[b] is not None and self.pre_eff[b] > T:
                    # Auto-precharge still pending in this bank: an explicit precharge must not cut it short.
                    self.err(T, "PRE while auto-precharge of bank %d pending" % b)
        elif kind in ["REF", "ZQCS"]:
            self.counts[kind] += 1
            for b in range(self.nbanks):
                if self.open[b]:
                    self.err(T, "%s with bank %d open" % (kind, b))
                self.gap(T, self.pre_eff[b], r["tRP"], "tRP(" + kind + ")")
            if kind == "REF":
                self.last_ref = T
            else:
                self.last_zq = T
        else:
            self.err(T, "unexpected command " + kind)

DECODE = {
    (0, 1, 1): "ACT",
    (0, 1, 0): "PRE",
    (0, 0, 1): "REF",
    (1, 0, 1): "RD",
    (1, 0, 0): "WR",
    (1, 1, 0): "ZQCS",
    (0, 0, 0): "MRS",
}

# Simulation ---------------------------------------------------------------------------------------

def phy_settings_for(memtype, nphases, cl, cwl, rdphase, wrphase):
    return PhySettings(
        phytype       = "SIM",
        memtype       = memtype,
        databits      = 16,
        dfi_databits  = 16 if memtype == "SDR" else 32,
        nphases       = nphases,
        rdphase       = rdphase,
        wrphase       = wrphase,
        cl            = cl,
        cwl           = cwl,
        read_latency  = math.ceil(cl/nphases) + 4,
        write_latency = math.ceil(cwl/nphases))

def run_one(modname, clk_freq, rate, speedgrade, cl, cwl, rdphase, wrphase, seed, cycles,
            auto_precharge=True, buffered=False, trefi=None, postponing=1, mode="mixed"):
    cls     = getattr(M, modname, None) or globals()[modname]
    nphases = int(rate.split(":")[1])
    module  = cls(clk_freq, rate, speedgrade=speedgrade)
    memtype = module.memtype
    tag = "%s@%gMHz %s sg=%s rd/wr=%d/%d ap=%d seed=%d mode=%s" % (
        modname, clk_freq/1e6, rate, speedgrade, rdphase, wrphase, auto_precharge, seed, mode)

    timing = module.timing_settings
    # Refresh (and ZQCS) far more often than in reality, to get many activate-then-refresh races. tREFI is
    # a maximum, so shortening it never relaxes anything.
    timing.tREFI = trefi if trefi is not None else 100 + 8*(seed % 7)
    cs = ControllerSettings(
        cmd_buffer_depth    = 4,
        cmd_buffer_buffered = buffered,
        read_time           = 12,
        write_time          = 8,
        with_auto_precharge = auto_precharge,
        refresh_zqcs_freq   = clk_freq/(3*timing.tREFI + 17),
        refresh_postponing  = postponing)
    dut = LiteDRAMController(
        phy_settings        = phy_settings_for(memtype, nphases, cl, cwl, rdphase, wrphase),
        geom_settings       = module.geom_settings,
        timing_settings     = timing,
        clk_freq            = clk_freq,
        controller_settings = cs)

    nbanks  = 2**module.geom_settings.bankbits
    req     = requirements(module, nphases, cwl, memtype)
    checker = Checker(req, nbanks, tag)
    checker.nphases  = nphases
    checker.trfc_sys = timing.tRFC
    prng    = random.Random(seed)
    banks   = [getattr(dut.interface, "bank%d" % n) for n in range(nbanks)]
    colbits = module.geom_settings.colbits
    align   = int(math.log2(burst_lengths[memtype] if memtype != "SDR" else nphases))
    split   = colbits - align

    # Flattened observation signals: one simulator read per cycle instead of one per wire.
    top = Module()
    top.submodules.dut = dut
    readys = Signal(nbanks)
    top.comb += readys.eq(Cat(*[b.ready for b in banks]))
    abits  = module.geom_settings.addressbits
    bbits  = module.geom_settings.bankbits
    pw     = 4 + bbits + 1
    flat   = Signal(pw*nphases)
    # A read request is presented in the READ state but held back by the tWTR gate.
    mux     = dut.multiplexer
    rd_held = Signal()
    top.comb += rd_held.eq(mux.fsm.ongoing("READ") & mux.choose_req.cmd.valid & mux.choose_req.cmd.is_read &
        ~mux.twtrcon.ready)
    top.comb += flat.eq(Cat(*[Cat(ph.cs_n[0], ph.ras_n, ph.cas_n, ph.we_n, ph.bank[:bbits], ph.address[10])
        for ph in dut.dfi.phases]))

    def new_request(n, state):
        # row pool of 3 rows per bank: row hits, conflicts and re-opens all happen
        if mode == "conflict":
            row = prng.randrange(4)
        elif mode == "hits":
            row = state["row"] if prng.random() < 0.9 else prng.randrange(3)
        else:
            row = state["row"] if prng.random() < 0.6 else prng.randrange(3)
        state["row"] = row
        if prng.random() < 0.25:
            state["we"] = prng.randrange(2)
        col = prng.randrange(2**split)
        return (row << split) | col, state["we"]

    def traffic():
        states = [dict(row=0, we=prng.randrange(2), idle=prng.randrange(20), valid=0) for _ in range(nbanks)]
        # global activity phases, so that banks go idle / busy together from time to time
        quiet = 0
        for cyc in range(cycles):
            if quiet == 0 and prng.random() < 0.004:
                quiet = prng.randrange(10, 120)
            if quiet:
                quiet -= 1
            rdy = (yield readys)
            for n, (b, s) in enumerate(zip(banks, states)):
                if s["valid"]:
                    if (rdy >> n) & 1:
                        s["valid"] = 0
                        yield b.valid.eq(0)
                        s["idle"] = 0 if prng.random() < 0.7 else prng.randrange(1, 40)
                    else:
                        continue
                if not s["valid"]:
                    if s["idle"] > 0:
                        s["idle"] -= 1
                    elif not quiet:
                        addr, we = new_request(n, s)
                        yield b.addr.eq(addr)
                        yield b.we.eq(we)
                        yield b.valid.eq(1)
                        s["valid"] = 1
            yield

    @passive
    def monitor():
        cyc = 0
        while True:
            v = (yield flat)
            if cyc > 100 and (yield rd_held):
                checker.rd_held += 1
            for p in range(nphases):
                w = (v >> (p*pw)) & (2**pw - 1)
                if w & 1:
                    continue
                key = ((w >> 1) & 1, (w >> 2) & 1, (w >> 3) & 1)
                if key == (1, 1, 1):
                    continue
                kind = DECODE[key]
                bank = (w >> 4) & (2**bbits - 1)
                a10  = (w >> (4 + bbits)) & 1
                checker.cmd(cyc*nphases + p, kind, bank, a10)
            yield
            cyc += 1

    run_simulation(top, [traffic(), monitor()])
    return checker


# Synthetic modules (part 2) -----------------------------------------------------------------------

class LongWTR_DDR3(M.DDR3Module):
    nbanks = 8
    nrows  = 16384
    ncols  = 1024
    technology_timings = _TechnologyTimings(tREFI=64e6/8192, tWTR=(4, 450), tCCD=(4, None), tRRD=(4, 10), tZQCS=(64, 80))
    speedgrade_timings = {"default": _SpeedgradeTimings(tRP=13.75, tRCD=13.75, tWR=15, tRFC=(None, 110), tFAW=(None, 40), tRAS=35)}

class LongWTR_SDR(M.SDRModule):
    nbanks = 4
    nrows  = 8192
    ncols  = 512
    technology_timings = _TechnologyTimings(tREFI=64e6/8192, tWTR=(2, 300), tCCD=(1, None), tRRD=(None, 15))
    speedgrade_timings = {"default": _SpeedgradeTimings(tRP=20, tRCD=20, tWR=15, tRFC=(None, 66), tFAW=None, tRAS=44)}

class LongWTR_DDR2(M.DDR2Module):
    nbanks = 8
    nrows  = 8192
    ncols  = 1024
    technology_timings = _TechnologyTimings(tREFI=64e6/8192, tWTR=(None, 400), tCCD=(2, None), tRRD=None)
    speedgrade_timings = {"default": _SpeedgradeTimings(tRP=15, tRCD=15, tWR=15, tRFC=(None, 127.5), tFAW=None, tRAS=None)}

# Runs ---------------------------------------------------------------------------------------------

def work(cfg):
    c = run_one(**cfg)
    return dict(tag=c.tag, errors=c.errors, counts=c.counts, slack=c.slack, rd_held=c.rd_held)

def main():
    import multiprocessing
    quick  = "--quick" in sys.argv
    cycles = 1500 if quick else 3500
    library = [
        # (module, clk_freq, rate, speedgrade, cl, cwl)
        ("MT48LC16M16",  100e6, "1:1", None,   2, 2),
        ("IS42S32800J6", 133e6, "1:1", None,   3, 3),
        ("MT46V32M16",   100e6, "1:2", None,   3, 1),
        ("MT47H64M16",   125e6, "1:2", None,   4, 3),
        ("MT41K128M16",  100e6, "1:4", "800",  6, 5),
        ("MT41K256M16",  200e6, "1:4", "1600", 11, 8),
        ("MT41J256M16",  125e6, "1:2", "1066", 5, 5),
        ("MT41K64M16",    50e6, "1:4", "800",  5, 5),
        ("MT40A1G8",     200e6, "1:4", "2400", 11, 9),
        ("MT40A512M16",  150e6, "1:4", "2400", 9, 9),
    ]
    synthetic = [
        ("LongWTR_DDR3", 100e6, "1:4", None, 6, 5),
        ("LongWTR_DDR3", 125e6, "1:2", None, 5, 5),
        ("LongWTR_SDR",  100e6, "1:1", None, 2, 2),
        ("LongWTR_DDR2", 125e6, "1:2", None, 4, 3),
    ]
    prng = random.Random(4321)
    cfgs = []
    for part, base in [(1, library), (2, synthetic)]:
        for i, (mod, f, rate, sg, cl, cwl) in enumerate(base):
            nph = int(rate.split(":")[1])
            for k in range(1 if (quick and part == 1) else 2):
                cfgs.append((part, dict(modname=mod, clk_freq=f, rate=rate, speedgrade=sg, cl=cl, cwl=cwl,
                    rdphase=prng.randrange(nph), wrphase=prng.randrange(nph),
                    seed=3000*part + 10*i + k, cycles=cycles,
                    auto_precharge=(k == 0), buffered=(k == 1), mode=["mixed", "hits"][k])))
    with multiprocessing.Pool(int(os.environ.get("KEEP_JOBS", "6"))) as pool:
        results = pool.map(work, [c for _, c in cfgs], chunksize=1)
    bad   = 0
    slack = {1: {}, 2: {}}
    held  = {1: 0, 2: 0}
    for (part, _), c in zip(cfgs, results):
        for k, v in c["slack"].items():
            slack[part][k] = min(slack[part].get(k, v), v)
        held[part] += c["rd_held"]
        print("part %d %-72s %s %s read-held-cycles=%d" % (part, c["tag"], "FAIL" if c["errors"] else "ok  ",
            " ".join("%s=%d" % kv for kv in sorted(c["counts"].items())), c["rd_held"]))
        for e in c["errors"][:10]:
            print("   ", e)
        bad += len(c["errors"])
        if c["counts"]["RD"] + c["counts"]["RDA"] < 30 or c["counts"]["WR"] + c["counts"]["WRA"] < 30 or c["counts"]["REF"] < 5:
            print("    not enough activity")
            bad += 1
    for part in [1, 2]:
        print("part %d minimum slack (DRAM clocks) per rule:" % part, dict(sorted(slack[part].items())))
        if "tWTR" not in slack[part]:
            print("tWTR never exercised in part %d" % part)
            bad += 1
    print("cycles in which the tWTR gate held a read back in READ: library modules %d, synthetic long-tWTR %d" % (
        held[1], held[2]))
    if held[2] == 0:
        print("the new gate was never exercised by the long-tWTR configurations")
        bad += 1
    print("FAIL" if bad else "PASS")
    sys.exit(1 if bad else 0)

if __name__ == "__main__":
    main()
