import os, sys, random
sys.path.insert(0, os.getcwd())

from migen import *

from litex.soc.interconnect.axi import BURST_FIXED, BURST_INCR, BURST_WRAP, RESP_OKAY

from litedram.common import LiteDRAMNativePort
from litedram.frontend.axi import LiteDRAMAXIPort, LiteDRAMAXI2Native

# --------------------------------------------------------------------------------------------------
# Generic AXI <-> native testbench for LiteDRAMAXI2Native (property C09).
#
# One synchronous testbench process plays:
#  - an AXI4 master on the five channels (random FIXED/INCR/WRAP bursts, random IDs/strobes/sizes,
#    independent random valid/ready stalls on every channel),
#  - the native port's slave side: in-order command queue with random cmd.ready, write data pulled
#    with random wdata.ready, read data returned with random latency and *no* back-pressure
#    (rdata.valid is a one cycle pulse: not being ready for it is an error, like on the real crossbar).
# and checks, against a reference memory updated in AXI order:
#  - B: exactly one response per write burst, in order, with the burst's ID, resp OKAY and strictly
#    after the last data word of the burst has been handed to the native wdata channel,
#  - R: right number of beats, data, ID, LAST, resp, in request order,
#  - read issued after the B of a write to the same address sees the written data,
#  - native side: no write data without an accepted command, no read data dropped, command stable
#    while stalled (optional), full byte enables in read-modify-write mode,
#  - final memory image == reference image (only addressed bytes under their strobes were changed).
# --------------------------------------------------------------------------------------------------

class TBError(Exception): pass


def burst_beats(addr, btype, blen, size, nbytes):
    """AXI4 spec beat addresses -> [(byte_addr, lane_lo, lane_hi)] (lanes within the data bus)."""
    sz = 1 << size
    r  = []
    aligned = (addr // sz) * sz
    total   = sz * (blen + 1)
    for n in range(blen + 1):
        if btype == BURST_FIXED:
            a = addr
        elif btype == BURST_INCR:
            a = addr if n == 0 else aligned + n*sz
        else:
            assert addr == aligned
            lower = (addr // total) * total
            a = addr + n*sz
            if a >= lower + total:
                a -= total
        lo = a % nbytes
        hi = ((a // sz) * sz + sz - 1) % nbytes
        assert hi >= lo
        r.append((a, lo, hi))
    return r


class Profile:
    """Probabilities (0..1) of being *active* in a cycle, per channel."""
    names = ["aw", "w", "b", "ar", "r", "cmd", "wdata", "rdata"]
    def __init__(self, prng, fixed=None):
        choices = [1.0, 1.0, 0.9, 0.6, 0.3, 0.1]
        for n in self.names:
            setattr(self, n, prng.choice(choices))
        if fixed:
            for k, v in fixed.items():
                setattr(self, k, v)
    def __repr__(self):
        return " ".join("%s=%.1f" % (n, getattr(self, n)) for n in self.names)


class TB:
    def __init__(self, seed, data_width=32, address_width=32, id_width=4, w_depth=4, r_depth=4, base_address=0,
                 rmw=False, ntrans=60, mem_words=64, profile=None, wdata_loose=False, max_wr_outstanding=None,
                 max_len=20, w_may_lead=True, check_cmd_stable=False, b_stall_bursts=False, single_beat_bias=0.3):
        self.prng   = prng = random.Random(seed)
        self.seed   = seed
        self.dw     = data_width
        self.nbytes = data_width // 8
        self.full   = (1 << self.nbytes) - 1
        self.base   = base_address
        self.rmw    = rmw
        self.ntrans = ntrans
        self.mem_words = mem_words
        self.profile = profile or Profile(prng)
        self.wdata_loose = wdata_loose
        self.max_wr_outstanding = max_wr_outstanding if max_wr_outstanding is not None else min(w_depth, r_depth, 16)
        self.max_len = max_len
        self.w_may_lead = w_may_lead and not rmw
        self.check_cmd_stable = check_cmd_stable and not rmw
        self.b_stall_bursts = b_stall_bursts
        self.single_beat_bias = single_beat_bias
        self.id_width = id_width

        self.axi  = LiteDRAMAXIPort(data_width=data_width, address_width=address_width, id_width=id_width)
        self.port = LiteDRAMNativePort("both", address_width=address_width - log2_int(self.nbytes), data_width=data_width)
        self.dut  = LiteDRAMAXI2Native(self.axi, self.port, w_buffer_depth=w_depth, r_buffer_depth=r_depth,
                                       base_address=base_address, with_read_modify_write=rmw)

        self.ref = [prng.getrandbits(data_width) for _ in range(mem_words)]  # reference (AXI order).
        self.mem = list(self.ref)                                             # behind the native port.
        self.cycles = 0
        self.stats  = dict(writes=0, reads=0, wbeats=0, rbeats=0, rmw_beats=0, cycles=0)

    # ---------------------------------------------------------------------------------------------
    def _new_burst(self, for_write):
        prng, nbytes = self.prng, self.nbytes
        fullsize = log2_int(nbytes)
        for _ in range(20):
            btype = prng.choice([BURST_FIXED, BURST_INCR, BURST_INCR, BURST_WRAP])
            size  = fullsize if prng.random() < 0.7 else prng.randrange(fullsize + 1)
            sz    = 1 << size
            if btype == BURST_WRAP:
                blen = prng.choice([1, 3, 7, 15])
            elif btype == BURST_FIXED:
                blen = prng.randrange(0, 16)
            else:
                blen = prng.randrange(0, self.max_len + 1)
            if prng.random() < self.single_beat_bias:
                blen = 0 if btype != BURST_WRAP else 1
            span_words = ((blen + 1) * sz + nbytes - 1) // nbytes + 1
            if span_words >= self.mem_words:
                continue
            if btype == BURST_WRAP:
                total = sz * (blen + 1)
                lower = prng.randrange(0, (self.mem_words * nbytes) // total) * total
                addr  = lower + prng.randrange(blen + 1) * sz
            else:
                w0   = prng.randrange(0, self.mem_words - span_words)
                addr = w0 * nbytes + prng.randrange(nbytes // sz) * sz
                if btype == BURST_INCR and prng.random() < 0.2:
                    addr += prng.randrange(sz)  # unaligned start.
            beats = burst_beats(addr, btype, blen, size, nbytes)
            words = [a // nbytes for a, lo, hi in beats]
            assert max(words) < self.mem_words
            return dict(addr=addr + self.base, type=btype, len=blen, size=size, id=prng.getrandbits(self.id_width),
                        beats=beats, words=words)
        raise TBError("no burst")

    def _strb(self, lo, hi, kind):
        lanes = ((1 << (hi - lo + 1)) - 1) << lo
        if kind == "full":
            return self.full
        while True:
            s = self.prng.getrandbits(self.nbytes) & lanes
            if kind == "any":
                return s
            if s != self.full:      # kind == "partial"
                return s

    # ---------------------------------------------------------------------------------------------
    def run(self, monitors=()):
        run_simulation(self.dut, [self._process()] + [m(self) for m in monitors])
        return self.stats

    def _process(self):
        prng, axi, port, P = self.prng, self.axi, self.port, self.profile
        nbytes, full = self.nbytes, self.full
        ashift = log2_int(nbytes)

        # Master state -----------------------------------------------------------------------------
        writes        = []        # created write bursts, AW order.
        aw_i = w_i = b_i = 0      # next burst index on AW / W / B.
        w_beat        = 0
        reads         = []        # created read bursts, AR order.
        r_i = 0; r_beat = 0
        ntrans_created = 0
        busy_w = {}               # word -> count of writes created and not yet responded.
        busy_r = {}               # word -> count of reads created and not yet completed.
        aw_drv = None; w_drv = None; ar_drv = None   # payload currently driven (valid=1) or None.
        b_ready = 0; r_ready = 0
        aw_acc  = []              # cycle of AW acceptance per write.
        w_done  = []              # cycle of acceptance of the last W beat per write.
        b_hold  = 0
        last_full_write = -1      # RMW envelope: index of last burst containing a full-strobe beat.

        # Native slave state -----------------------------------------------------------------------
        ops        = []           # in-order accepted commands not yet retired: dict(we, addr, data, strb)
        wr_nodata  = []           # write ops still waiting for their data.
        rd_ret     = []           # read data captured in order, to be returned.
        cmd_ready  = 0; wdata_ready = 0
        rdata_drv  = None
        n_wcmd = 0; n_wdata = 0
        wdata_cycle = []          # cycle at which the n-th write data word was handed over.
        burst_end_beat = []       # cumulative number of beats at the end of each write burst.
        prev_cmd = None

        idle_cycles = 0
        cyc = 0
        limit = 400 * self.ntrans + 4000

        def create_write():
            nonlocal ntrans_created, last_full_write
            if ntrans_created >= self.ntrans:
                return False
            b = self._new_burst(True)
            if any(w in busy_r for w in b["words"]):
                return False
            # strobes
            if self.rmw:
                # envelope of the read-modify-write mode: inside a burst partial beats come first.
                npart = prng.choice([0, b["len"] + 1, prng.randrange(b["len"] + 2)])
                kinds = ["partial"] * npart + ["full"] * (b["len"] + 1 - npart)
                # a full-strobe beat is only legal on the full bus width.
                kinds = [("partial" if (k == "full" and (hi - lo + 1) != nbytes) else k) for k, (a, lo, hi) in zip(kinds, b["beats"])]
                if "full" in kinds and "partial" in kinds[kinds.index("full"):]:
                    kinds = ["partial"] * len(kinds)
            else:
                k = prng.choice(["full", "any", "any"])
                kinds = [k] * (b["len"] + 1)
            b["data"] = [prng.getrandbits(self.dw) for _ in b["beats"]]
            b["strb"] = [self._strb(lo, hi, k if (hi - lo + 1) == nbytes or k != "full" else "any") for (a, lo, hi), k in zip(b["beats"], kinds)]
            b["wait_b_before"] = -1
            if self.rmw and any(s != full for s in b["strb"]):
                # do not present a partial beat while earlier full-strobe beats may still be un-commanded.
                b["wait_b_before"] = last_full_write
            if any(s == full for s in b["strb"]):
                last_full_write = len(writes)
            for w, d, s in zip(b["words"], b["data"], b["strb"]):
                for i in range(nbytes):
                    if (s >> i) & 1:
                        self.ref[w] = (self.ref[w] & ~(0xff << (8*i))) | (d & (0xff << (8*i)))
                busy_w[w] = busy_w.get(w, 0) + 1
            writes.append(b); aw_acc.append(None); w_done.append(None)
            burst_end_beat.append((burst_end_beat[-1] if burst_end_beat else 0) + b["len"] + 1)
            ntrans_created += 1
            self.stats["writes"] += 1
            return True

        def create_read():
            nonlocal ntrans_created
            if ntrans_created >= self.ntrans:
                return False
            b = self._new_burst(False)
            if any(w in busy_w for w in b["words"]):
                return False
            b["exp"] = [self.ref[w] for w in b["words"]]
            for w in b["words"]:
                busy_r[w] = busy_r.get(w, 0) + 1
            reads.append(b)
            ntrans_created += 1
            self.stats["reads"] += 1
            return True

        def release(d, words):
            for w in words:
                d[w] -= 1
                if d[w] == 0:
                    del d[w]

        while True:
            # ======================= observe cycle `cyc` ==========================================
            aw_ready = (yield axi.aw.ready)
            w_ready  = (yield axi.w.ready)
            b_valid  = (yield axi.b.valid)
            ar_ready = (yield axi.ar.ready)
            r_valid  = (yield axi.r.valid)
            cmd_valid   = (yield port.cmd.valid)
            wdata_valid = (yield port.wdata.valid)
            progress = False

            # ---- native side: command ----
            if cmd_valid:
                cmd = ((yield port.cmd.we), (yield port.cmd.addr))
                if self.check_cmd_stable and prev_cmd is not None and prev_cmd != cmd:
                    raise TBError("cycle %d: native command changed while stalled: %r -> %r" % (cyc, prev_cmd, cmd))
                if cmd_ready:
                    we, addr = cmd
                    if addr >= self.mem_words:
                        raise TBError("cycle %d: native command address 0x%x out of the addressed range" % (cyc, addr))
                    op = dict(we=we, addr=addr, data=None, strb=None)
                    ops.append(op)
                    if we:
                        wr_nodata.append(op); n_wcmd += 1
                    prev_cmd = None
                    progress = True
                else:
                    prev_cmd = cmd
            else:
                if self.check_cmd_stable and prev_cmd is not None:
                    raise TBError("cycle %d: native command retracted while stalled" % cyc)
                prev_cmd = None

            # ---- native side: write data ----
            if wdata_valid and wdata_ready:
                if not wr_nodata:
                    raise TBError("cycle %d: write data handed to the native port without an accepted command" % cyc)
                op = wr_nodata.pop(0)
                op["data"] = (yield port.wdata.data)
                op["strb"] = (yield port.wdata.we)
                if self.rmw and op["strb"] != full:
                    raise TBError("cycle %d: partial byte enables 0x%x on the native port in read-modify-write mode" % (cyc, op["strb"]))
                n_wdata += 1
                wdata_cycle.append(cyc)
                progress = True

            # ---- native side: read data pulse acceptance ----
            if rdata_drv is not None:
                if not (yield port.rdata.ready):
                    raise TBError("cycle %d: native read data dropped (rdata.ready low)" % cyc)
                progress = True

            # ---- retire in order ----
            while ops:
                op = ops[0]
                if op["we"]:
                    if op["data"] is None:
                        break
                    d, s, a = op["data"], op["strb"], op["addr"]
                    for i in range(nbytes):
                        if (s >> i) & 1:
                            self.mem[a] = (self.mem[a] & ~(0xff << (8*i))) | (d & (0xff << (8*i)))
                else:
                    rd_ret.append(self.mem[op["addr"]])
                ops.pop(0)

            # ---- AXI AW ----
            if aw_drv is not None and aw_ready:
                aw_acc[aw_i] = cyc
                aw_i += 1; aw_drv = None; progress = True
            # ---- AXI W ----
            if w_drv is not None and w_ready:
                self.stats["wbeats"] += 1
                if writes[w_i]["strb"][w_beat] != full:
                    self.stats["rmw_beats"] += 1
                if w_beat == writes[w_i]["len"]:
                    w_done[w_i] = cyc
                    w_i += 1; w_beat = 0
                else:
                    w_beat += 1
                w_drv = None; progress = True
            # ---- AXI B ----
            if b_valid:
                if b_i >= len(writes) or aw_acc[b_i] is None or w_done[b_i] is None:
                    raise TBError("cycle %d: write response #%d before its address/data were transferred" % (cyc, b_i))
                last_beat = burst_end_beat[b_i] - 1
                if last_beat >= len(wdata_cycle) or wdata_cycle[last_beat] >= cyc:
                    raise TBError("cycle %d: write response #%d before its data was handed to the memory" % (cyc, b_i))
                bid = (yield axi.b.id)
                if bid != writes[b_i]["id"]:
                    raise TBError("cycle %d: write response #%d has id %d, expected %d" % (cyc, b_i, bid, writes[b_i]["id"]))
                if (yield axi.b.resp) != RESP_OKAY:
                    raise TBError("cycle %d: write response not OKAY" % cyc)
                if b_ready:
                    release(busy_w, writes[b_i]["words"])
                    b_i += 1; progress = True
            # ---- AXI AR ----
            if ar_drv is not None and ar_ready:
                ar_drv = None; progress = True
            # ---- AXI R ----
            if r_valid:
                if r_i >= len(reads) or (ar_drv is not None and r_i == len(reads) - 1):
                    raise TBError("cycle %d: read data without request" % cyc)
                rd = reads[r_i]
                data, rid, rlast = (yield axi.r.data), (yield axi.r.id), (yield axi.r.last)
                if rid != rd["id"]:
                    raise TBError("cycle %d: read #%d beat %d has id %d, expected %d" % (cyc, r_i, r_beat, rid, rd["id"]))
                if rlast != int(r_beat == rd["len"]):
                    raise TBError("cycle %d: read #%d beat %d/%d has last=%d" % (cyc, r_i, r_beat, rd["len"], rlast))
                if data != rd["exp"][r_beat]:
                    raise TBError("cycle %d: read #%d (addr 0x%x type %d len %d size %d) beat %d data 0x%x, expected 0x%x" % (
                        cyc, r_i, rd["addr"], rd["type"], rd["len"], rd["size"], r_beat, data, rd["exp"][r_beat]))
                if (yield axi.r.resp) != RESP_OKAY:
                    raise TBError("cycle %d: read response not OKAY" % cyc)
                if r_ready:
                    self.stats["rbeats"] += 1
                    if r_beat == rd["len"]:
                        release(busy_r, rd["words"])
                        r_i += 1; r_beat = 0
                    else:
                        r_beat += 1
                    progress = True

            # ======================= end / deadlock detection =====================================
            done = (ntrans_created >= self.ntrans and b_i == len(writes) and r_i == len(reads) and
                    aw_i == len(writes) and w_i == len(writes) and not ops and not rd_ret and rdata_drv is None)
            if done:
                if idle_cycles > 0 and (b_valid or r_valid or cmd_valid or wdata_valid):
                    raise TBError("cycle %d: spurious activity after all transactions completed" % cyc)
                idle_cycles += 1
                if idle_cycles > 20:
                    break
            cyc += 1
            if cyc > limit:
                raise TBError("timeout (deadlock?) : aw %d w %d b %d / %d writes, r %d / %d reads, ops %d" % (
                    aw_i, w_i, b_i, len(writes), r_i, len(reads), len(ops)))

            # ======================= drive cycle `cyc + 1` ========================================
            # ---- AW ----
            if aw_drv is None and prng.random() < P.aw and (aw_i - b_i) < self.max_wr_outstanding:
                if aw_i < len(writes) or create_write():
                    aw_drv = writes[aw_i]
                    yield axi.aw.addr.eq(aw_drv["addr"]);  yield axi.aw.burst.eq(aw_drv["type"])
                    yield axi.aw.len.eq(aw_drv["len"]);    yield axi.aw.size.eq(aw_drv["size"])
                    yield axi.aw.id.eq(aw_drv["id"])
            yield axi.aw.valid.eq(int(aw_drv is not None))
            # ---- W ----
            if w_drv is None and prng.random() < P.w:
                ok = False
                if w_i < len(writes):
                    ok = True
                elif self.w_may_lead and (w_i - b_i) < self.max_wr_outstanding and prng.random() < 0.3:
                    ok = create_write()
                if ok:
                    wr = writes[w_i]
                    if not self.w_may_lead and not (aw_i > w_i or aw_drv is wr):
                        ok = False   # address first (at the latest in the same cycle).
                    if self.rmw and not (aw_i > w_i):
                        ok = False   # read-modify-write envelope: address accepted before the data is presented.
                    if wr["wait_b_before"] >= b_i and wr["strb"][w_beat] != full:
                        ok = False
                if ok:
                    w_drv = wr
                    yield axi.w.data.eq(wr["data"][w_beat]); yield axi.w.strb.eq(wr["strb"][w_beat])
                    yield axi.w.last.eq(int(w_beat == wr["len"]))
            yield axi.w.valid.eq(int(w_drv is not None))
            # ---- B ----
            if self.b_stall_bursts:
                if b_hold > 0:
                    b_hold -= 1; b_ready = 0
                else:
                    b_ready = 1
                    if prng.random() < 0.02:
                        b_hold = prng.randrange(20, 200)
            else:
                b_ready = int(prng.random() < P.b)
            yield axi.b.ready.eq(b_ready)
            # ---- AR ----
            if ar_drv is None and prng.random() < P.ar:
                if create_read():
                    ar_drv = reads[-1]
                    yield axi.ar.addr.eq(ar_drv["addr"]);  yield axi.ar.burst.eq(ar_drv["type"])
                    yield axi.ar.len.eq(ar_drv["len"]);    yield axi.ar.size.eq(ar_drv["size"])
                    yield axi.ar.id.eq(ar_drv["id"])
            yield axi.ar.valid.eq(int(ar_drv is not None))
            # ---- R ----
            r_ready = int(prng.random() < P.r)
            yield axi.r.ready.eq(r_ready)
            # ---- native cmd / wdata / rdata ----
            cmd_ready = int(prng.random() < P.cmd)
            yield port.cmd.ready.eq(cmd_ready)
            if self.wdata_loose:
                wdata_ready = int(prng.random() < P.wdata)
            else:
                wdata_ready = int(bool(wr_nodata) and prng.random() < P.wdata)
            yield port.wdata.ready.eq(wdata_ready)
            if rd_ret and prng.random() < P.rdata:
                rdata_drv = rd_ret.pop(0)
                yield port.rdata.data.eq(rdata_drv)
                yield port.rdata.valid.eq(1)
            else:
                rdata_drv = None
                yield port.rdata.valid.eq(0)
            yield

        # ======================= final checks =====================================================
        if self.mem != self.ref:
            bad = [i for i in range(self.mem_words) if self.mem[i] != self.ref[i]]
            raise TBError("final memory image differs from the reference at words %r" % bad[:8])
        if n_wdata != n_wcmd or n_wdata != (burst_end_beat[-1] if burst_end_beat else 0):
            raise TBError("write command / data count mismatch")
        self.stats["cycles"] = cyc


def run_one(label, monitors=(), **kw):
    tb = TB(**kw)
    try:
        st = tb.run(monitors)
    except TBError as e:
        print("FAIL [%s] %r profile: %r\n     %s" % (label, {k: v for k, v in kw.items() if k != "profile"}, tb.profile, e))
        return False
    return st

# ==================================================================================================
# keep_2: write response path = one ID FIFO (entry kept until B is accepted) + a counter of completed
# bursts, instead of id_buffer + resp_buffer; a burst is only started when the ID FIFO has room.
# ==================================================================================================

def _job(args):
    kind, kw = args
    return run_one(kind, **kw) is not False


def main():
    import multiprocessing
    jobs = []
    # (a) general traffic, all stall patterns, with / without read-modify-write.
    for seed in range(2000, 2016):
        r = random.Random(seed)
        jobs.append(("general", dict(seed=seed, data_width=r.choice([32, 64]), w_depth=r.choice([2, 4, 5, 16]),
                                     r_depth=r.choice([2, 4, 5, 16]), base_address=r.choice([0, 0x1000, 0x40000000]),
                                     rmw=bool(seed % 2), ntrans=40, check_cmd_stable=True)))
    # (b) response path under pressure: many short bursts in flight (not limited by the master), B stalled
    #     for long stretches, fast address/data/native side so that the ID FIFO fills up; write data may be
    #     taken by the controller in the very cycle its command is accepted.
    for seed in range(2100, 2116):
        r = random.Random(seed)
        prof = Profile(r, fixed=dict(aw=1.0, w=1.0, cmd=r.choice([1.0, 0.9]), wdata=r.choice([1.0, 0.6])))
        jobs.append(("b-pressure", dict(seed=seed, data_width=32, w_depth=r.choice([2, 3, 4, 8]), r_depth=4,
                                        base_address=0, rmw=(seed % 4 == 3), ntrans=80, profile=prof,
                                        wdata_loose=True, max_wr_outstanding=1000, b_stall_bursts=True,
                                        single_beat_bias=0.8, max_len=4, check_cmd_stable=True)))
    # (c) same without B stalls but random b.ready, loose write data.
    for seed in range(2200, 2208):
        r = random.Random(seed)
        jobs.append(("loose", dict(seed=seed, data_width=r.choice([32, 64]), w_depth=r.choice([2, 4, 16]),
                                   r_depth=r.choice([2, 4, 16]), base_address=0x1000, rmw=False, ntrans=40,
                                   wdata_loose=True, max_wr_outstanding=1000, single_beat_bias=0.6)))
    with multiprocessing.Pool(4) as pool:
        res = pool.map(_job, jobs, chunksize=1)
    print("keep_2: %d / %d jobs passed" % (sum(res), len(res)))
    sys.exit(0 if all(res) else 1)

if __name__ == "__main__":
    main()
