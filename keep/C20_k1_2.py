import os, sys, random, itertools, time
sys.path.insert(0, os.getcwd())

# ---------------------------------------------------------------------------------------------------
# Environment shims (pinned litex/migen on a recent Python cannot guess CSR names and lacks CSR.wr_stb);
# they do not touch any logic under test.
import litex.soc.interconnect.csr as _csr
_cnt = itertools.count()
_orig_name = _csr.get_obj_var_name
def _name(override=None, default=None):
    try:
        n = _orig_name(override, default)
    except Exception:
        n = None
    return n or "csr%d" % next(_cnt)
_csr.get_obj_var_name = _name
if not hasattr(_csr.CSR, "wr_stb"):
    _csr.CSR.wr_stb = property(lambda self: self.re)

from migen import *
from migen.sim import run_simulation

from litedram.phy.dfi import Interface as DFIInterface
from litedram.phy.utils import CommandsPipeline, ConstBitSlip, Latency
from litedram.phy.lpddr4 import commands as cmd4
from litedram.phy.lpddr5 import commands as cmd5

CLK_SYS   = {"sys": (64, 31)}
CLK_SYS2X = {"sys": (64, 31), "sys2x": (32, 15)}

def check(cond, msg):
    if not cond:
        print("FAIL:", msg)
        sys.exit(1)

# DFI command kinds: name -> (cas_n, ras_n, we_n)
KINDS = {
    "NOP": (1, 1, 1), "ACT": (1, 0, 1), "RD": (0, 1, 1), "WR": (0, 1, 0),
    "PRE": (1, 0, 0), "REF": (0, 0, 1), "ZQC": (1, 1, 0), "MRS": (0, 0, 0),
}

def mkcmd(kind, address=0, bank=0, cs_n=0):
    cas_n, ras_n, we_n = KINDS[kind]
    return dict(cs_n=cs_n, cas_n=cas_n, ras_n=ras_n, we_n=we_n, address=address, bank=bank)

IDLE = mkcmd("NOP", cs_n=1)

def kind_of(c):
    for k, v in KINDS.items():
        if v == (c["cas_n"], c["ras_n"], c["we_n"]):
            return k

# ---------------------------------------------------------------------------------------------------
# LPDDR4 golden model, written from the JESD209-4 command truth table (CA0 first)

def enc4(c, masked_write):
    """DFI command -> [(cs, [ca0..ca5])]*4 or None when nothing must be sent"""
    if c["cs_n"] != 0:
        return None
    a, ba = c["address"], c["bank"]
    A = lambda i: (a >> i) & 1
    B = lambda i: (ba >> i) & 1
    des   = [(0, [0]*6), (0, [0]*6)]
    small = lambda first, second: [(1, first), (0, second)]
    cas2  = small([0, 1, 0, 0, 1, A(8)], [A(2), A(3), A(4), A(5), A(6), A(7)])
    kind  = kind_of(c)
    if kind == "ACT":
        return small([1, 0, A(12), A(13), A(14), A(15)], [B(0), B(1), B(2), A(16), A(10), A(11)]) + \
               small([1, 1, A(6), A(7), A(8), A(9)],     [A(0), A(1), A(2), A(3), A(4), A(5)])
    if kind == "RD":
        return small([0, 1, 0, 0, 0, 0], [B(0), B(1), B(2), 0, A(9), A(10)]) + cas2
    if kind == "WR":
        return small([0, 0, 1, int(masked_write), 0, 0], [B(0), B(1), B(2), 0, A(9), A(10)]) + cas2
    if kind == "PRE":
        return des + small([0, 0, 0, 0, 1, A(10)], [B(0), B(1), B(2), 0, 0, 0])
    if kind == "REF":
        return des + small([0, 0, 0, 1, 0, A(10)], [B(0), B(1), B(2), 0, 0, 0])
    if kind == "ZQC":
        if ba == 0:  # MPC
            return des + small([0, 0, 0, 0, 0, A(6)], [A(0), A(1), A(2), A(3), A(4), A(5)])
        if ba == 1:  # MRR
            return small([0, 1, 1, 1, 0, 0], [A(0), A(1), A(2), A(3), A(4), A(5)]) + cas2
        return None
    if kind == "MRS":
        return small([0, 1, 1, 0, 0, A(7)], [B(0), B(1), B(2), B(3), B(4), B(5)]) + \
               small([0, 1, 1, 0, 1, A(6)], [A(0), A(1), A(2), A(3), A(4), A(5)])
    return None

def golden4(seq, masked_write, extended, nphases=8, span=4):
    """seq: list (per sys cycle) of list (per phase) of DFI commands; masked_write: bool or per-cycle list.
    Returns cs bit stream and 6 ca bit streams (one entry per DRAM clock, position = cycle*8 + phase)."""
    n = (len(seq) + 3) * nphases
    cs = [0] * n
    ca = [[0] * n for _ in range(6)]
    nprev = span - 1
    prev_valid = [0] * nphases
    for t, phases in enumerate(seq):
        mw = masked_write[t] if isinstance(masked_write, list) else masked_write
        encs = [enc4(c, mw) for c in phases]
        valid = [int(e is not None) for e in encs]
        window = prev_valid + valid
        if extended:
            hist = []
            for i in range(len(window)):
                hist.append(int(window[i] and not any(hist[max(0, i - nprev):i])))
        else:
            hist = window
        for p in range(nphases):
            if encs[p] is None:
                continue
            if any(hist[nphases + p - nprev:nphases + p]):
                continue  # would overlap a command in flight
            for k, (cs_v, ca_v) in enumerate(encs[p]):
                pos = t * nphases + p + k
                cs[pos] |= cs_v
                for bit in range(6):
                    ca[bit][pos] |= ca_v[bit]
        prev_valid = valid
    return cs, ca

def decode4(cs, ca):
    """Independent LPDDR4 CS/CA decoder: returns list of (position of first CS high, decoded fields)"""
    out = []
    pos = 0
    pending = None
    n = len(cs)
    def word(p):
        return [ca[b][p] for b in range(6)]
    while pos < n - 1:
        if not cs[pos]:
            pos += 1
            continue
        r1, r2 = word(pos), word(pos + 1)
        check(cs[pos + 1] == 0, "CS high on two consecutive clocks at %d" % pos)
        val = lambda bits: sum(v << i for i, v in enumerate(bits))
        h = tuple(r1[:5])
        if r1[0] == 1 and r1[1] == 0:
            pending = (pos, "ACT", dict(bank=val(r2[:3]), row_hi=(val(r1[2:6]) << 12) | (r2[3] << 16) | (val(r2[4:6]) << 10)))
        elif r1[0] == 1 and r1[1] == 1:
            check(pending is not None and pending[1] == "ACT" and pending[0] == pos - 2, "ACT-2 without ACT-1 at %d" % pos)
            row = pending[2]["row_hi"] | (val(r1[2:6]) << 6) | val(r2)
            out.append((pending[0], ("ACT", pending[2]["bank"], row)))
            pending = None
        elif h == (0, 1, 0, 0, 0):
            pending = (pos, "RD", dict(bank=val(r2[:3]), c9=r2[4], ap=r2[5]))
        elif h == (0, 0, 1, 0, 0):
            pending = (pos, "WR", dict(bank=val(r2[:3]), c9=r2[4], ap=r2[5]))
        elif h == (0, 0, 1, 1, 0):
            pending = (pos, "MWR", dict(bank=val(r2[:3]), c9=r2[4], ap=r2[5]))
        elif h == (0, 1, 1, 1, 0):
            pending = (pos, "MRR", dict(ma=val(r2)))
        elif h == (0, 1, 0, 0, 1):  # CAS-2
            check(pending is not None and pending[0] == pos - 2 and pending[1] in ("RD", "WR", "MWR", "MRR"), "CAS-2 alone at %d" % pos)
            col = (r1[5] << 8) | (val(r2) << 2)
            f = pending[2]
            if pending[1] == "MRR":
                out.append((pending[0], ("MRR", f["ma"], col)))
            else:
                out.append((pending[0], (pending[1], f["bank"], col | (f["c9"] << 9), f["ap"])))
            pending = None
        elif h == (0, 1, 1, 0, 0):
            pending = (pos, "MRW", dict(ma=val(r2), op7=r1[5]))
        elif h == (0, 1, 1, 0, 1):
            check(pending is not None and pending[0] == pos - 2 and pending[1] == "MRW", "MRW-2 alone at %d" % pos)
            out.append((pending[0], ("MRW", pending[2]["ma"], (pending[2]["op7"] << 7) | (r1[5] << 6) | val(r2))))
            pending = None
        elif h == (0, 0, 0, 1, 0):
            out.append((pos - 2, ("REF", val(r2[:3]), r1[5])))
        elif h == (0, 0, 0, 0, 1):
            out.append((pos - 2, ("PRE", val(r2[:3]), r1[5])))
        elif h == (0, 0, 0, 0, 0):
            out.append((pos - 2, ("MPC", (r1[5] << 6) | val(r2))))
        else:
            check(False, "undecodable LPDDR4 command %r at %d" % (r1, pos))
        pos += 2
    return out

def expect4_decoded(seq, masked_write, nphases=8, span=4):
    """What a DRAM must see (basic overlap rule): list of (position, decoded command)"""
    out = []
    last_valid = -10
    for t, phases in enumerate(seq):
        mw = masked_write[t] if isinstance(masked_write, list) else masked_write
        for p, c in enumerate(phases):
            if enc4(c, mw) is None:
                continue
            pos = t * nphases + p
            blocked = pos - last_valid < span
            last_valid = pos
            if blocked:
                continue
            a, ba, kind = c["address"], c["bank"], kind_of(c)
            col = a & 0x3fc
            if kind == "ACT":   d = ("ACT", ba & 7, a & 0x1ffff)
            elif kind == "RD":  d = ("RD", ba & 7, col, (a >> 10) & 1)
            elif kind == "WR":  d = ("MWR" if mw else "WR", ba & 7, col, (a >> 10) & 1)
            elif kind == "PRE": d = ("PRE", ba & 7, (a >> 10) & 1)
            elif kind == "REF": d = ("REF", ba & 7, (a >> 10) & 1)
            elif kind == "MRS": d = ("MRW", ba & 0x3f, a & 0xff)
            elif kind == "ZQC" and ba == 0: d = ("MPC", a & 0x7f)
            elif kind == "ZQC" and ba == 1: d = ("MRR", a & 0x3f, a & 0x1fc)
            out.append((pos, d))
    return out

# ---------------------------------------------------------------------------------------------------
# Traffic

def rand_cmd4(rng):
    kind = rng.choice(list(KINDS))
    bank = rng.choice([0, 1, 2, rng.randrange(64)]) if kind == "ZQC" else rng.randrange(64)
    return mkcmd(kind, address=rng.randrange(1 << 17), bank=bank, cs_n=int(rng.random() < 0.1))

def random_traffic4(rng, ncycles, nphases=8):
    seq = []
    for _ in range(ncycles):
        d = rng.choice([0.0, 0.05, 0.15, 0.4, 1.0])
        seq.append([rand_cmd4(rng) if rng.random() < d else IDLE for _ in range(nphases)])
    return seq

def directed_traffic4(nphases=8, span=4):
    """every command kind with walking address/bank bits, then every ordered pair of kinds at every spacing
    1..nphases, then a fixed pair at every phase and every spacing (crossing the cycle boundary)"""
    items = {}
    pos = [nphases]
    def put(c, advance):
        items[pos[0]] = c
        pos[0] += advance
    valid_kinds = [("ACT", None), ("RD", None), ("WR", None), ("PRE", None), ("REF", None),
                   ("MRS", None), ("ZQC", 0), ("ZQC", 1), ("ZQC", 5)]
    full = (1 << 17) - 1
    patterns = [(0, 0), (full, 63)]
    patterns += [(1 << i, 0) for i in range(17)] + [(0, 1 << i) for i in range(6)]
    patterns += [(full ^ (1 << i), 63) for i in range(17)] + [(full, 63 ^ (1 << i)) for i in range(6)]
    for kind, fixed_bank in valid_kinds:
        for n, (a, ba) in enumerate(patterns):
            put(mkcmd(kind, a, ba if fixed_bank is None else fixed_bank), span + (n % 2))
    rng = random.Random(1234)
    def rnd(k):
        return mkcmd(k, rng.randrange(1 << 17), rng.randrange(2) if k == "ZQC" else rng.randrange(64))
    kinds2 = ["ACT", "RD", "WR", "PRE", "REF", "MRS", "ZQC", "NOP"]
    for k1, k2 in itertools.product(kinds2, kinds2):
        for gap in range(1, nphases + 1):
            put(rnd(k1), gap)
            put(rnd(k2), span + 1)
    for k1, k2 in [("RD", "ACT"), ("PRE", "WR")]:
        for p in range(nphases):
            for gap in range(1, nphases + 1):
                pos[0] += (p - pos[0]) % nphases
                put(rnd(k1), gap)
                put(rnd(k2), span)
    ncyc = max(items) // nphases + 1
    seq = [[IDLE] * nphases for _ in range(ncyc)]
    for x, c in items.items():
        seq[x // nphases][x % nphases] = c
    return seq

def drive_phases(dfi, phases):
    for ph, c in zip(dfi.phases, phases):
        for name, v in c.items():
            yield getattr(ph, name).eq(v)

def to_bits(words, width):
    return [(w >> i) & 1 for w in words for i in range(width)]

def find_offset(expected, observed, max_offset):
    """observed stream must be the expected one delayed by a constant number of bits"""
    n = len(expected)
    hits = []
    for d in range(max_offset + 1):
        obs = observed[d:d + n]
        obs = obs + [0] * (n - len(obs))
        if obs == expected and not any(observed[:d]):
            hits.append(d)
    return hits

def compare_streams(tag, exp_cs, exp_ca, obs_cs, obs_ca, max_offset, want_offset=None):
    check(any(exp_cs), tag + ": empty expectation")
    # trim expectation to what was simulated
    offs = []
    for name, e, o in [("cs", exp_cs, obs_cs)] + [("ca%d" % i, exp_ca[i], obs_ca[i]) for i in range(len(exp_ca))]:
        e = e[:len(o) - max_offset]
        hits = find_offset(e, o, max_offset)
        check(len(hits) >= 1, "%s: %s does not match the golden stream at any latency" % (tag, name))
        offs.append(hits)
    common = set(offs[0])
    for h in offs[1:]:
        common &= set(h)
    check(len(common) == 1, "%s: no single common CS/CA latency (%r)" % (tag, offs))
    off = common.pop()
    if want_offset is not None:
        check(off == want_offset, "%s: latency changed: %d bits, expected %d" % (tag, off, want_offset))
    return off

# ---------------------------------------------------------------------------------------------------
# LPDDR4 harnesses

class Harness4(Module):
    """DFI -> adapters -> CommandsPipeline, wired as in LPDDR4PHY"""
    def __init__(self, masked_write, extended):
        self.dfi = DFIInterface(17, 6, 1, 32, nphases=8)
        self.masked_write = masked_write
        adapters = [cmd4.DFIPhaseAdapter(p, masked_write=masked_write) for p in self.dfi.phases]
        self.submodules += adapters
        self.submodules.commands = CommandsPipeline(adapters,
            cs_ser_width=8, ca_ser_width=8, ca_nbits=6, cmd_nphases_span=4, extended_overlaps_check=extended)
        self.cs, self.ca = self.commands.cs, self.commands.ca

def run4(dut, seq, mw_seq=None, clocks=CLK_SYS, out=None, out_domain="sys", out_width=8):
    """Drive `seq` on dut.dfi, sample `out` (cs, [ca]) every `out_domain` cycle. Returns bit streams."""
    cs_sig, ca_sig = out if out is not None else (dut.cs, dut.ca)
    obs_cs, obs_ca = [], [[] for _ in ca_sig]
    done = [False]
    def driver():
        for t, phases in enumerate(seq + [[IDLE] * 8] * 4):
            yield from drive_phases(dut.dfi, phases)
            if mw_seq is not None:
                yield dut.masked_write.eq(mw_seq[t] if t < len(mw_seq) else 0)
            yield
        done[0] = True
    def sampler():
        while not done[0]:
            yield
            obs_cs.append((yield cs_sig))
            for i, s in enumerate(ca_sig):
                obs_ca[i].append((yield s))
    gens = {"sys": [driver()]}
    gens.setdefault(out_domain, []).append(sampler())
    run_simulation(dut, gens, clocks=clocks)
    return to_bits(obs_cs, out_width), [to_bits(w, out_width) for w in obs_ca]

def check_harness4(tag, seq, masked_write, extended, want_offset=None, dynamic_mw=False, rng=None):
    if dynamic_mw:
        mw_sig = Signal()
        mw_seq = [rng.randrange(2) for _ in seq]
        dut = Harness4(mw_sig, extended)
        obs_cs, obs_ca = run4(dut, seq, mw_seq=mw_seq)
        mw = mw_seq
    else:
        dut = Harness4(masked_write, extended)
        obs_cs, obs_ca = run4(dut, seq)
        mw = masked_write
    exp_cs, exp_ca = golden4(seq, mw, extended)
    off = compare_streams(tag, exp_cs, exp_ca, obs_cs, obs_ca, max_offset=40, want_offset=want_offset)
    if not extended:
        # independent decode of what the pads carry
        dec = decode4(obs_cs[off:], [c[off:] for c in obs_ca])
        exp = expect4_decoded(seq, mw)
        check(dec == exp, "%s: decoded command list differs from the DFI commands (%d vs %d entries)" % (tag, len(dec), len(exp)))
    return off

def make_lpddr4phy(double_rate, masked_write=True, extended=False):
    from litedram.phy.lpddr4.simphy import LPDDR4SimulationPads
    from litedram.phy.lpddr4.basephy import LPDDR4PHY, DoubleRateLPDDR4PHY
    pads = LPDDR4SimulationPads()
    kw = dict(sys_clk_freq=100e6, phytype="LPDDR4SimPHY", masked_write=masked_write, extended_overlaps_check=extended)
    if double_rate:
        phy = DoubleRateLPDDR4PHY(pads, ser_latency=Latency(sys2x=1), des_latency=Latency(sys2x=2),
            serdes_reset_cnt=-1, **kw)  # as in S7LPDDR4PHY
    else:
        phy = LPDDR4PHY(pads, ser_latency=Latency(sys=1), des_latency=Latency(sys=2), **kw)
    phy.submodules += pads
    return phy

def check_phy4(tag, seq, double_rate, masked_write=True, extended=False, want_offset=None):
    dut = make_lpddr4phy(double_rate, masked_write, extended)
    if double_rate:
        obs_cs, obs_ca = run4(dut, seq, clocks=CLK_SYS2X, out=(dut.out.cs, dut.out.ca), out_domain="sys2x", out_width=4)
    else:
        obs_cs, obs_ca = run4(dut, seq, out=(dut.out.cs, dut.out.ca))
    exp_cs, exp_ca = golden4(seq, masked_write, extended)
    off = compare_streams(tag, exp_cs, exp_ca, obs_cs, obs_ca, max_offset=48, want_offset=want_offset)
    if not extended:
        dec = decode4(obs_cs[off:], [c[off:] for c in obs_ca])
        check(dec == expect4_decoded(seq, masked_write), tag + ": decoded command list differs from the DFI commands")
    return off

# ---------------------------------------------------------------------------------------------------
# LPDDR5 golden model, written from the JESD209-5 command truth table (CA0 first; rising, falling edge)

def enc5(c, masked_write, wck_sync):
    """DFI command -> [(cs, ca_rising[7], ca_falling[7])]*2 or None"""
    if c["cs_n"] != 0:
        return None
    a, ba = c["address"], c["bank"]
    A = lambda i: (a >> i) & 1
    B = lambda i: (ba >> i) & 1
    C = lambda i: A(i + 4)  # column address sits above the 4 burst address bits
    des = (0, [0]*7, [0]*7)
    cas = (1, [0, 0, 1, 1, int(wck_sync == 1), int(wck_sync == 2), int(wck_sync == 3)], [0]*7)
    col_f = [B(0), B(1), B(2), B(3), C(1), C(2), A(10)]
    kind = kind_of(c)
    if kind == "ACT":
        return [(1, [1, 1, 1, A(14), A(15), A(16), A(17)], [B(0), B(1), B(2), B(3), A(11), A(12), A(13)]),
                (1, [1, 1, 0, A(7), A(8), A(9), A(10)],    [A(0), A(1), A(2), A(3), A(4), A(5), A(6)])]
    if kind == "RD":
        return [cas, (1, [1, 0, 0, C(0), C(3), C(4), C(5)], col_f)]
    if kind == "WR":
        return [cas, (1, [0, 1, int(not masked_write), C(0), C(3), C(4), C(5)], col_f)]
    if kind == "PRE":
        return [des, (1, [0, 0, 0, 1, 1, 1, 1], [B(0), B(1), B(2), B(3), 0, 0, A(10)])]
    if kind == "REF":
        return [des, (1, [0, 0, 0, 1, 1, 1, 0], [B(0), B(1), B(2), 0, 0, 0, A(10)])]
    if kind == "MRS":
        return [(1, [0, 0, 0, 1, 1, 0, 1],    [B(i) for i in range(7)]),
                (1, [0, 0, 0, 1, 0, 0, A(7)], [A(i) for i in range(7)])]
    if kind == "ZQC":
        if ba == 0:  # MPC, all-zero operand is replaced by ZQC latch
            op = 0b10000110 if a == 0 else a & 0xff
            return [des, (1, [0, 0, 0, 0, 1, 1, (op >> 7) & 1], [(op >> i) & 1 for i in range(7)])]
        if ba == 1:  # MRR
            return [cas, (1, [0, 0, 0, 1, 1, 0, 0], [A(i) for i in range(7)])]
        if ba == 2:  # NOP
            return [des, (1, [0]*7, [0]*7)]
        return None
    return None

def rand_cmd5(rng):
    kind = rng.choice(list(KINDS))
    bank = rng.choice([0, 1, 2, 3, rng.randrange(128)]) if kind == "ZQC" else rng.randrange(128)
    address = rng.choice([0, rng.randrange(1 << 18), rng.randrange(1 << 18), rng.randrange(256)])
    return mkcmd(kind, address=address, bank=bank, cs_n=int(rng.random() < 0.1))

def random_traffic5(rng, ncycles):
    seq = []
    d = 0.5
    for i in range(ncycles):
        if i % 16 == 0:
            d = rng.choice([0.1, 0.3, 0.6, 1.0])
        seq.append(rand_cmd5(rng) if rng.random() < d else IDLE)
    return seq

def directed_traffic5():
    seq = []
    kinds = [("ACT", None), ("RD", None), ("WR", None), ("PRE", None), ("REF", None), ("MRS", None),
             ("ZQC", 0), ("ZQC", 1), ("ZQC", 2), ("ZQC", 9)]
    full = (1 << 18) - 1
    patterns = [(0, 0), (full, 127)]
    patterns += [(1 << i, 0) for i in range(18)] + [(0, 1 << i) for i in range(7)]
    patterns += [(full ^ (1 << i), 127) for i in range(18)] + [(full, 127 ^ (1 << i)) for i in range(7)]
    for kind, fixed_bank in kinds:
        for a, ba in patterns:
            seq += [mkcmd(kind, a, ba if fixed_bank is None else fixed_bank), IDLE]
    rng = random.Random(4321)
    kinds2 = ["ACT", "RD", "WR", "PRE", "REF", "MRS", "ZQC", "NOP"]
    mk = lambda k: mkcmd(k, rng.randrange(1 << 18), rng.randrange(3) if k == "ZQC" else rng.randrange(128))
    for k1, k2 in itertools.product(kinds2, kinds2):
        for gap in (0, 1, 2):
            seq += [mk(k1)] + [IDLE] * gap + [mk(k2), mk(rng.choice(kinds2)), IDLE, IDLE]
    return seq

def make_lpddr5phy(masked_write=True, wck_ck_ratio=2):
    from litedram.phy.lpddr5.simphy import LPDDR5SimulationPads
    from litedram.phy.lpddr5.basephy import LPDDR5PHY
    pads = LPDDR5SimulationPads()
    phy = LPDDR5PHY(pads, ck_freq=100e6, phytype="LPDDR5SimPHY", masked_write=masked_write,
        wck_ck_ratio=wck_ck_ratio, ser_latency=Latency(sys=1), des_latency=Latency(sys=2))
    phy.submodules += pads
    return phy

def check_phy5(tag, seq, masked_write=True, wck_ck_ratio=2):
    """Cycle exact check of LPDDR5PHY.out.cs / out.ca against the golden model: cmd1 in the cycle of the DFI
    command, cmd2 in the next one, a command arriving right behind an accepted one is dropped."""
    obs = []
    def gen(dut):
        for c in seq + [IDLE] * 4:
            for name, v in c.items():
                yield getattr(dut.dfi.p0, name).eq(v)
            yield
            cs = (yield dut.out.cs)
            ca = []
            for s in dut.out.ca:
                ca.append((yield s))
            ws = (yield dut.adapter.wck_sync)
            obs.append((cs, [w & 1 for w in ca], [(w >> 1) & 1 for w in ca], ws))
    phy = make_lpddr5phy(masked_write, wck_ck_ratio)
    run_simulation(phy, gen(phy), clocks=CLK_SYS)
    expected = []
    second = None
    sent = 0
    for t, c in enumerate(seq + [IDLE] * 4):
        if second is not None:
            expected.append(second)
            second = None
            continue
        e = enc5(c, masked_write, obs[t][3])
        if e is None:
            expected.append((0, [0]*7, [0]*7))
        else:
            expected.append(e[0])
            second = e[1]
            sent += 1
    for t, (o, e) in enumerate(zip(obs, expected)):
        check(o[:3] == e, "%s: cycle %d: pads carry cs=%r ca_r=%r ca_f=%r, golden %r" % (tag, t, o[0], o[1], o[2], e))
    check(sent > 0, tag + ": no command sent")
    return sent

# ===================================================================================================
# keep_2: WRITE-1 / MASK WRITE-1 share one truth table row, the CA3 bit is driven by masked_write (MW)
# ===================================================================================================

from collections import defaultdict

class OneAdapter(Module):
    def __init__(self, masked_write):
        self.dfi = DFIInterface(17, 6, 1, 32, nphases=1)
        self.masked_write = masked_write
        self.submodules.adapter = cmd4.DFIPhaseAdapter(self.dfi.phases[0], masked_write=masked_write)

def adapter_vectors(rng):
    full = (1 << 17) - 1
    patterns = [(0, 0), (full, 63)]
    patterns += [(1 << i, 0) for i in range(17)] + [(0, 1 << i) for i in range(6)]
    patterns += [(full ^ (1 << i), 63) for i in range(17)] + [(full, 63 ^ (1 << i)) for i in range(6)]
    vec = []
    for kind in KINDS:
        for cs_n in (0, 1):
            for a, ba in patterns:
                vec.append(mkcmd(kind, a, ba, cs_n))
            for ba in range(64):  # every bank value (selects the special command for ZQC)
                vec.append(mkcmd(kind, rng.randrange(1 << 17), ba, cs_n))
    for _ in range(1500):
        vec.append(rand_cmd4(rng))
    return vec

def check_adapter(tag, masked_write, rng):
    """Combinational check of one DFIPhaseAdapter against the JEDEC golden encoder"""
    vec = adapter_vectors(rng)
    dynamic = masked_write is None
    stats = defaultdict(int)
    def gen(dut):
        for n, c in enumerate(vec):
            mw = rng.randrange(2) if dynamic else masked_write
            yield from drive_phases(dut.dfi, [c])
            if dynamic:
                yield dut.masked_write.eq(mw)
            yield
            valid = (yield dut.adapter.valid)
            cs = (yield dut.adapter.cs)
            ca = []
            for s in dut.adapter.ca:
                ca.append((yield s))
            e = enc4(c, mw)
            check(valid == int(e is not None), "%s: vector %d %r: valid=%d" % (tag, n, c, valid))
            if e is None:
                e = [(0, [0]*6)] * 4
            else:
                stats[kind_of(c), mw] += 1
            exp_cs = sum(v << i for i, (v, _) in enumerate(e))
            exp_ca = [sum(b << i for i, b in enumerate(w)) for _, w in e]
            check(cs == exp_cs and ca == exp_ca, "%s: vector %d %r mw=%d: cs=%x ca=%r, golden cs=%x ca=%r" % (
                tag, n, c, mw, cs, ca, exp_cs, exp_ca))
    dut = OneAdapter(Signal() if dynamic else masked_write)
    run_simulation(dut, gen(dut), clocks=CLK_SYS)
    for mw in ([0, 1] if dynamic else [int(masked_write)]):
        check(stats["WR", mw] > 50 and stats["RD", mw] > 50, tag + ": writes not exercised")
    return len(vec)

def main():
    t0 = time.time()
    rng = random.Random(21)

    # the merged row must still describe 6 CA bits per edge and both variants must be reachable
    for name, (e1, e2) in cmd4.Command.TRUTH_TABLE.items():
        check(len(e1.split()) == 6 and len(e2.split()) == 6, "truth table row %s" % name)

    # 1. one adapter, combinational, every kind x walking address/bank bits x cs_n, static and dynamic masked_write
    n = 0
    n += check_adapter("adapter masked_write=False", False, rng)
    n += check_adapter("adapter masked_write=True", True, rng)
    n += check_adapter("adapter masked_write=Signal", None, rng)
    print("single adapter vs golden encoder ok, %d vectors (%.0fs)" % (n, time.time() - t0))

    # 2. adapters + pipeline (as wired in LPDDR4PHY) against golden stream and independent decoder
    directed = directed_traffic4()
    check_harness4("directed masked", directed, True, False, want_offset=8)
    check_harness4("directed write", directed, False, False, want_offset=8)
    check_harness4("directed dynamic", directed, None, False, want_offset=8, dynamic_mw=True, rng=rng)
    for seed in range(2):
        seq = random_traffic4(random.Random(200 + seed), 250)
        check_harness4("random%d masked" % seed, seq, True, bool(seed), want_offset=8)
        check_harness4("random%d write" % seed, seq, False, bool(seed), want_offset=8)
        check_harness4("random%d dynamic" % seed, seq, None, False, want_offset=8, dynamic_mw=True, rng=rng)
    print("LPDDR4 adapters + pipeline vs golden ok (%.0fs)" % (time.time() - t0))

    # 3. whole PHYs, single and double rate, both write variants
    seq = random_traffic4(rng, 120)
    for mw in (True, False):
        check_phy4("LPDDR4PHY masked_write=%d" % mw, seq, False, masked_write=mw, want_offset=8)
        check_phy4("DoubleRateLPDDR4PHY masked_write=%d" % mw, seq, True, masked_write=mw, want_offset=16)
    print("LPDDR4 PHYs vs golden ok (%.0fs)" % (time.time() - t0))
    print("keep_2: OK")

if __name__ == "__main__":
    main()
