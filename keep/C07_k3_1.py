#!/usr/bin/env python3
# Check for change 1 (up-converter: redundant wdata_sel mask register removed).
# Randomised traffic through the real LiteDRAMNativePortConverter against a byte-addressed
# reference memory; controller side is an in-order memory model with random handshake timings.
import os, sys, random
from collections import deque
sys.path.insert(0, os.getcwd())

from migen import *
from litedram.common import LiteDRAMNativePort
from litedram.frontend.adapter import LiteDRAMNativePortConverter

ADDR_W = 16


class DUT(Module):
    def __init__(self, mode, uw, cw, reverse=False):
        self.user = LiteDRAMNativePort(mode=mode, address_width=ADDR_W, data_width=uw)
        self.ctrl = LiteDRAMNativePort(mode=mode, address_width=ADDR_W, data_width=cw)
        self.submodules.conv = LiteDRAMNativePortConverter(self.user, self.ctrl, reverse)


def user_byte(uw, cw, reverse, addr, b):
    """memory byte index of byte b of user word addr"""
    ub = uw//8
    cb = cw//8
    if uw < cw:
        ratio = cw//uw
        wide, chunk = divmod(addr, ratio)
        pos = ratio - 1 - chunk if reverse else chunk
        return wide*cb + pos*ub + b
    elif uw > cw:
        ratio = uw//cw
        p, bb = divmod(b, cb)
        k = ratio - 1 - p if reverse else p
        return (addr*ratio + k)*cb + bb
    return addr*ub + b


def run_one(mode, uw, cw, seed, nops=120, reverse=False, naddr=None, style=None, verbose=False):
    rng = random.Random(seed)
    dut = DUT(mode, uw, cw, reverse)
    user, ctrl = dut.user, dut.ctrl
    ub, cb = uw//8, cw//8
    ratio = max(uw, cw)//min(uw, cw)
    if naddr is None:
        naddr = 3*ratio if uw < cw else 6
    memsize = (naddr*ub + cb - 1)//cb*cb + cb
    init = bytes(rng.randrange(256) for _ in range(memsize))
    mem = bytearray(init)   # controller-side model
    ref = bytearray(init)   # reference

    # ---- operation list -----------------------------------------------------------------------
    style = style or rng.choice(["random", "asc", "desc", "repeat", "mixed"])
    ops = []
    a = rng.randrange(naddr)
    for i in range(nops):
        s = style if style != "mixed" else rng.choice(["random", "asc", "desc", "repeat"])
        if s == "random":
            a = rng.randrange(naddr)
        elif s == "asc":
            a = (a + 1) % naddr
        elif s == "desc":
            a = (a - 1) % naddr
        elif s == "repeat":
            if rng.random() < 0.3:
                a = rng.randrange(naddr)
        if mode == "both":
            we = int(rng.random() < 0.5) if rng.random() < 0.4 else (ops[-1][0] if ops else 1)
        else:
            we = int(mode == "write")
        data = rng.getrandbits(uw)
        be = rng.choice([2**ub - 1, rng.getrandbits(ub), rng.getrandbits(ub)])
        last = int(rng.random() < 0.15) or int(i == nops - 1)
        ops.append((we, a, data, be, last))

    p_idle  = rng.choice([0, 0, 30, 70])
    p_cmd   = rng.choice([100, 80, 40])
    p_w     = rng.choice([100, 70, 30])
    p_r     = rng.choice([100, 70, 30])
    p_flush = rng.choice([0, 0, 5, 20])

    wq       = deque()
    expected = []
    got      = []
    state    = {"cmd_done": False, "ctrl_cmds": 0, "ctrl_w": 0, "ctrl_r": 0}

    def cmd_gen():
        for (we, a, data, be, last) in ops:
            while rng.randrange(100) < p_idle:
                yield
            yield user.cmd.valid.eq(1)
            yield user.cmd.we.eq(we)
            yield user.cmd.addr.eq(a)
            yield user.cmd.last.eq(last)
            if we:
                wq.append((data, be))   # data offered no later than the command
            yield
            while not (yield user.cmd.ready):
                yield
            # accepted at this edge: commands take effect in acceptance order
            if we:
                for b in range(ub):
                    if (be >> b) & 1:
                        ref[user_byte(uw, cw, reverse, a, b)] = (data >> (8*b)) & 0xff
            else:
                v = 0
                for b in range(ub):
                    v |= ref[user_byte(uw, cw, reverse, a, b)] << (8*b)
                expected.append(v)
            yield user.cmd.valid.eq(0)
        state["cmd_done"] = True

    @passive
    def flush_gen():
        while True:
            yield user.flush.eq(int(rng.randrange(100) < p_flush))
            yield

    @passive
    def wdata_gen():
        if not hasattr(user, "wdata"):
            return
        while True:
            if wq:
                data, be = wq[0]
                yield user.wdata.valid.eq(1)
                yield user.wdata.data.eq(data)
                yield user.wdata.we.eq(be)
                yield
                while not (yield user.wdata.ready):
                    yield
                wq.popleft()
                if not wq:
                    yield user.wdata.valid.eq(0)
                    yield
            else:
                yield

    @passive
    def rdata_gen():
        if not hasattr(user, "rdata"):
            return
        yield user.rdata.ready.eq(1)
        while True:
            if (yield user.rdata.valid):
                got.append((yield user.rdata.data))
            yield

    @passive
    def ctrl_gen():
        has_w = hasattr(ctrl, "wdata")
        has_r = hasattr(ctrl, "rdata")
        pending = deque()
        rout    = deque()
        rvalid  = 0
        while True:
            # handshakes of the current cycle
            if (yield ctrl.cmd.valid) and (yield ctrl.cmd.ready):
                pending.append(((yield ctrl.cmd.we), (yield ctrl.cmd.addr)))
                state["ctrl_cmds"] += 1
            if has_w and (yield ctrl.wdata.valid) and (yield ctrl.wdata.ready):
                assert pending and pending[0][0] == 1
                _, A = pending.popleft()
                d = (yield ctrl.wdata.data)
                w = (yield ctrl.wdata.we)
                for b in range(cb):
                    if (w >> b) & 1:
                        mem[(A*cb + b) % memsize] = (d >> (8*b)) & 0xff
                state["ctrl_w"] += 1
            if has_r and rvalid and (yield ctrl.rdata.ready):
                rout.popleft()
                rvalid = 0
                state["ctrl_r"] += 1
            # in-order processing of reads
            while pending and pending[0][0] == 0:
                _, A = pending.popleft()
                v = 0
                for b in range(cb):
                    v |= mem[(A*cb + b) % memsize] << (8*b)
                rout.append(v)
            # drives for the next cycle
            yield ctrl.cmd.ready.eq(int(rng.randrange(100) < p_cmd))
            if has_w:
                yield ctrl.wdata.ready.eq(int(bool(pending) and pending[0][0] == 1
                                              and rng.randrange(100) < p_w))
            if has_r:
                if not rvalid and rout and rng.randrange(100) < p_r:
                    rvalid = 1
                    yield ctrl.rdata.data.eq(rout[0])
                yield ctrl.rdata.valid.eq(rvalid)
            yield

    def main():
        yield from cmd_gen()
        n = 0
        # let everything drain
        while n < 400 + 40*ratio:
            n += 1
            yield
        # slow controller side: wait (bounded) for the backlog, then some more for stray beats
        n = 0
        while (len(got) < len(expected) or wq) and n < 30000:
            n += 1
            yield
        for _ in range(100):
            yield

    run_simulation(dut, [main(), flush_gen(), wdata_gen(), rdata_gen(), ctrl_gen()])

    tag = "mode=%s uw=%d cw=%d seed=%d style=%s rev=%d" % (mode, uw, cw, seed, style, reverse)
    assert state["cmd_done"], tag
    assert not wq, "write data not consumed: " + tag
    assert len(got) == len(expected), "read count %d != %d: %s" % (len(got), len(expected), tag)
    for i, (g, e) in enumerate(zip(got, expected)):
        assert g == e, "read %d: got %x expected %x: %s" % (i, g, e, tag)
    assert mem == ref, "final memory differs: " + tag
    if verbose:
        print("ok", tag, "reads", len(got), "ctrl cmds", state["ctrl_cmds"])
    return state


def campaign(configs, seeds, **kw):
    n = 0
    for (mode, uw, cw) in configs:
        for seed in seeds:
            run_one(mode, uw, cw, seed, **kw)
            n += 1
    return n


if __name__ == "__main__":
    quick = "--quick" in sys.argv
    seeds = range(2 if quick else 4)
    n = 0
    # change 1 lives in the write datapath of the up-converter: all up ratios, write and both modes
    up = [(m, 8, 8*r) for r in (2, 4, 8, 16, 32) for m in ("write", "both")]
    up += [("both", 16, 64), ("write", 32, 64), ("read", 8, 32)]
    n += campaign(up, seeds)
    n += campaign([("both", 8, 32), ("write", 8, 16), ("both", 16, 128)], seeds, reverse=True)
    for style in ("desc", "repeat", "asc"):
        n += campaign([("both", 8, 32), ("write", 8, 64)], seeds, style=style)
    # sanity: down-converter untouched
    n += campaign([("both", 16, 8), ("both", 32, 8)], range(2))
    print("keep_1: %d runs passed" % n)
