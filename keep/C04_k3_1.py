# ---- shared harness: full LiteDRAMController (refresher + bank machines + multiplexer) under traffic ----
import os, sys, random
sys.path.insert(0, os.getcwd())

from migen import *
from litedram.common import PhySettings, GeomSettings, TimingSettings
from litedram.core.controller import LiteDRAMController, ControllerSettings


def build(nphases=2, postponing=1, tREFI=100, tRP=3, tRFC=7, tZQCS=None, zq_period=700,
          bankbits=2, auto_precharge=True, memtype="DDR3"):
    phy = PhySettings(phytype="SIM", memtype=memtype, databits=16, dfi_databits=32, nphases=nphases,
        rdphase=0, wrphase=nphases-1 if nphases > 1 else 0, cl=6, cwl=5, read_latency=5, write_latency=1)
    geom = GeomSettings(bankbits=bankbits, rowbits=13, colbits=10)
    tim = TimingSettings(tRP=tRP, tRCD=3, tWR=4, tWTR=3, tREFI=tREFI, tRFC=tRFC, tFAW=12, tCCD=2,
        tRRD=2, tRC=12, tRAS=8, tZQCS=tZQCS)
    cs = ControllerSettings(refresh_postponing=postponing, refresh_zqcs_freq=1.0,
        with_auto_precharge=auto_precharge)
    # clk_freq/zqcs_freq = zq_period cycles
    dut = LiteDRAMController(phy, geom, tim, clk_freq=zq_period, controller_settings=cs)
    dut.P, dut.tREFI, dut.tRP, dut.tRFC, dut.tZQCS, dut.zq_period = postponing, tREFI, tRP, tRFC, tZQCS, zq_period
    dut.nphases, dut.nbanks = nphases, 2**bankbits
    return dut


def traffic(dut, n, mode, rng, stats):
    bank = getattr(dut.interface, "bank%d" % n)
    aw = dut.interface.address_width
    if mode == "idle" or (mode == "single" and n != 0):
        return
    while stats["now"][0] < stats["end"]:
        if mode == "random" and rng.random() < 0.3:
            for _ in range(rng.randrange(1, 40)):
                yield
        we = {"write": 1, "read": 0}.get(mode, rng.randrange(2))
        if rng.random() < 0.5:
            addr = rng.randrange(2**aw)                     # row miss most of the time
        else:
            addr = rng.randrange(2**7)                      # row hits
        yield bank.valid.eq(1)
        yield bank.we.eq(we)
        yield bank.addr.eq(addr)
        yield
        while not (yield bank.ready):
            if stats["now"][0] >= stats["end"]:
                return
            yield
        stats["accepted"].append(stats["now"][0])
        yield bank.valid.eq(0)
        if mode == "random" and rng.random() < 0.5:
            yield


def monitor(dut, cycles, log, stats):
    for t in range(cycles):
        stats["now"][0] = t
        for ph in dut.dfi.phases:
            cs_n, ras_n, cas_n, we_n = (yield ph.cs_n), (yield ph.ras_n), (yield ph.cas_n), (yield ph.we_n)
            if cs_n & 1:
                continue
            k = (ras_n, cas_n, we_n)
            if k == (1, 1, 1):
                continue
            a = (yield ph.address)
            name = {(0, 0, 1): "REF", (0, 1, 0): "PRE", (0, 1, 1): "ACT", (1, 0, 1): "RD", (1, 0, 0): "WR",
                    (1, 1, 0): "ZQ"}.get(k, "???")
            if name == "PRE" and (a >> 10) & 1:
                name = "PREA"
            log.append((t, name))
        yield


def run(dut, mode, seed, cycles):
    rng = random.Random(seed)
    log, stats = [], {"accepted": [], "now": [0], "end": cycles - 2}
    gens = [monitor(dut, cycles, log, stats)]
    gens += [traffic(dut, n, mode, random.Random(rng.random()), stats) for n in range(dut.nbanks)]
    gens = [g for g in gens if g is not None]
    run_simulation(dut, gens)
    return log, stats


def check(dut, log, stats, cycles, mode, tag, zq_tight=False):
    P, tREFI = dut.P, dut.tREFI
    # fixed service latency: finish the command in flight (tRAS/tWTP/tRCD/tRP...), bus hand-over, P sequences
    L = 60 + P*(dut.tRP + dut.tRFC + 2) + ((dut.tRP + dut.tZQCS + 2) if dut.tZQCS else 0)
    refs = [t for t, n in log if n == "REF"]
    assert "???" not in [n for _, n in log], tag
    # 1. deadline of the k-th refresh, and long-run rate
    for k, t in enumerate(refs, start=1):
        assert t <= (k + P)*tREFI + L, (tag, "REF late", k, t, (k + P)*tREFI + L)
    expected = (cycles - L)//(P*tREFI)*P - P
    assert len(refs) >= expected, (tag, "too few REF", len(refs), expected)
    # never more refreshes than elapsed intervals (no over-refresh): k-th REF not before k/P bursts
    for k, t in enumerate(refs, start=1):
        assert t >= ((k + P - 1)//P)*P*tREFI, (tag, "REF early", k, t)
    # 2. every REF is preceded by precharge-all with no ACT/RD/WR in between; REF-REF / REF-next cmd >= tRFC
    last_prea, closed = None, False
    last_ref = None
    for t, n in log:
        if n == "PREA":
            closed, last_prea = True, t
        elif n in ("ACT", "RD", "WR"):
            closed = False
            if last_ref is not None:
                assert t - last_ref >= dut.tRFC, (tag, "tRFC violated", t, last_ref)
        elif n in ("REF", "ZQ"):
            assert closed, (tag, n + " without precharge-all", t)
            assert t - last_prea >= dut.tRP, (tag, "tRP violated", t)
            if last_ref is not None:
                assert t - last_ref >= dut.tRFC, (tag, "tRFC violated (REF-REF)", t, last_ref)
            if n == "REF":
                last_ref = t
                closed = True
    # 3. traffic resumes after each refresh burst
    if mode != "idle":
        bursts = refs[P-1::P]
        for b0, b1 in zip(bursts, bursts[1:]):
            n_acc = sum(1 for t in stats["accepted"] if b0 < t <= b1)
            assert n_acc > 0, (tag, "no traffic between refreshes", b0, b1)
        assert any(n in ("RD", "WR") for _, n in log), tag
    # 4. ZQCS recurs at its period
    if dut.tZQCS:
        zqs = [t for t, n in log if n == "ZQ"]
        for k, t in enumerate(zqs, start=1):
            slack = 0 if zq_tight else (k - 1)*(P*tREFI + L)   # unmodified timer restarts after each ZQCS
            assert t <= k*dut.zq_period + (P + 1)*tREFI + L + slack, (tag, "ZQ late", k, t)
        assert len(zqs) >= (cycles - (P + 1)*tREFI - L)//(dut.zq_period + P*tREFI + L), (tag, "too few ZQ", len(zqs))
        assert len(zqs) >= 1, (tag, "no ZQ")
    return refs
# ---- end of shared harness ----

# keep_1: RefreshSequencer bookkeeping as a shifted string of ones instead of a binary down counter.
from litedram.core.multiplexer import cmd_request_rw_layout
from litedram.core.refresher import RefreshSequencer, RefreshExecuter


class RefSequencer(Module):
    """Verbatim copy of the unmodified RefreshSequencer (binary counter)."""
    def __init__(self, cmd, trp, trfc, postponing=1):
        self.start = Signal()
        self.done  = Signal()
        executer = RefreshExecuter(cmd, trp, trfc)
        self.submodules += executer
        count = Signal(bits_for(postponing), reset=postponing-1)
        self.sync += [
            If(self.start,
                count.eq(count.reset)
            ).Elif(executer.done,
                If(count != 0,
                    count.eq(count - 1)
                )
            )
        ]
        self.comb += executer.start.eq(self.start | (count != 0))
        self.comb += self.done.eq(executer.done & (count == 0))


def seq_trace(cls, trp, trfc, P, starts):
    cmd = Record(cmd_request_rw_layout(a=14, ba=3))
    dut = cls(cmd, trp, trfc, P)
    tr = []
    def gen():
        for s in starts:
            yield dut.start.eq(s)
            yield
            tr.append(((yield dut.done), (yield cmd.a), (yield cmd.ras), (yield cmd.cas), (yield cmd.we)))
    run_simulation(dut, gen())
    return tr


def main():
    rng = random.Random(4)
    # (a) cycle-exact equivalence with the unmodified sequencer, postponing 1..8.  The unmodified counter resets
    #     to postponing-1 and therefore runs postponing-1 dummy sequences right after reset (never on the bus,
    #     the refresher FSM is IDLE): starts are issued after that boot phase, as in the Refresher (>= tREFI).
    for P in range(1, 9):
        for trp, trfc in [(1, 2), (2, 5), (3, 7), (4, 9)]:
            boot = (P + 1)*(trp + trfc + 3)
            starts = [0]*boot
            for _ in range(6):
                starts += [1] + [0]*(P*(trp + trfc + 1) + rng.randrange(3, 30))
            a = seq_trace(RefSequencer,     trp, trfc, P, starts)
            b = seq_trace(RefreshSequencer, trp, trfc, P, starts)
            assert a[boot:] == b[boot:], ("sequencer differs", P, trp, trfc)
            assert sum(x[0] for x in b) == 6, ("done pulses", P, trp, trfc)
            nref = sum(1 for x in b[boot:] if (x[2], x[3], x[4]) == (1, 1, 0))
            assert nref == 6*P, ("refresh count", P, nref)
    print("sequencer equivalence ok")
    # (b) the property on the full controller under traffic
    cycles = 1500
    confs = [("sat", 1, 1, None), ("random", 3, 2, 5), ("single", 8, 4, None), ("write", 2, 2, 5),
             ("read", 4, 1, None), ("idle", 5, 2, 5), ("random", 7, 4, None), ("sat", 6, 2, 5)]
    for i, (mode, P, nph, tzq) in enumerate(confs):
        cyc = max(cycles, (P + 3)*100 + 300)
        dut = build(nphases=nph, postponing=P, tREFI=100, tZQCS=tzq, zq_period=450)
        log, stats = run(dut, mode, 100 + i, cyc)
        refs = check(dut, log, stats, cyc, mode, (mode, P, nph, tzq))
        assert len(refs) % P == 0 or refs[-1] > cyc - 40, ("burst not complete", mode, P)
        print("ok", mode, P, nph, tzq, len(refs))
    print("PASS")

if __name__ == "__main__":
    main()
