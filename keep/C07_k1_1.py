# ---- common harness: byte-accurate model + randomised master / controller-side stub ----------------
import os, sys, random
sys.path.insert(0, os.getcwd())

from migen import *
from litedram.common import LiteDRAMNativePort


class Op:
    def __init__(self, we, addr, data=0, be=0, last=0, gap=0, early=False):
        self.we, self.addr, self.data, self.be = we, addr, data, be
        self.last, self.gap, self.early = last, gap, early
        self.offered = False


def user_byte_addrs(a, wu, wn, reverse):
    """Byte addresses (in the controller-side memory) of the wu bytes of user word a."""
    if wu < wn:      # up-conversion: user narrower
        ratio = wn//wu
        c     = a % ratio
        pos   = ratio - 1 - c if reverse else c
        base  = (a//ratio)*wn + pos*wu
        return [base + j for j in range(wu)]
    elif wu > wn:    # down-conversion: user wider
        ratio = wu//wn
        res = []
        for n in range(ratio):
            pos = ratio - 1 - n if reverse else n
            res += [(a*ratio + pos)*wn + j for j in range(wn)]
        return res
    else:
        return [a*wn + j for j in range(wn)]


def gen_ops(rng, n, mode, nwords_user, wu, style):
    """Command sequence; address order selected by `style`."""
    ops  = []
    addr = rng.randrange(nwords_user)
    for k in range(n):
        if style == "asc":
            addr = (addr + 1) % nwords_user
        elif style == "desc":
            addr = (addr - 1) % nwords_user
        elif style == "rep":
            if rng.random() < 0.3:
                addr = rng.randrange(nwords_user)
        elif style == "local":   # random walk inside a few wide words
            addr = (addr + rng.choice([-3, -2, -1, -1, 0, 0, 1, 1, 2, 3])) % nwords_user
        else:
            addr = rng.randrange(nwords_user)
        if mode == "both":
            if style in ("asc", "desc") and k and rng.random() < 0.8:
                we = ops[-1].we
            else:
                we = rng.random() < 0.5
        else:
            we = mode == "write"
        be = rng.choice([2**wu - 1, 2**wu - 1, rng.getrandbits(wu), rng.getrandbits(wu), 0])
        ops.append(Op(
            we    = int(we),
            addr  = addr,
            data  = rng.getrandbits(8*wu),
            be    = be,
            last  = int(rng.random() < 0.15),
            gap   = rng.choice([0, 0, 0, 0, 1, 2, 5]) if rng.random() < 0.7 else rng.randrange(12),
            early = rng.random() < 0.3))
    return ops


class Bench:
    def __init__(self, dut, port_from, port_to, ops, rng, reverse=False, blind=True,
                 p_cmd=0.7, p_w=0.7, p_r=0.7, wlat=2, rlat=2, p_flush=0.05, depth=8, timeout=None):
        self.dut, self.pf, self.pt = dut, port_from, port_to
        self.ops, self.rng, self.reverse, self.blind = ops, rng, reverse, blind
        self.p_cmd, self.p_w, self.p_r, self.wlat, self.rlat, self.p_flush = p_cmd, p_w, p_r, wlat, rlat, p_flush
        self.mode = port_from.mode
        self.wu, self.wn = port_from.data_width//8, port_to.data_width//8
        self.depth = depth                        # controller-side words
        init = [rng.getrandbits(8) for _ in range(depth*self.wn)]
        self.model = bytearray(init)              # reference
        self.mem   = bytearray(init)              # what the controller-side stub holds
        self.errors = []
        self.rdata  = []
        self.expected_rdata = []
        self.master_done = False
        self.slave_idle  = True
        self.ctrl_cmds = []
        self.extra = []
        self.timeout = timeout or (400 + 60*len(ops)*max(1, self.wu//self.wn))
        # Reference result, commands applied in issue order.
        for op in ops:
            ba = user_byte_addrs(op.addr, self.wu, self.wn, reverse)
            if op.we:
                for j, b in enumerate(ba):
                    if (op.be >> j) & 1:
                        self.model[b] = (op.data >> (8*j)) & 0xff
            else:
                self.expected_rdata.append(sum(self.model[b] << (8*j) for j, b in enumerate(ba)))

    # User side: holds commands until accepted, offers write data no later than the command and holds
    # it, always accepts read data.
    def master(self):
        p, ops, rng = self.pf, self.ops, self.rng
        i, gap = 0, 0
        cmd_on = wd_on = False
        if self.mode in ["read", "both"]:
            yield p.rdata.ready.eq(1)
        yield
        while True:
            if cmd_on and (yield p.cmd.ready):
                cmd_on = False
                yield p.cmd.valid.eq(0)
                gap = ops[i].gap
                i  += 1
            if wd_on and (yield p.wdata.ready):
                wd_on = False
                yield p.wdata.valid.eq(0)
            if self.mode in ["read", "both"] and (yield p.rdata.valid):
                self.rdata.append((yield p.rdata.data))
            if not cmd_on and i < len(ops):
                op = ops[i]
                if op.we and not op.offered and not wd_on and (op.early or gap == 0):
                    op.offered = wd_on = True
                    yield p.wdata.valid.eq(1)
                    yield p.wdata.data.eq(op.data)
                    yield p.wdata.we.eq(op.be)
                if gap > 0:
                    gap -= 1
                elif (not op.we) or op.offered:
                    cmd_on = True
                    yield p.cmd.valid.eq(1)
                    yield p.cmd.we.eq(op.we)
                    yield p.cmd.addr.eq(op.addr)
                    yield p.cmd.last.eq(op.last)
            if i >= len(ops) and not cmd_on:
                yield p.flush.eq(1)    # let the converter drain what it still holds
                self.master_done = not wd_on
            else:
                yield p.flush.eq(int(rng.random() < self.p_flush))
            yield

    # Controller side: accepts commands at random, executes them in order; write data is fetched with a
    # `wdata.ready` pulse some cycles after the command (blind: as the crossbar does, without looking at
    # valid), read data comes back as single-cycle `rdata.valid` pulses without back-pressure.
    def slave(self):
        p, rng, wn = self.pt, self.rng, self.wn
        pend, rret, t = [], [], 0
        while True:
            if (yield p.cmd.valid) and (yield p.cmd.ready):
                pend.append(((yield p.cmd.we), (yield p.cmd.addr), t))
                self.ctrl_cmds.append(pend[-1][:2])
            if self.mode in ["write", "both"] and (yield p.wdata.ready):
                if (yield p.wdata.valid):
                    assert pend and pend[0][0]
                    _, addr, _ = pend.pop(0)
                    data, we = (yield p.wdata.data), (yield p.wdata.we)
                    for j in range(wn):
                        if (we >> j) & 1:
                            self.mem[(addr % self.depth)*wn + j] = (data >> (8*j)) & 0xff
                    if addr >= self.depth:
                        self.errors.append("write outside memory: 0x%x" % addr)
                elif self.blind:
                    self.errors.append("t=%d: controller fetched write data but none was offered" % t)
                    if pend and pend[0][0]:
                        pend.pop(0)
            if self.mode in ["read", "both"] and (yield p.rdata.valid) and not (yield p.rdata.ready):
                self.errors.append("t=%d: read data beat dropped" % t)
            while pend and not pend[0][0]:
                _, addr, _ = pend.pop(0)
                if addr >= self.depth:
                    self.errors.append("read outside memory: 0x%x" % addr)
                base = (addr % self.depth)*wn
                rret.append((sum(self.mem[base + j] << (8*j) for j in range(wn)), t + self.rlat))
            yield p.cmd.ready.eq(int(rng.random() < self.p_cmd))
            if self.mode in ["write", "both"]:
                go = bool(pend) and pend[0][0] and (t + 1 >= pend[0][2] + self.wlat) and rng.random() < self.p_w
                yield p.wdata.ready.eq(int(go))
            if self.mode in ["read", "both"]:
                if rret and t + 1 >= rret[0][1] and rng.random() < self.p_r:
                    yield p.rdata.valid.eq(1)
                    yield p.rdata.data.eq(rret.pop(0)[0])
                else:
                    yield p.rdata.valid.eq(0)
                    yield p.rdata.data.eq(rng.getrandbits(8*wn))
            self.slave_idle = not pend and not rret
            t += 1
            yield

    def control(self):
        t = quiet = 0
        need = 40 + 4*max(self.wu//self.wn, self.wn//self.wu)
        while quiet < need:     # finished and nothing spurious coming afterwards
            t += 1
            if t > self.timeout:
                self.errors.append("timeout: stuck after %d cycles (%d/%d read words returned)" % (
                    t, len(self.rdata), len(self.expected_rdata)))
                return
            if (self.master_done and self.slave_idle and len(self.rdata) >= len(self.expected_rdata)
                and not (yield self.pt.cmd.valid)):
                quiet += 1
            else:
                quiet = 0
            yield

    def run(self):
        @passive
        def m(): yield from self.master()
        @passive
        def s(): yield from self.slave()
        run_simulation(self.dut, [self.control(), m(), s()] + self.extra)
        if not self.slave_idle:
            self.errors.append("controller side still has pending commands at the end")
        if self.rdata != self.expected_rdata:
            self.errors.append("read data mismatch: got %d words, expected %d; first difference at #%s" % (
                len(self.rdata), len(self.expected_rdata),
                next((k for k, (a, b) in enumerate(zip(self.rdata, self.expected_rdata)) if a != b), "-")))
        if self.mem != self.model:
            bad = [k for k in range(len(self.mem)) if self.mem[k] != self.model[k]]
            self.errors.append("memory mismatch at bytes %s" % bad[:8])
        return self.errors

# ---- keep_1: down-converter with running address register and no IDLE bubble -----------------------
import itertools, time
from multiprocessing import Pool
from litedram.frontend.adapter import LiteDRAMNativePortConverter, LiteDRAMNativePortDownConverter


class DUT(Module):
    def __init__(self, mode, wu, wn, reverse, aw_from=32, aw_to=32):
        self.pf = LiteDRAMNativePort(mode, aw_from, wu)
        self.pt = LiteDRAMNativePort(mode, aw_to,   wn)
        self.submodules.conv = LiteDRAMNativePortConverter(self.pf, self.pt, reverse)
        assert isinstance(self.conv.converter, LiteDRAMNativePortDownConverter)


def traffic(args):
    wu, wn, mode, style, reverse, seed = args
    rng   = random.Random(repr(args))
    ratio = wu//wn
    depth = 4*ratio
    kw = dict(blind=rng.random() < 0.7, p_cmd=rng.choice([1.0, 0.7, 0.3]), p_w=rng.choice([1.0, 0.7, 0.3]),
              p_r=rng.choice([1.0, 0.7, 0.3]), wlat=rng.choice([1, 2, 4]), rlat=rng.choice([1, 2, 6]),
              p_flush=rng.choice([0, 0.05, 0.3]))
    dut = DUT(mode, wu, wn, reverse)
    ops = gen_ops(rng, 40, mode, depth*wn//wu, wu//8, style)
    b   = Bench(dut, dut.pf, dut.pt, ops, rng, reverse=reverse, depth=depth, **kw)
    errs = b.run()
    # Every user command must have become exactly `ratio` consecutive controller commands.
    exp = [(op.we, op.addr*ratio + k) for op in ops for k in range(ratio)]
    if b.ctrl_cmds != exp:
        errs.append("controller command stream differs from the expected split")
    return args, kw, errs


def addressing(args):
    """Full-range addresses (incl. wrap-around when both ports have the same address width), random
    acceptance; checks the exact controller command stream."""
    ratio, aw_from, aw_to, p_ready, seed = args
    rng  = random.Random(repr(args))
    dut  = DUT("read", 8*ratio, 8, False, aw_from, aw_to)
    cmds = [(rng.getrandbits(1), rng.choice([0, 2**aw_from - 1, rng.getrandbits(aw_from)])) for _ in range(30)]
    got = []
    def master():
        for we, a in cmds:
            yield dut.pf.cmd.valid.eq(1)
            yield dut.pf.cmd.we.eq(we)
            yield dut.pf.cmd.addr.eq(a)
            yield
            while not (yield dut.pf.cmd.ready):
                yield
            if rng.random() < 0.3 and p_ready < 1:
                yield dut.pf.cmd.valid.eq(0)
                for _ in range(rng.randrange(4)):
                    yield
        yield dut.pf.cmd.valid.eq(0)
        for _ in range(4*ratio + 20):
            yield
    @passive
    def slave():
        while True:
            if (yield dut.pt.cmd.valid) and (yield dut.pt.cmd.ready):
                got.append(((yield dut.pt.cmd.we), (yield dut.pt.cmd.addr)))
            yield dut.pt.cmd.ready.eq(int(rng.random() < p_ready))
            yield
    run_simulation(dut, [master(), slave()])
    exp  = [(we, (a*ratio + k) % 2**aw_to) for we, a in cmds for k in range(ratio)]
    errs = [] if got == exp else ["command stream %s... != %s..." % (got[:6], exp[:6])]
    return args, {}, errs


if __name__ == "__main__":
    t0 = time.time()
    nseeds = int(sys.argv[1]) if len(sys.argv) > 1 else 2
    cfgs   = [(16, 8), (32, 8), (64, 8), (32, 16), (64, 16), (128, 16), (64, 32), (24, 8)]
    jobs_t = [(wu, wn, mode, style, reverse, seed)
        for (wu, wn), mode, style, reverse, seed in itertools.product(
            cfgs, ["both", "write", "read"], ["asc", "desc", "rep", "local", "rand"], [False, True], range(nseeds))]
    jobs_a = [(ratio, aw_from, aw_to, p, seed)
        for ratio, (aw_from, aw_to) in [(2, (32, 32)), (4, (32, 32)), (8, (32, 32)), (3, (32, 32)),
                                        (2, (9, 10)), (4, (8, 10)), (8, (7, 10)), (3, (8, 10))]
        for p in [1, 0.5] for seed in range(2)]
    nfail = 0
    with Pool(int(os.environ.get("JOBS", "4"))) as pool:
        for fn, jobs in [(addressing, jobs_a), (traffic, jobs_t)]:
            for args, kw, errs in pool.imap_unordered(fn, jobs, chunksize=4):
                if errs:
                    nfail += 1
                    print("FAIL", fn.__name__, args, kw, errs[:3])
    print("%d runs, %d failed, %.0f s" % (len(jobs_t) + len(jobs_a), nfail, time.time() - t0))
    sys.exit(1 if nfail else 0)
