#!/usr/bin/env python3
# Property C11 check harness: Avalon-MM -> LiteDRAM native port bridge (litedram/frontend/avalon.py).
#
# Run from the root of a litedram tree:   python keep_N.py
#
# The harness drives the REAL LiteDRAMAvalonMM2Native with
#   - a randomised, protocol-legal Avalon-MM master (single / burst reads and writes, random byte
#     enables, idle gaps between accesses and inside write bursts, address/burstcount only
#     meaningful on the first beat of a burst),
#   - a randomised native-port memory model (cmd.ready stalls, also ready without valid,
#     wdata.ready stalls, read latency, rdata gaps),
# and checks against a golden byte-addressed memory:
#   - every read returns exactly n readdatavalid beats with the data of consecutive addresses,
#   - the final memory contents equal the golden memory (each write updates exactly the addressed
#     words under their byte enables, nothing dropped / repeated).
# It also contains a frozen copy of the unmodified implementation (RefAvalonMM2Native) that is run
# under the same seeds so the behaviours can be compared.

import os
import sys
import random

sys.path.insert(0, os.getcwd())

from math import log2

from migen import *

from litex.gen import *
from litex.gen.sim import run_simulation

from litex.soc.interconnect import stream
from litex.soc.interconnect import avalon as litex_avalon

from litedram.common import LiteDRAMNativePort
from litedram.frontend.adapter import LiteDRAMNativePortConverter
from litedram.frontend.avalon import LiteDRAMAvalonMM2Native

# Frozen copy of the unmodified implementation --------------------------------------------------

class RefAvalonMM2Native(LiteXModule):
    def __init__(self, avalon, port, *, max_burst_length=16, base_address=0x00000000, burst_increment=1):
        # Parameters.
        avalon_data_width = len(avalon.writedata)
        port_data_width   = 2**int(log2(len(port.wdata.data))) # Round to lowest power 2
        ratio             = avalon_data_width/port_data_width
        downconvert       = ratio > 1
        upconvert         = ratio < 1

        # Data-Width Converter (Optional).
        if avalon_data_width != port_data_width:
            if avalon_data_width > port_data_width:
                addr_shift = -log2_int(avalon_data_width//port_data_width)
            else:
                addr_shift = log2_int(port_data_width//avalon_data_width)
            new_port = LiteDRAMNativePort(
                mode          = port.mode,
                address_width = port.address_width + addr_shift,
                data_width    = avalon_data_width
            )
            self.converter = LiteDRAMNativePortConverter(new_port, port)
            port = new_port

        # # #

        # Internal Signals.
        burst_count     = Signal(9)
        address         = Signal(port.address_width)
        address_offset  = Signal(port.address_width)
        byteenable      = Signal(avalon_data_width//8)
        writedata       = Signal(avalon_data_width)
        latch           = Signal()
        cmd_ready_seen  = Signal()
        cmd_ready_count = Signal(9)

        self.comb += address_offset.eq(base_address >> log2_int(port.data_width//8))

        # Layouts.
        cmd_layout   = [("address", len(address))]
        wdata_layout = [
            ("data",       avalon_data_width),
            ("byteenable", avalon_data_width//8),
        ]

        self.sync += [
            If(latch,
                byteenable.eq(avalon.byteenable),
                writedata.eq(avalon.writedata),
                burst_count.eq(avalon.burstcount),
                address.eq(avalon.address - address_offset),
            )
        ]

        # FSM.
        self.fsm = fsm = FSM(reset_state="START")
        fsm.act("START",
            avalon.waitrequest.eq(1),
            NextValue(cmd_ready_seen, 0),
            # Start of Access.
            If(avalon.read | avalon.write,
                latch.eq(1),
                # Burst Access.
                If(avalon.burstcount > 1,
                    If(avalon.write,
                        NextState("BURST_WRITE")
                    ),
                    If(avalon.read,
                        avalon.waitrequest.eq(0),
                        NextValue(cmd_ready_count, avalon.burstcount),
                        NextState("BURST_READ")
                    )
                # Single Access.
                ).Else(
                    port.cmd.addr.eq(avalon.address - address_offset),
                    port.cmd.we.eq(avalon.write),
                    port.cmd.valid.eq(1),
                    port.cmd.last.eq(1),
                    If(port.cmd.ready,
                        avalon.waitrequest.eq(0),
                        If(port.cmd.we,
                            NextState("SINGLE_WRITE")
                        ).Else(
                            NextState("SINGLE_READ")
                        )
                    )
                )
            )
        )

        fsm.act("SINGLE_WRITE",
            avalon.waitrequest.eq(1),
            port.rdata.ready.eq(0),

            port.wdata.data.eq(writedata),
            port.wdata.valid.eq(1),
            port.wdata.we.eq(byteenable),

            If(port.wdata.ready,
                NextState("START")
            )
        )

        fsm.act("SINGLE_READ",
            avalon.waitrequest.eq(1),
            port.rdata.ready.eq(1),

            If(port.rdata.valid,
                avalon.readdata.eq(port.rdata.data),
                avalon.readdatavalid.eq(1),

                NextState("START")
            )
        )

        self.cmd_fifo   = cmd_fifo   = stream.SyncFIFO(cmd_layout,   max_burst_length)
        self.wdata_fifo = wdata_fifo = stream.SyncFIFO(wdata_layout, max_burst_length)

        fsm.act("BURST_WRITE",
            # FIFO producer
            avalon.waitrequest.eq(~(cmd_fifo.sink.ready & wdata_fifo.sink.ready)),
            cmd_fifo.sink.payload.address.eq(address),
            cmd_fifo.sink.valid.eq(avalon.write & ~avalon.waitrequest),

            wdata_fifo.sink.payload.data.eq(avalon.writedata),
            wdata_fifo.sink.payload.byteenable.eq(avalon.byteenable),
            wdata_fifo.sink.valid.eq(avalon.write & ~avalon.waitrequest),

            If(avalon.write & (burst_count > 0),
                If(cmd_fifo.sink.ready & cmd_fifo.sink.valid,
                    NextValue(burst_count, burst_count - 1),
                    NextValue(address, address + burst_increment)
                )
            ).Else(
                avalon.waitrequest.eq(1),
                # Wait for the FIFO to be empty
                If((burst_count == 0) & (cmd_fifo.level == 0) & (wdata_fifo.level == 1) & port.wdata.ready,
                    NextState("START")
                )
            ),

            # FIFO consumer
            port.cmd.addr.eq(cmd_fifo.source.payload.address),
            port.cmd.we.eq(port.cmd.valid),
            port.cmd.valid.eq(cmd_fifo.source.valid & (0 < wdata_fifo.level)),
            cmd_fifo.source.ready.eq(port.cmd.ready),

            port.wdata.data.eq(wdata_fifo.source.payload.data),
            port.wdata.we.eq(wdata_fifo.source.payload.byteenable),
            port.wdata.valid.eq(wdata_fifo.source.valid),
            wdata_fifo.source.ready.eq(port.wdata.ready),
        )

        fsm.act("BURST_READ",
            avalon.waitrequest.eq(1),
            port.cmd.addr.eq(address),
            port.cmd.we.eq(0),
            port.cmd.valid.eq(~cmd_ready_seen),

            port.rdata.ready.eq(1),
            avalon.readdata.eq(port.rdata.data),
            avalon.readdatavalid.eq(port.rdata.valid),

            If(port.cmd.ready,
                If(cmd_ready_count == 1,
                    NextValue(cmd_ready_seen, 1)
                ),
                NextValue(cmd_ready_count, cmd_ready_count - 1),
                NextValue(address, address + burst_increment)
            ),

            If(port.rdata.valid,
                If(burst_count == 1,
                    NextState("START")
                ),
                NextValue(burst_count, burst_count - 1)
            )
        )

# Configuration -----------------------------------------------------------------------------------

class Cfg:
    def __init__(self, aw=32, pw=32, avl_adr=30, port_adr=30, base=0, mbl=16, span=48, kwargs=None):
        self.aw       = aw        # Avalon data width.
        self.pw       = pw        # Native port data width.
        self.avl_adr  = avl_adr   # Avalon (word) address width.
        self.port_adr = port_adr  # Native port address width.
        self.base     = base      # Base address (bytes).
        self.mbl      = mbl       # max_burst_length (FIFO depth).
        self.span     = span      # Number of Avalon words the traffic is spread over.
        self.kwargs   = kwargs or {}

    def __repr__(self):
        return "Cfg(aw={}, pw={}, avl_adr={}, port_adr={}, base=0x{:x}, mbl={}, span={}, kwargs={})".format(
            self.aw, self.pw, self.avl_adr, self.port_adr, self.base, self.mbl, self.span, self.kwargs)

class Stalls:
    """Memory side / master side randomisation knobs (probabilities in percent)."""
    def __init__(self, cmd_ready=60, wdata_ready=60, rd_lat=(1, 6), rd_gap=30, idle=30, gap=30):
        self.cmd_ready   = cmd_ready    # P(cmd.ready) per cycle.
        self.wdata_ready = wdata_ready  # P(wdata.ready) per cycle when a write is pending.
        self.rd_lat      = rd_lat       # Read latency range (cycles).
        self.rd_gap      = rd_gap       # P(extra bubble) before each read data beat.
        self.idle        = idle         # P(idle cycle) between master accesses.
        self.gap         = gap          # P(idle cycle) between the beats of a write burst.

    def __repr__(self):
        return "Stalls({})".format(", ".join("{}={}".format(k, v) for k, v in sorted(self.__dict__.items())))

IDEAL = dict(cmd_ready=100, wdata_ready=100, rd_lat=(1, 1), rd_gap=0, idle=0, gap=0)

# Testbench ---------------------------------------------------------------------------------------

class TB(Module):
    def __init__(self, cls, cfg):
        self.cfg  = cfg
        self.avl  = litex_avalon.AvalonMMInterface(data_width=cfg.aw, adr_width=cfg.avl_adr)
        self.port = LiteDRAMNativePort("both", address_width=cfg.port_adr, data_width=cfg.pw)
        self.submodules.dut = cls(self.avl, self.port,
            max_burst_length = cfg.mbl,
            base_address     = cfg.base,
            **cfg.kwargs)

def default_byte(a):
    # Deterministic "uninitialised" memory contents.
    return (a * 0x9d + (a >> 8) * 0x3b + 0x5a) & 0xff

class ByteMem:
    def __init__(self):
        self.m = {}

    def rd(self, a):
        return self.m.get(a, default_byte(a))

    def wr(self, a, v):
        self.m[a] = v & 0xff

    def read_word(self, byte_addr, nbytes):
        return sum(self.rd(byte_addr + i) << (8*i) for i in range(nbytes))

    def write_word(self, byte_addr, nbytes, data, we):
        for i in range(nbytes):
            if (we >> i) & 1:
                self.wr(byte_addr + i, data >> (8*i))

    def content(self):
        # Only the bytes that differ from the default pattern matter.
        return {a: v for a, v in self.m.items() if v != default_byte(a)}

def gen_ops(cfg, rng, n_ops, max_burst, align=1, kinds="wrr", origin=None):
    """Random list of legal Avalon accesses.
       ("w", word_address, [(data, byteenable), ...]) / ("r", word_address, n)
       align: bursts start at a multiple of `align` and have a multiple of `align` beats (used with
       the up-converter, which needs complete native words inside bursts since the bridge only
       flags the last command of single accesses).
       origin: first Avalon word address of the traffic window (default: the base address)."""
    nbytes    = cfg.aw//8
    base_word = cfg.base//nbytes if origin is None else origin
    ops       = []
    for _ in range(n_ops):
        kind = rng.choice("wwr" if len(ops) < n_ops//3 else kinds)
        if rng.randrange(100) < 40:
            n = 1
        elif rng.randrange(100) < 15:
            n = rng.randint(max(2, max_burst - 2), max_burst)
        else:
            n = rng.randint(2, min(max_burst, 9))
        a = base_word + rng.randrange(cfg.span)
        if n > 1 and align > 1:
            n  = max(align, n - n % align)
            a -= (a - base_word) % align
        if kind == "w":
            beats = []
            for _ in range(n):
                be = rng.choice([2**nbytes - 1, 2**nbytes - 1, rng.randrange(2**nbytes), rng.randrange(2**nbytes)])
                beats.append((rng.getrandbits(cfg.aw), be))
            ops.append(("w", a, beats))
        else:
            ops.append(("r", a, n))
    return ops

def golden(cfg, ops, increment=1):
    """Applies the accesses in program order to a golden memory (byte addresses relative to base).
       Returns (golden memory, expected read beats)."""
    nbytes    = cfg.aw//8
    base_word = cfg.base//nbytes
    mem       = ByteMem()
    beats     = []
    wrap      = (2**cfg.port_adr*cfg.pw)//cfg.aw # Size of the native address space in Avalon words.
    for op in ops:
        if op[0] == "w":
            for i, (data, be) in enumerate(op[2]):
                mem.write_word(((op[1] - base_word + i*increment) % wrap)*nbytes, nbytes, data, be)
        else:
            for i in range(op[2]):
                beats.append(mem.read_word(((op[1] - base_word + i*increment) % wrap)*nbytes, nbytes))
    return mem, beats

class Run:
    """One simulation of `cls` under (cfg, stalls, seed, ops)."""
    def __init__(self, cls, cfg, stalls, seed, ops, trace=False, max_idle=1500, max_cycles=60000):
        self.cfg, self.stalls, self.seed, self.ops = cfg, stalls, seed, ops
        self.tb          = TB(cls, cfg)
        self.mem         = ByteMem()
        self.rbeats      = []    # (cycle, readdata) for every readdatavalid beat.
        self.accepts     = []    # (cycle, kind, op index, beat index) for every accepted Avalon beat.
        self.cmds        = []    # (cycle, we, addr) accepted on the native port.
        self.wdatas      = []    # (cycle, data, we) accepted on the native port.
        self.trace       = [] if trace else None
        self.errors      = []
        self.cycle       = 0
        self.master_done = False
        self.abort       = False # Set by the monitor on deadlock / runaway: stops the master.
        self.pending     = []    # Native commands in order: ["w"/"r", addr, ...].
        self.max_idle    = max_idle
        self.max_cycles  = max_cycles
        self.n_rbeats    = sum(op[2] for op in ops if op[0] == "r")

    # Avalon master ------------------------------------------------------------------------------
    def master(self):
        avl, st = self.tb.avl, self.stalls
        rng     = random.Random(self.seed*7919 + 1)
        nbytes  = self.cfg.aw//8
        def garbage():
            yield avl.address.eq(rng.getrandbits(len(avl.address)))
            yield avl.burstcount.eq(rng.getrandbits(8))
        yield
        for k, op in enumerate(self.ops):
            while rng.randrange(100) < st.idle:
                yield
            if op[0] == "w":
                beats = op[2]
                for i, (data, be) in enumerate(beats):
                    if i > 0:
                        # Idle gap inside the burst: write low, everything else don't care.
                        n_gap = 0
                        while rng.randrange(100) < st.gap:
                            n_gap += 1
                        if n_gap:
                            yield avl.write.eq(0)
                            yield avl.writedata.eq(rng.getrandbits(self.cfg.aw))
                            yield avl.byteenable.eq(rng.getrandbits(nbytes))
                            yield from garbage()
                            for _ in range(n_gap):
                                yield
                    yield avl.write.eq(1)
                    yield avl.read.eq(0)
                    yield avl.writedata.eq(data)
                    yield avl.byteenable.eq(be)
                    if i == 0:
                        yield avl.address.eq(op[1])
                        yield avl.burstcount.eq(len(beats))
                    else:
                        # Address / burstcount are only meaningful on the first beat.
                        yield from garbage()
                    yield
                    while (yield avl.waitrequest):
                        if self.abort:
                            return
                        yield
                    self.accepts.append((self.cycle, "w", k, i))
                yield avl.write.eq(0)
            else:
                yield avl.read.eq(1)
                yield avl.write.eq(0)
                yield avl.address.eq(op[1])
                yield avl.burstcount.eq(op[2])
                yield avl.byteenable.eq(rng.getrandbits(nbytes))
                yield avl.writedata.eq(rng.getrandbits(self.cfg.aw))
                yield
                while (yield avl.waitrequest):
                    if self.abort:
                        return
                    yield
                self.accepts.append((self.cycle, "r", k, 0))
                yield avl.read.eq(0)
            # Don't care values between accesses.
            yield from garbage()
            yield avl.writedata.eq(rng.getrandbits(self.cfg.aw))
            yield avl.byteenable.eq(rng.getrandbits(nbytes))
        self.master_done = True

    # Avalon read monitor + cycle counter + end of simulation ---------------------------------
    def monitor(self):
        avl, port = self.tb.avl, self.tb.port
        drain = 0
        last_progress, last_cycle = None, 0
        last_progress_avl, last_cycle_avl = None, 0
        while True:
            if (yield avl.readdatavalid):
                self.rbeats.append((self.cycle, (yield avl.readdata)))
            if self.trace is not None:
                t = [(yield avl.waitrequest), (yield avl.readdatavalid)]
                if t[1]:
                    t.append((yield avl.readdata))
                t.append((yield port.cmd.valid))
                if t[-1]:
                    t += [(yield port.cmd.we), (yield port.cmd.addr)]
                t.append((yield port.wdata.valid))
                if t[-1]:
                    t += [(yield port.wdata.data), (yield port.wdata.we)]
                t.append((yield port.rdata.ready))
                self.trace.append(tuple(t))
            if self.master_done and len(self.rbeats) >= self.n_rbeats and not self.pending:
                drain += 1
                if drain > 64:
                    return
            progress = (len(self.accepts), len(self.rbeats), len(self.cmds), len(self.wdatas))
            if progress != last_progress:
                last_progress, last_cycle = progress, self.cycle
            if len(self.rbeats) > self.n_rbeats + 64 or self.cycle > self.max_cycles:
                self.errors.append("runaway: cycle {}, {} read beats for {} expected".format(
                    self.cycle, len(self.rbeats), self.n_rbeats))
                self.abort = True
                return
            if progress[:2] != last_progress_avl:
                last_progress_avl, last_cycle_avl = progress[:2], self.cycle
            if self.cycle - last_cycle > self.max_idle or self.cycle - last_cycle_avl > 4*self.max_idle:
                self.errors.append("deadlock / livelock: no progress since cycle {} ({} accepted beats, {} read beats)".format(
                    last_cycle_avl, len(self.accepts), len(self.rbeats)))
                self.abort = True
                return
            self.cycle += 1
            yield

    # Native port memory model -----------------------------------------------------------------
    @passive
    def memory(self):
        port, st = self.tb.port, self.stalls
        rng      = random.Random(self.seed*104729 + 2)
        nbytes   = self.cfg.pw//8
        rd_wait  = 0
        while True:
            # Sample the handshakes of the current cycle (same values the flip-flops see).
            cmd_hs   = (yield port.cmd.valid)   and (yield port.cmd.ready)
            wdata_hs = (yield port.wdata.valid) and (yield port.wdata.ready)
            rdata_hs = (yield port.rdata.valid) and (yield port.rdata.ready)
            if wdata_hs:
                if not self.pending or self.pending[0][0] != "w":
                    self.errors.append("cycle {}: write data accepted without write command".format(self.cycle))
                else:
                    data, we = (yield port.wdata.data), (yield port.wdata.we)
                    self.wdatas.append((self.cycle, data, we))
                    self.mem.write_word(self.pending[0][1]*nbytes, nbytes, data, we)
                    self.pending.pop(0)
            if rdata_hs:
                self.pending.pop(0)
            if cmd_hs:
                we, addr = (yield port.cmd.we), (yield port.cmd.addr)
                self.cmds.append((self.cycle, we, addr))
                if we:
                    self.pending.append(["w", addr])
                else:
                    self.pending.append(["r", addr, rng.randint(*st.rd_lat)])
            # Drive the next cycle.
            yield port.cmd.ready.eq(rng.randrange(100) < st.cmd_ready)
            head = self.pending[0] if self.pending else None
            # Write data is only requested for the oldest pending command (strictly in order).
            yield port.wdata.ready.eq(head is not None and head[0] == "w" and rng.randrange(100) < st.wdata_ready)
            rvalid = 0
            if head is not None and head[0] == "r":
                if rdata_hs or not (yield port.rdata.valid):
                    # New beat: wait for its latency (counted from acceptance) and random bubbles.
                    if head[2] > 1:
                        head[2] -= 1
                    elif rng.randrange(100) < st.rd_gap:
                        pass
                    else:
                        rvalid = 1
                else:
                    rvalid = 1 # Hold until accepted.
            for p in self.pending[1:]:
                if p[0] == "r" and p[2] > 1:
                    p[2] -= 1
            yield port.rdata.valid.eq(rvalid)
            if rvalid:
                yield port.rdata.data.eq(self.mem.read_word(head[1]*nbytes, nbytes))
            else:
                yield port.rdata.data.eq(rng.getrandbits(self.cfg.pw))
            yield

    def run(self):
        run_simulation(self.tb, [self.master(), self.monitor(), self.memory()])
        return self

# Checks ------------------------------------------------------------------------------------------

def check_golden(run, increment=1, what="dut"):
    """Property C11 on one run: read beats and final memory against the golden model."""
    cfg = run.cfg
    errors = list(run.errors)
    gmem, gbeats = golden(cfg, run.ops, increment)
    got = [d for _, d in run.rbeats]
    if got != gbeats:
        n = min(len(got), len(gbeats))
        first = next((i for i in range(n) if got[i] != gbeats[i]), n)
        errors.append("read beats differ: got {} beats, expected {}; first difference at beat {}".format(
            len(got), len(gbeats), first))
    # Memory contents (the native port addresses native words: byte address = addr*pw/8).
    if run.mem.content() != gmem.content():
        a = sorted(set(run.mem.content().items()) ^ set(gmem.content().items()))[:4]
        errors.append("memory contents differ, e.g. (byte address, value) {}".format(a))
    # Every beat of every access was accepted exactly once, in order.
    exp_accepts = []
    for k, op in enumerate(run.ops):
        if op[0] == "w":
            exp_accepts += [("w", k, i) for i in range(len(op[2]))]
        else:
            exp_accepts.append(("r", k, 0))
    if [a[1:] for a in run.accepts] != exp_accepts:
        errors.append("accepted beats differ from the programmed ones")
    if errors:
        print("FAIL [{}] {} {} seed={}".format(what, cfg, run.stalls, run.seed))
        for e in errors:
            print("   ", e)
    return not errors

def check_same_events(run, ref):
    """Same sequences of events (without time stamps) on both sides of the bridge."""
    errors = []
    if [d for _, d in run.rbeats] != [d for _, d in ref.rbeats]:
        errors.append("read beat sequences differ")
    if [c[1:] for c in run.cmds] != [c[1:] for c in ref.cmds]:
        errors.append("native command sequences differ")
    if [w[1:] for w in run.wdatas] != [w[1:] for w in ref.wdatas]:
        errors.append("native write data sequences differ")
    if run.mem.content() != ref.mem.content():
        errors.append("final memories differ")
    if errors:
        print("FAIL [events vs reference] {} {} seed={}".format(run.cfg, run.stalls, run.seed))
        for e in errors:
            print("   ", e)
    return not errors

def check_lockstep(run, ref):
    """Cycle exact equality of every output of the bridge (Avalon side and native side)."""
    ok = run.trace == ref.trace and run.accepts == ref.accepts and run.rbeats == ref.rbeats \
        and run.cmds == ref.cmds and run.wdatas == ref.wdatas
    if not ok:
        n = min(len(run.trace), len(ref.trace))
        first = next((i for i in range(n) if run.trace[i] != ref.trace[i]), n)
        print("FAIL [lockstep vs reference] {} {} seed={}: first difference at cycle {}".format(
            run.cfg, run.stalls, run.seed, first))
        if first < n:
            print("    dut:", run.trace[first])
            print("    ref:", ref.trace[first])
    return ok

# Jobs ---------------------------------------------------------------------------------------------

def run_jobs(job, jobs):
    """Runs job(args) -> (ok, message) for every args in jobs, in parallel processes."""
    import multiprocessing
    n_procs = max(1, min(8, (os.cpu_count() or 2)//2))
    ok = True
    with multiprocessing.get_context("fork").Pool(n_procs) as pool:
        for n, (o, msg) in enumerate(pool.imap_unordered(job, jobs)):
            ok &= o
            print("[{:3d}/{:3d}] {} {}".format(n + 1, len(jobs), "ok  " if o else "FAIL", msg), flush=True)
    return ok

def upconverter_ops(rng, aw=32, origin=0):
    """Directed accesses for an up-converting bridge (ratio 2): like test_avalon_burst_upconvert,
       complete native words inside bursts, ideal memory timing."""
    F = 2**(aw//8) - 1
    return [(kind, origin + a, x) for kind, a, x in [
        ("w", 0, [(rng.getrandbits(aw), F) for _ in range(6)]),
        ("r", 0, 6),
        ("r", 1, 1),
        ("w", 3, [(rng.getrandbits(aw), 0x6)]),
        ("r", 2, 4),
        ("w", 8, [(rng.getrandbits(aw), rng.choice([F, 5, 0])) for _ in range(4)]),
        ("r", 8, 1),
        ("r", 9, 1),
        ("r", 4, 6),
        ("w", 5, [(rng.getrandbits(aw), 0x9)]),
        ("r", 4, 2),
    ]]

# Change 2: the first beat of a write burst is accepted (pushed to the command / data FIFOs) while
# the FSM is still in START, instead of spending one cycle to enter BURST_WRITE first; the latched
# beat counter and address are adjusted accordingly.
#
# Timing differs from the reference by design, so:
#   - every run of the modified bridge is checked against the golden memory model (property C11),
#   - the same accesses are run on the frozen reference and the *sequences* of native commands,
#     native write data, read beats and the final memory are compared (events, not cycles),
#   - with an ideal memory, no Avalon beat is accepted later than on the reference and every write
#     burst is accepted one cycle earlier.

def job(args):
    name, cfg, st, seed, ops, increment = args
    dut = Run(LiteDRAMAvalonMM2Native, cfg, st, seed, ops).run()
    ok  = check_golden(dut, increment=increment)
    msg = "{:<20} seed={} {} accesses, {} cycles".format(name, seed, len(ops), dut.cycle)
    if not name.startswith("up"):
        # (The up-converter merges commands depending on their timing: no event comparison.)
        ref = Run(RefAvalonMM2Native, cfg, st, seed, ops).run()
        ok &= check_golden(ref, increment=increment, what="ref")
        ok &= check_same_events(dut, ref)
        msg += " (reference {})".format(ref.cycle)
        if name.startswith("ideal"):
            # Deterministic timing: never later, first beat of each burst write a cycle earlier.
            gain = [r[0] - d[0] for d, r in zip(dut.accepts, ref.accepts)]
            n_wb = sum(1 for op in ops if op[0] == "w" and len(op[2]) > 1)
            if min(gain) < 0 or (n_wb and max(gain) < 1) or dut.cycle > ref.cycle:
                print("FAIL [timing] beats accepted later than on the reference: {}".format(gain))
                ok = False
            msg += ", beats accepted {}..{} cycles earlier".format(min(gain), max(gain))
    return ok, msg

def main():
    jobs = []
    profiles = {
        "default"     : Stalls(),
        "no-gaps"     : Stalls(idle=0, gap=0),                     # back to back beats: FIFOs fill up.
        "slow-memory" : Stalls(cmd_ready=20, wdata_ready=20, idle=0, gap=5),
        "fast-memory" : Stalls(cmd_ready=100, wdata_ready=100, rd_lat=(1, 1), rd_gap=0),
        "long-gaps"   : Stalls(gap=75, idle=60),                   # FIFOs run empty inside bursts.
        "ideal"       : Stalls(**IDEAL),
    }
    # Random traffic, write heavy, 1:1 bridge, bursts up to 1.5 x the FIFO depth.
    for pname, st in profiles.items():
        for seed in range(5):
            cfg = Cfg()
            ops = gen_ops(cfg, random.Random(1000 + seed), 50, max_burst=24, kinds="wwr")
            jobs.append((("" if pname == "ideal" else "1:1 ") + pname, cfg, st, seed, ops, 1))
    # Small FIFOs (filled by the beat accepted in START plus the following ones).
    for mbl in [2, 3, 4]:
        for seed in range(4):
            cfg = Cfg(mbl=mbl)
            ops = gen_ops(cfg, random.Random(1500 + seed), 40, max_burst=3*mbl, kinds="wwr")
            st  = [Stalls(), Stalls(idle=0, gap=0), Stalls(cmd_ready=25, wdata_ready=25), Stalls(**IDEAL)][seed]
            jobs.append((("ideal " if seed == 3 else "") + "fifo-depth-{}".format(mbl), cfg, st, seed, ops, 1))
    # Other configurations.
    cfgs = {
        "base"           : Cfg(base=0x10000000),
        "narrow-port"    : Cfg(base=0x10000000, avl_adr=30, port_adr=24),
        "narrow-avalon"  : Cfg(base=0x4000, avl_adr=20, port_adr=30),
        "down 32->16"    : Cfg(aw=32, pw=16, port_adr=32),
        "down 64->32"    : Cfg(aw=64, pw=32, base=0x10000000),
        "down 32->8"     : Cfg(aw=32, pw=8),
    }
    for cname, cfg in cfgs.items():
        for seed in range(3):
            ops = gen_ops(cfg, random.Random(2000 + seed), 30, max_burst=12, kinds="wwr")
            jobs.append((cname, cfg, Stalls(), seed, ops, 1))
    # burst_increment parameter (address of the second beat is computed at latch time now).
    for seed in range(2):
        cfg = Cfg(kwargs=dict(burst_increment=2), span=40)
        ops = gen_ops(cfg, random.Random(2500 + seed), 30, max_burst=12, kinds="wwr")
        jobs.append(("increment-2", cfg, Stalls(), seed, ops, 2))
    # Every write burst length 2..20 and a few long ones, every beat with its own byte enables,
    # each burst read back.
    for seed, lens in enumerate([range(2, 9), range(9, 15), range(15, 21), [33, 64, 100], [255, 2, 255]]):
        cfg = Cfg(span=300)
        rng = random.Random(3000 + seed)
        ops = []
        for n in lens:
            a = rng.randrange(40)
            ops.append(("w", a, [(rng.getrandbits(32), rng.choice([15, 15, rng.randrange(16)])) for _ in range(n)]))
            ops.append(("r", a, n))
        for st_name, st in [("", Stalls()), (" no-gaps", Stalls(idle=0, gap=0, wdata_ready=40))]:
            jobs.append(("write-lengths" + st_name, cfg, st, seed, ops, 1))
    # Wrap-around of the address at the top of the native address space inside a burst.
    for seed in range(2):
        cfg = Cfg(avl_adr=12, port_adr=12)
        rng = random.Random(3500 + seed)
        ops = []
        for a in [4093, 4090, 4095]:
            ops.append(("w", a, [(rng.getrandbits(32), 15) for _ in range(6)]))
        jobs.append(("address-wrap", cfg, Stalls(), seed, ops, 1))
    # Up-converter (ideal memory timing).
    for seed in range(2):
        cfg = Cfg(aw=32, pw=64)
        jobs.append(("up 32->64", cfg, Stalls(**dict(IDEAL, idle=30*seed, gap=30*seed)), seed,
            upconverter_ops(random.Random(seed)), 1))
    ok = run_jobs(job, jobs)
    print("PASS" if ok else "FAIL")
    return 0 if ok else 1

if __name__ == "__main__":
    sys.exit(main())
