#!/usr/bin/env python3
# Check script for keep_3 (init image distributed to the banks chunk by chunk through a table of
# address mappings, on a copy of the caller's list).
#
# 1) Plain Python, exhaustive over small geometries / every init image length / both address
#    mappings / every memory type and data width: instantiates the REAL SDRAMPHYModel, takes the
#    initial contents of the memories of its banks and compares them
#      - with an independent reference layout (linear little-endian byte image, word n of the image
#        at {row, bank, col} resp. {bank, row, col}),
#      - with a transcription of the original distribution code (list by list).
# 2) Simulations of the REAL model with randomised legal DFI traffic on top of random init images
#    (reads return the init data at the advertised latency, writes land on top of it, final
#    memories identical to the reference DRAM).
#
# Run from the root of the tree: python keep_3.py    (exit status 0 == property still holds)

import os
import struct
import sys
import random

sys.path.insert(0, os.getcwd())

from migen import *
from migen.fhdl.specials import Memory
from migen.fhdl import tracer

from litedram.common import PhySettings
from litedram import modules as litedram_modules
from litedram.phy.model import SDRAMPHYModel, BankModel, get_sdram_phy_settings

# Configurations -----------------------------------------------------------------------------------

BASES = {
    # memtype: (module class, rate, burst_length)
    "SDR":   ("MT48LC4M16", "1:1", 1),
    "DDR":   ("MT46V32M16", "1:2", 2),
    "LPDDR": ("MT46H32M16", "1:2", 2),
    "DDR2":  ("MT47H64M16", "1:2", 2),
    "DDR3":  ("MT41K64M16", "1:4", 2),
    "DDR4":  ("EDY4016A",   "1:4", 2),
}

def make_module(memtype, nbanks, nrows, ncols, addressbits=None):
    """A real SDRAMModule of the project, with a tiny geometry (the simulator allocates one signal
    per memory word)."""
    # Migen keeps (and linearly scans) every named object ever created: forget the previous DUTs.
    tracer.classname_to_objs.clear()
    tracer.name_to_idx.clear()
    name, rate, _ = BASES[memtype]
    base = getattr(litedram_modules, name)
    cls  = type("Tiny" + name, (base,), dict(nbanks=nbanks, nrows=nrows, ncols=ncols))
    module = cls(100e6, rate)
    # Real modules always have >= 11 address bits (A10 = precharge all); keep that with tiny arrays.
    module.geom_settings.addressbits = max(11, module.geom_settings.addressbits) \
        if addressbits is None else addressbits
    return module

# Independent reference model ----------------------------------------------------------------------

class RefDRAM:
    def __init__(self, nbanks, nrows, ncols, burst, nphases, data_width, we_granularity,
                 read_latency, write_latency):
        self.nbanks, self.nrows, self.ncols = nbanks, nrows, ncols
        self.words_per_row = ncols//(burst*nphases)
        self.col_shift     = (burst*nphases).bit_length() - 1
        self.data_width    = data_width
        self.we_granularity = we_granularity
        self.rl, self.wl   = read_latency, write_latency
        self.mem     = [[0]*(nrows*self.words_per_row) for _ in range(nbanks)]
        self.open    = [None]*nbanks
        self.pending = []  # (commit cycle, bank, row, col)
        self.rd      = {}  # cycle -> data

    def load(self, init32, mapping):
        """init32: list of 32-bit words = linear little-endian byte image of the memory."""
        image = b"".join(int(w).to_bytes(4, "little") for w in init32)
        wbytes = self.data_width//8
        for n in range(0, len(image), wbytes):
            chunk = image[n:n + wbytes]
            word  = int.from_bytes(chunk + bytes(wbytes - len(chunk)), "little")
            w = n//wbytes
            if mapping == "ROW_BANK_COL":
                c    = w % self.words_per_row
                bank = (w//self.words_per_row) % self.nbanks
                row  = w//(self.words_per_row*self.nbanks)
            else:
                c    = w % self.words_per_row
                row  = (w//self.words_per_row) % self.nrows
                bank = w//(self.words_per_row*self.nrows)
            if bank < self.nbanks and row < self.nrows:
                self.mem[bank][row*self.words_per_row + c] = word

    def idx(self, row, col):
        return row*self.words_per_row + (col >> self.col_shift)

    def cycle(self, t, cmds, wrdata, wrmask):
        """cmds: list of (name, bank, address) decoded on the DFI phases in cycle t."""
        acts = [c for c in cmds if c[0] == "ACT"]
        pres = [c for c in cmds if c[0] == "PRE"]
        cols = [c for c in cmds if c[0] in ("RD", "WR")]
        assert len(acts) <= 1 and len(pres) <= 1 and len(cols) <= 1, "illegal trace"
        for name, bank, address in cols:
            col = address % self.ncols
            assert self.open[bank] is not None, "illegal trace: column command to a closed bank"
            if name == "RD":
                assert all(tc < t for tc, *_ in self.pending), "illegal trace: tWTR"
                self.rd[t + self.rl] = self.mem[bank][self.idx(self.open[bank], col)]
            else:
                self.pending.append((t + self.wl, bank, self.open[bank], col))
        for p in [p for p in self.pending if p[0] == t]:
            self.pending.remove(p)
            _, bank, row, col = p
            assert self.open[bank] == row, "illegal trace: row closed before write data"
            i = self.idx(row, col)
            if self.we_granularity:
                old = self.mem[bank][i]
                new = 0
                for b in range(self.data_width//8):
                    src = old if (wrmask >> b) & 1 else wrdata
                    new |= src & (0xff << (8*b))
                self.mem[bank][i] = new
            else:
                self.mem[bank][i] = wrdata
        for name, bank, address in pres:
            for b in range(self.nbanks):
                if b == bank or (address >> 10) & 1:
                    assert all(pb != b for _, pb, *_ in self.pending), "illegal trace: tWR"
                    self.open[b] = None
        for name, bank, address in acts:
            assert self.open[bank] is None, "illegal trace: ACT to an open bank"
            self.open[bank] = address % self.nrows

# Legal random traffic ------------------------------------------------------------------------------

ENC = {  # name: (cs_n, ras_n, cas_n, we_n)
    "ACT": (0, 0, 1, 1),
    "PRE": (0, 0, 1, 0),
    "RD":  (0, 1, 0, 1),
    "WR":  (0, 1, 0, 0),
    "REF": (0, 0, 0, 1),
    "MRS": (0, 0, 0, 0),
    "ZQC": (0, 1, 1, 0),
    "NOP": (0, 1, 1, 1),
}
DEC = {v[1:]: k for k, v in ENC.items()}

class Traffic:
    def __init__(self, rng, nbanks, nrows, ncols, nphases, abits, col_align, wl, p_row, p_col, p_rd,
                 hot_rows=None, no_bursts=False):
        self.rng = rng
        self.nbanks, self.nrows, self.ncols, self.nphases = nbanks, nrows, ncols, nphases
        self.abits, self.col_align, self.wl = abits, col_align, wl
        self.p_row, self.p_col, self.p_rd = p_row, p_col, p_rd
        self.hot_rows  = hot_rows
        self.no_bursts = no_bursts
        self.open      = [None]*nbanks  # (row, opened at)
        self.last_wr   = [-100]*nbanks
        self.last_rd   = [-100]*nbanks
        self.wr_commit = -100
        self.burst     = None  # (bank, next col, kind, remaining)

    def pick_row(self):
        if self.hot_rows:
            return self.rng.choice(self.hot_rows)
        return self.rng.randrange(self.nrows)

    def step(self, k, drain=False):
        rng = self.rng
        col_cmd = row_cmd = None
        usable = [b for b in range(self.nbanks) if self.open[b] is not None and self.open[b][1] < k]
        # Column command.
        if not drain and usable and (self.burst or rng.random() < self.p_col):
            if self.burst and self.burst[0] in usable:
                bank, col, kind, left = self.burst
            else:
                bank = rng.choice(usable)
                col  = rng.randrange(self.ncols)
                if rng.random() < 0.8:
                    col -= col % self.col_align
                # Read-mostly / write-mostly / mixed periods unless a fixed ratio is requested.
                p_rd = [0.1, 0.9, 0.5][(k//50) % 3] if self.p_rd is None else self.p_rd
                kind = "RD" if rng.random() < p_rd else "WR"
                left = 0 if self.no_bursts else rng.choice([0, 0, 1, 3, 7])
            if kind == "RD" and not (k > self.wr_commit):
                kind = "WR" if rng.random() < 0.25 else None  # else: let the write data land
            if kind is not None:
                col_cmd = (kind, bank, col)
                if kind == "RD":
                    self.last_rd[bank] = k
                else:
                    self.last_wr[bank] = k
                    self.wr_commit = max(self.wr_commit, k + self.wl)
                self.burst = (bank, (col + self.col_align) % self.ncols, kind, left - 1) if left > 0 else None
            else:
                self.burst = None
        else:
            self.burst = None
        # Row command.
        if (self.nphases > 1 or col_cmd is None) and (drain or rng.random() < self.p_row):
            def can_close(b):
                return (self.open[b] is not None and self.open[b][1] < k and
                        k > self.last_wr[b] + self.wl and k > self.last_rd[b] and
                        (col_cmd is None or col_cmd[1] != b) and
                        (self.burst is None or self.burst[0] != b))
            closed   = [b for b in range(self.nbanks) if self.open[b] is None]
            closable = [b for b in range(self.nbanks) if can_close(b)]
            opened   = [b for b in range(self.nbanks) if self.open[b] is not None]
            choices  = []
            if closed and not drain:
                choices += ["ACT"]*4
            if closable:
                choices += ["PRE"]*2
            if opened and len(closable) == len(opened) and col_cmd is None:
                choices += ["PREA"]
            if not opened:
                choices += ["REF", "MRS", "ZQC"]
            if choices:
                c = rng.choice(choices)
                if c == "ACT":
                    bank = rng.choice(closed)
                    row  = self.pick_row()
                    self.open[bank] = (row, k)
                    address = row
                    if (1 << self.abits) > self.nrows:
                        address |= rng.getrandbits(self.abits) & ~(self.nrows - 1)  # unused row bits
                    row_cmd = ("ACT", bank, address)
                elif c == "PRE":
                    bank = rng.choice(closable)
                    self.open[bank] = None
                    row_cmd = ("PRE", bank, rng.getrandbits(self.abits) & ~(1 << 10))
                elif c == "PREA":
                    self.open = [None]*self.nbanks
                    row_cmd = ("PRE", rng.randrange(self.nbanks), rng.getrandbits(self.abits) | (1 << 10))
                else:
                    row_cmd = (c, rng.randrange(self.nbanks), rng.getrandbits(self.abits))
        # Phase assignment.
        phases = [None]*self.nphases
        slots  = list(range(self.nphases))
        rng.shuffle(slots)
        for cmd in (col_cmd, row_cmd):
            if cmd is not None:
                phases[slots.pop()] = cmd
        return phases

    def idle(self):
        return all(o is None for o in self.open)

# Simulation ---------------------------------------------------------------------------------------

def find_memories(dut):
    banks = [m for _, m in dut._submodules if isinstance(m, BankModel)]
    mems  = []
    for bank in banks:
        ms = [s for s in bank._fragment.specials if isinstance(s, Memory)]
        assert len(ms) == 1
        mems.append(ms[0])
    return mems

def run_case(seed, memtype, databits, nbanks, nrows, ncols, settings=None, we_granularity=8,
             init_words=None, mapping="ROW_BANK_COL", cycles=400, p_row=0.3, p_col=0.6, p_rd=None,
             hot_rows=None, no_bursts=False, verbose=False):
    rng    = random.Random(seed)
    module = make_module(memtype, nbanks, nrows, ncols)
    burst  = BASES[memtype][2]
    init   = None
    if init_words is not None:
        init = [rng.getrandbits(32) for _ in range(init_words)]
    kwargs = dict(we_granularity=we_granularity, address_mapping=mapping)
    if init is not None:
        kwargs["init"] = list(init)
    if settings is None:
        dut = SDRAMPHYModel(module, data_width=databits, clk_freq=100e6, **kwargs)
    else:
        dut = SDRAMPHYModel(module, settings=settings, **kwargs)
    s          = dut.settings
    nphases    = s.nphases
    data_width = s.dfi_databits*nphases
    abits      = module.geom_settings.addressbits
    mems       = find_memories(dut)
    assert len(mems) == nbanks
    ref = RefDRAM(nbanks, nrows, ncols, burst, nphases, data_width, we_granularity,
                  s.read_latency, s.write_latency)
    if init is not None:
        ref.load(init, mapping)
    traffic = Traffic(rng, nbanks, nrows, ncols, nphases, abits, burst*nphases, s.write_latency,
                      p_row, p_col, p_rd, hot_rows, no_bursts)
    phases  = [getattr(dut.dfi, "p%d" % n) for n in range(nphases)]
    tail    = s.read_latency + s.write_latency + 4
    log     = []
    final   = []

    def driver():
        k = 0
        while True:
            drain = k >= cycles
            if drain and traffic.idle() and k >= cycles + 2:
                break
            cmds = traffic.step(k, drain)
            for phase, cmd in zip(phases, cmds):
                if cmd is None:
                    # Idle phase: NOP, or deselected with random levels on the command pins.
                    if rng.random() < 0.5:
                        enc = ENC["NOP"]
                    else:
                        enc = (1, rng.getrandbits(1), rng.getrandbits(1), rng.getrandbits(1))
                    bank, address = rng.randrange(nbanks), rng.getrandbits(abits)
                else:
                    enc = ENC[cmd[0]]
                    bank, address = cmd[1], cmd[2]
                yield phase.cs_n.eq(enc[0])
                yield phase.ras_n.eq(enc[1])
                yield phase.cas_n.eq(enc[2])
                yield phase.we_n.eq(enc[3])
                yield phase.bank.eq(bank)
                yield phase.address.eq(address)
                yield phase.wrdata.eq(rng.getrandbits(s.dfi_databits))
                m = rng.random()
                yield phase.wrdata_mask.eq(0 if m < 0.3 else rng.getrandbits(s.dfi_databits//8))
            yield
            k += 1
        for phase in phases:
            yield phase.cs_n.eq(1)
        for _ in range(tail):
            yield
        # End of the trace: dump the model memories.
        for mem in mems:
            words = []
            for i in range(mem.depth):
                words.append((yield mem[i]))
            final.append(words)
        log.append(None)

    def monitor():
        while not log or log[-1] is not None:
            sample = []
            for phase in phases:
                sample.append(dict(
                    cs_n=(yield phase.cs_n), ras_n=(yield phase.ras_n), cas_n=(yield phase.cas_n),
                    we_n=(yield phase.we_n), bank=(yield phase.bank), address=(yield phase.address),
                    wrdata=(yield phase.wrdata), wrdata_mask=(yield phase.wrdata_mask),
                    rddata=(yield phase.rddata), rddata_valid=(yield phase.rddata_valid)))
            log.append(sample)
            yield

    # (The DFI command pins reset to their inactive level: the first sampled cycle is idle.)
    run_simulation(dut, [driver(), monitor()])
    assert log[-1] is None
    log.pop()
    while log and log[-1] is None:
        log.pop()

    # Replay the observed DFI trace on the reference model.
    nreads = nwrites = 0
    for t, sample in enumerate(log):
        if sample is None:
            continue
        cmds = []
        for p in sample:
            if p["cs_n"] == 0:
                name = DEC[(p["ras_n"], p["cas_n"], p["we_n"])]
                if name in ("ACT", "PRE", "RD", "WR"):
                    cmds.append((name, p["bank"], p["address"]))
                    nreads  += name == "RD"
                    nwrites += name == "WR"
        wrdata = wrmask = 0
        for n, p in enumerate(sample):
            wrdata |= p["wrdata"] << (n*s.dfi_databits)
            wrmask |= p["wrdata_mask"] << (n*s.dfi_databits//8)
        ref.cycle(t, cmds, wrdata, wrmask)
        rddata = 0
        for n, p in enumerate(sample):
            rddata |= p["rddata"] << (n*s.dfi_databits)
        exp_valid = t in ref.rd
        exp_data  = ref.rd.get(t, 0)
        if rddata != exp_data:
            raise AssertionError("cycle %d: rddata %x != %x" % (t, rddata, exp_data))
        # The read data valid flag of the model is carried by phase 0.
        if sample[0]["rddata_valid"] != int(exp_valid):
            raise AssertionError("cycle %d: rddata_valid %d != %d" % (t, sample[0]["rddata_valid"], exp_valid))
        for n, p in enumerate(sample[1:]):
            if p["rddata_valid"] not in (0, int(exp_valid)):
                raise AssertionError("cycle %d: spurious rddata_valid on phase %d" % (t, n + 1))
    assert not ref.pending
    assert not [t for t in ref.rd if t >= len(log)], "trace ended before the last read returned"
    for b in range(nbanks):
        if final[b] != ref.mem[b]:
            bad = [i for i in range(len(ref.mem[b])) if final[b][i] != ref.mem[b][i]]
            raise AssertionError("bank %d: %d memory words differ (first: %d)" % (b, len(bad), bad[0]))
    if verbose:
        print("  ok seed=%d %s x%d b%d r%d c%d rl=%d wl=%d gran=%d init=%s %s: %d cycles, %d RD, %d WR" % (
            seed, memtype, databits, nbanks, nrows, ncols, s.read_latency, s.write_latency,
            we_granularity, init_words, mapping, len(log), nreads, nwrites))
    return nreads, nwrites

def custom_settings(memtype, databits, read_latency, write_latency):
    d = get_sdram_phy_settings(memtype, databits, 100e6)
    return PhySettings(
        phytype="SDRAMPHYModel", memtype=memtype, databits=databits, dfi_databits=d.dfi_databits,
        nphases=d.nphases, rdphase=d.rdphase, wrphase=d.wrphase, cl=d.cl, cwl=d.cwl,
        read_latency=read_latency, write_latency=write_latency)

# Static init image checks ---------------------------------------------------------------------------

def original_bank_init(init, databits, nbanks, nrows, ncols, data_width, address_mapping):
    """Transcription of the distribution code of the unmodified tree."""
    init = list(init)
    mem_size          = (databits//8)*(nrows*ncols*nbanks)
    bank_size         = mem_size // nbanks
    model_bank_size   = bank_size // (data_width//8)
    model_column_size = model_bank_size // nrows
    model_data_ratio  = data_width // 32
    data_width_bytes  = data_width // 8
    bank_init         = [[] for i in range(nbanks)]
    if len(init)%data_width_bytes != 0:
        init.extend([0]*(data_width_bytes-len(init)%data_width_bytes))
    if model_data_ratio > 1:
        new_init = [0]*(len(init)//model_data_ratio)
        for i in range(0, len(init), model_data_ratio):
            ints = init[i:i+model_data_ratio]
            strs = "".join("{:08x}".format(x) for x in reversed(ints))
            new_init[i//model_data_ratio] = int(strs, 16)
        init = new_init
    elif model_data_ratio == 0:
        model_data_ratio = 4 // data_width_bytes
        struct_unpack_patterns = {1: "4B", 2: "2H"}
        new_init = [0]*int(len(init)*model_data_ratio)
        for i in range(len(init)):
            new_init[model_data_ratio*i:model_data_ratio*(i+1)] = struct.unpack(
                struct_unpack_patterns[data_width_bytes],
                struct.pack("I", init[i])
            )[0:model_data_ratio]
        init = new_init
    if address_mapping == "ROW_BANK_COL":
        for row in range(nrows):
            for bank in range(nbanks):
                start = (row*nbanks*model_column_size + bank*model_column_size)
                end   = min(start + model_column_size, len(init))
                if start > len(init):
                    break
                bank_init[bank].extend(init[start:end])
    elif address_mapping == "BANK_ROW_COL":
        for bank in range(nbanks):
            start = bank*model_bank_size
            end   = min(start + model_bank_size, len(init))
            if start > len(init):
                break
            bank_init[bank] = init[start:end]
    return bank_init

def check_init(rng, memtype, databits, nbanks, nrows, ncols, mapping, nwords):
    module = make_module(memtype, nbanks, nrows, ncols)
    burst  = BASES[memtype][2]
    init   = [rng.getrandbits(32) | 1 for _ in range(nwords)]
    given  = list(init)
    dut    = SDRAMPHYModel(module, data_width=databits, clk_freq=100e6, init=given,
                           address_mapping=mapping)
    s      = dut.settings
    data_width = s.dfi_databits*s.nphases
    mems   = find_memories(dut)
    ref    = RefDRAM(nbanks, nrows, ncols, burst, s.nphases, data_width, 8, s.read_latency, s.write_latency)
    ref.load(init, mapping)
    orig   = original_bank_init(init, databits, nbanks, nrows, ncols, data_width, mapping)
    for b, mem in enumerate(mems):
        assert mem.width == data_width and mem.depth == len(ref.mem[b])
        got = list(mem.init) if mem.init is not None else []
        assert len(got) <= mem.depth
        padded = got + [0]*(mem.depth - len(got))
        ctx = (memtype, databits, nbanks, nrows, ncols, mapping, nwords, b)
        assert padded == ref.mem[b], ("reference layout", ctx)
        assert got == list(orig[b]), ("original code", ctx)
    assert given == init, "the init list of the caller was modified"

def static_checks():
    rng = random.Random(3)
    n = 0
    geometries = [(2, 2, 8), (4, 2, 8), (2, 4, 16), (4, 4, 8), (8, 2, 16)]
    for memtype in BASES:
        for databits in ([8, 16, 32] if memtype == "SDR" else [8, 16]):
            for nbanks, nrows, ncols in geometries:
                if ncols < BASES[memtype][2]*{"1:1": 1, "1:2": 2, "1:4": 4}[BASES[memtype][1]]:
                    continue
                full = nbanks*nrows*ncols*databits//8//4
                for mapping in ["ROW_BANK_COL", "BANK_ROW_COL"]:
                    for nwords in list(range(1, full + 1)) + [full + 1, full + 5, 2*full]:
                        check_init(rng, memtype, databits, nbanks, nrows, ncols, mapping, nwords)
                        n += 1
    # A few larger ones (many rows).
    for memtype, databits in [("SDR", 16), ("DDR2", 8), ("DDR3", 16), ("DDR4", 8)]:
        for mapping in ["ROW_BANK_COL", "BANK_ROW_COL"]:
            for nwords in [1, 77, 1000, 2047, 2048, 4096]:
                check_init(rng, memtype, databits, 8, 64, 32, mapping, nwords)
                n += 1
    return n

# Main ---------------------------------------------------------------------------------------------

def main():
    verbose = "-v" in sys.argv
    nstatic = static_checks()
    print("keep_3: %d init images / configurations checked statically: OK" % nstatic)
    total_rd = total_wr = ncases = 0
    seed = 3000
    cases = []
    for memtype in BASES:
        for databits in ([8, 16, 32] if memtype == "SDR" else [8, 16]):
            for mapping in ["ROW_BANK_COL", "BANK_ROW_COL"]:
                full = 4*8*32*databits//8//4
                for init_words in [full, 1 + (seed + len(cases)) % (full - 1)]:
                    cases.append(dict(memtype=memtype, databits=databits, nbanks=4, nrows=8, ncols=32,
                        mapping=mapping, init_words=init_words, cycles=300, p_row=0.5))
    for case in cases:
        seed += 1
        r, w = run_case(seed, verbose=verbose, **case)
        total_rd += r
        total_wr += w
        ncases   += 1
    print("keep_3: %d simulations, %d reads and %d writes checked against the reference DRAM: OK" % (
        ncases, total_rd, total_wr))
    assert nstatic > 2000 and total_rd > 2000 and total_wr > 2000

if __name__ == "__main__":
    main()
