#!/usr/bin/env python3
#
# Check for keep_2: LiteDRAMDMAReader with an output register after the data FIFO, the reservation
# being released (and the end-of-stream flag picked up) when a word moves from the FIFO to the
# register.
#
# Drives the real LiteDRAMDMAReader (native and AXI ports, buffered and unbuffered output FIFO,
# depths from the minimum up to 16) with randomised address streams, a memory model with random
# command acceptance / response latency and a consumer with long stalls, and checks on every cycle:
#   - commands are issued in the order the addresses were accepted, one per address;
#   - the number of reads issued and not yet consumed never exceeds what the reader can hold (the
#     FIFO depth plus the output register), and this bound is actually reached while the consumer
#     is stalled;
#   - no word returned by the memory finds the DMA not ready (native ports do not honour rdata.ready,
#     so such a word would be lost);
#   - exactly one word per accepted address comes out, in order, with the end-of-stream mark on the
#     matching word; source valid / payload are stable while the consumer is not ready.
# The harness is first validated against a copy of the original reader modified to reserve more
# than it can buffer.
#
# Run from the root of the tree: exits 0 when every check passed.

import os
import sys
import random

sys.path.insert(0, os.getcwd())

from math import log2

from migen import *

from litex.soc.interconnect import stream

from litedram.common import LiteDRAMNativePort, LiteDRAMNativeReadPort
from litedram.frontend.axi import LiteDRAMAXIPort
from litedram.frontend.dma import LiteDRAMDMAReader

AW = 24
DW = 32

# Reference (original implementation) ----------------------------------------------------------------

class RefReader(Module):
    def __init__(self, port, fifo_depth=16, fifo_buffered=False, res_extra=0):
        self.port   = port
        self.enable = enable = Signal(reset=1)
        self.sink   = sink   = stream.Endpoint([("address", port.address_width)])
        self.source = source = stream.Endpoint([("data", port.data_width)])

        is_native = isinstance(port, LiteDRAMNativePort)
        is_axi    = isinstance(port, LiteDRAMAXIPort)
        if is_native:
            (cmd, rdata) = port.cmd, port.rdata
        else:
            (cmd, rdata) = port.ar, port.r

        res_fifo = stream.SyncFIFO([("dummy", 1)], fifo_depth + res_extra)
        self.submodules += res_fifo

        if is_native:
            self.comb += cmd.we.eq(0)
        if is_axi:
            self.comb += cmd.size.eq(int(log2(port.data_width//8)))
        self.comb += [
            cmd.addr.eq(sink.address),
            cmd.last.eq(sink.last),
            cmd.valid.eq(enable & sink.valid & res_fifo.sink.ready),
            sink.ready.eq(enable & cmd.ready & res_fifo.sink.ready),
        ]
        self.comb += [
            res_fifo.sink.valid.eq(cmd.valid & cmd.ready),
            res_fifo.sink.last.eq(cmd.last),
        ]

        fifo = stream.SyncFIFO([("data", port.data_width)], fifo_depth, fifo_buffered)
        self.submodules += fifo

        self.comb += [
            rdata.connect(fifo.sink, omit={"id", "resp", "dest", "user"}),
            fifo.source.connect(source, omit={"valid", "ready", "last"}),
            If(res_fifo.source.valid,
                source.valid.eq(fifo.source.valid),
                source.last.eq(res_fifo.source.last),
            ),
            fifo.source.ready.eq(source.ready | ~enable),
        ]
        self.comb += res_fifo.source.ready.eq(fifo.source.valid & fifo.source.ready)

# Bench ----------------------------------------------------------------------------------------------

def make_port(kind):
    if kind == "native":
        return LiteDRAMNativeReadPort(address_width=AW, data_width=DW)
    return LiteDRAMAXIPort(data_width=DW, address_width=AW, id_width=1)


def port_channels(port):
    if isinstance(port, LiteDRAMNativePort):
        return port.cmd, port.rdata
    return port.ar, port.r


class Bench(Module):
    def __init__(self, kind, depth, buffered, with_ref, dut_cls=None, **dut_kwargs):
        self.kind = kind
        self.port = make_port(kind)
        if dut_cls is None:
            self.submodules.dma = LiteDRAMDMAReader(self.port, fifo_depth=depth, fifo_buffered=buffered)
        else:
            self.submodules.dma = dut_cls(self.port, fifo_depth=depth, fifo_buffered=buffered, **dut_kwargs)
        self.duts = [(self.dma, self.port)]
        if with_ref:
            self.rport = make_port(kind)
            self.submodules.ref = RefReader(self.rport, fifo_depth=depth, fifo_buffered=buffered)
            self.duts.append((self.ref, self.rport))


def mem_data(addr):
    return (addr*0x9E3779B1 + 0x01234567) & (2**DW - 1)


class CheckError(Exception):
    pass


def testbench(bench, rng, n_words, depth, stats, capacity, strict_bound=True):
    held = None
    kind   = bench.kind
    native = kind == "native"
    dma, port = bench.duts[0]
    cmd, rdata = port_channels(port)

    def drive(get, value):
        for d, p in bench.duts:
            yield get(d, p).eq(value)

    # Stimulus state (what is being driven in the current cycle).
    sink_valid, sink_addr, sink_last = 0, 0, 0
    cmd_ready = 0
    r_valid, r_addr = 0, 0
    src_ready = 0

    accepted = []   # (addr, last) in acceptance order.
    n_issued = 0
    inflight = []   # [addr, due] in issue order.
    n_out    = 0
    last_due = 0

    # Phase parameters.
    phase_left = 0
    p_sink = p_cmd = p_src = 1.0
    lat_min = lat_max = 1
    p_rbubble = 0.0

    n_sent = 0  # Addresses presented (the one being presented included).
    t      = 0
    idle_after_done = 0
    limit  = 400*n_words + 5000

    while True:
        # Observe the current cycle -----------------------------------------------------------------
        obs = []
        for d, p in bench.duts:
            c, r = port_channels(p)
            o = {}
            o["sink_ready"] = (yield d.sink.ready)
            o["cmd_valid"]  = (yield c.valid)
            o["cmd_addr"]   = (yield c.addr)
            o["cmd_last"]   = (yield c.last)
            o["r_ready"]    = (yield r.ready)
            o["src_valid"]  = (yield d.source.valid)
            o["src_data"]   = (yield d.source.data)
            o["src_last"]   = (yield d.source.last)
            if native:
                o["cmd_we"] = (yield c.we)
            obs.append(o)
        o = obs[0]
        if len(obs) == 2:
            q = obs[1]
            for k in ["sink_ready", "cmd_valid", "r_ready", "src_valid"]:
                if o[k] != q[k]:
                    raise CheckError("t=%d lock-step mismatch on %s: dut=%d ref=%d" % (t, k, o[k], q[k]))
            if o["cmd_valid"] and (o["cmd_addr"], o["cmd_last"]) != (q["cmd_addr"], q["cmd_last"]):
                raise CheckError("t=%d lock-step mismatch on cmd payload" % t)
            if o["src_valid"] and (o["src_data"], o["src_last"]) != (q["src_data"], q["src_last"]):
                raise CheckError("t=%d lock-step mismatch on source payload" % t)

        # Scoreboard --------------------------------------------------------------------------------
        if sink_valid and o["sink_ready"]:
            accepted.append((sink_addr, sink_last))
            sink_valid = 0
        if o["cmd_valid"] and cmd_ready:
            if native and o["cmd_we"]:
                raise CheckError("t=%d read command with we set" % t)
            if n_issued >= len(accepted):
                raise CheckError("t=%d command issued without an accepted address" % t)
            if (o["cmd_addr"], o["cmd_last"]) != accepted[n_issued]:
                raise CheckError("t=%d command #%d out of order: got %r expected %r" % (
                    t, n_issued, (o["cmd_addr"], o["cmd_last"]), accepted[n_issued]))
            n_issued += 1
            due = max(last_due + 1, t + rng.randint(lat_min, lat_max))
            last_due = due
            inflight.append([o["cmd_addr"], due])
        if r_valid:
            if o["r_ready"]:
                inflight.pop(0)
                r_valid = 0
            else:
                # Native ports do not honour rdata.ready: the word is lost. On AXI the reader must
                # never have to back-pressure either, since it only issues what it can buffer.
                raise CheckError("t=%d returned word not accepted by the DMA (overrun)" % t)
        if o["src_valid"] and src_ready:
            if n_out >= len(accepted):
                raise CheckError("t=%d spurious output word" % t)
            addr, last = accepted[n_out]
            if o["src_data"] != mem_data(addr) or o["src_last"] != last:
                raise CheckError("t=%d output #%d wrong: got (%x, %d) expected (%x, %d)" % (
                    t, n_out, o["src_data"], o["src_last"], mem_data(addr), last))
            n_out += 1
        outstanding = n_issued - n_out
        if strict_bound and outstanding > capacity:
            raise CheckError("t=%d %d reads outstanding with a FIFO of depth %d" % (t, outstanding, depth))
        if held is not None:
            if not o["src_valid"] or (o["src_data"], o["src_last"]) != held:
                raise CheckError("t=%d source changed while the consumer was not ready" % t)
        held = (o["src_data"], o["src_last"]) if (o["src_valid"] and not src_ready) else None
        if outstanding == capacity:
            stats["full"] += 1
            if not src_ready:
                stats["full_stalled"] += 1
        stats["max_outstanding"] = max(stats["max_outstanding"], outstanding)

        # Termination -------------------------------------------------------------------------------
        if n_out == n_words:
            idle_after_done += 1
            if idle_after_done > 40:
                break
        if t > limit:
            raise CheckError("timeout: %d/%d words out after %d cycles" % (n_out, n_words, t))

        # Next cycle stimulus -----------------------------------------------------------------------
        if phase_left == 0:
            kind_of_phase = rng.choice(["fast", "stall", "random", "slowmem", "trickle", "drain"])
            phase_left = rng.randint(15, 80)
            p_rbubble  = rng.choice([0.0, 0.0, 0.3, 0.7])
            if kind_of_phase == "fast":
                p_sink, p_cmd, p_src, lat_min, lat_max = 1.0, 1.0, 1.0, 1, 1
            elif kind_of_phase == "stall":   # Consumer stalled, everything else at full speed.
                p_sink, p_cmd, p_src, lat_min, lat_max = 1.0, 1.0, 0.0, 1, rng.choice([1, 2, 6])
                phase_left = rng.randint(30, 150)
            elif kind_of_phase == "random":
                p_sink, p_cmd, p_src = rng.random(), rng.random(), rng.random()
                lat_min, lat_max = 1, rng.randint(1, 12)
            elif kind_of_phase == "slowmem":
                p_sink, p_cmd, p_src, lat_min, lat_max = 1.0, 0.9, 0.9, 10, 40
            elif kind_of_phase == "trickle":
                p_sink, p_cmd, p_src, lat_min, lat_max = 1.0, 1.0, 0.05, 1, 3
            elif kind_of_phase == "drain":
                p_sink, p_cmd, p_src, lat_min, lat_max = 0.0, 1.0, 1.0, 1, 4
                phase_left = rng.randint(10, 40)
        phase_left -= 1
        if idle_after_done:
            p_src, p_cmd = 1.0, 1.0

        if not sink_valid and n_sent < n_words and rng.random() < p_sink:
            sink_valid = 1
            sink_addr  = rng.choice([rng.randrange(2**AW), rng.randrange(8), n_sent])
            sink_last  = int(rng.random() < 0.2)
            n_sent    += 1
        cmd_ready = int(rng.random() < p_cmd)
        src_ready = int(rng.random() < p_src)
        if not r_valid and inflight and inflight[0][1] <= t + 1 and rng.random() >= p_rbubble:
            r_valid = 1
            r_addr  = inflight[0][0]

        yield from drive(lambda d, p: d.sink.valid,   sink_valid)
        yield from drive(lambda d, p: d.sink.address, sink_addr)
        yield from drive(lambda d, p: d.sink.last,    sink_last)
        yield from drive(lambda d, p: port_channels(p)[0].ready, cmd_ready)
        yield from drive(lambda d, p: port_channels(p)[1].valid, r_valid)
        yield from drive(lambda d, p: port_channels(p)[1].data,  mem_data(r_addr) if r_valid else 0)
        yield from drive(lambda d, p: d.source.ready, src_ready)
        yield
        t += 1

    if len(accepted) != n_words or n_issued != n_words or n_out != n_words or inflight:
        raise CheckError("end: accepted=%d issued=%d out=%d inflight=%d" % (
            len(accepted), n_issued, n_out, len(inflight)))
    stats["cycles"] += t


def run_one(kind, depth, buffered, seed, n_words, with_ref, stats, **kwargs):
    rng   = random.Random(seed)
    bench = Bench(kind, depth, buffered, with_ref, **kwargs)
    capacity = depth if kwargs.get("dut_cls") is not None else depth + 1
    stats["capacity"] = capacity
    run_simulation(bench, testbench(bench, rng, n_words, depth, stats, capacity))


def new_stats():
    return {"full": 0, "full_stalled": 0, "max_outstanding": 0, "cycles": 0}


def selftest():
    # The harness must catch a reader that reserves more than it can buffer.
    caught = 0
    for kind in ["native", "axi"]:
        for depth, buffered in [(1, False), (4, False), (4, True)]:
            try:
                run_one(kind, depth, buffered, 1, 200, False, new_stats(), dut_cls=RefReader, res_extra=2)
            except CheckError:
                caught += 1
    if caught != 6:
        print("FAIL: harness self-test: only %d/6 over-reserving readers caught" % caught)
        sys.exit(1)


def main():
    selftest()
    total = new_stats()
    n = 0
    for kind in ["native", "axi"]:
        for depth in [1, 2, 3, 4, 5, 8, 16]:
            for buffered in [False, True]:
                for seed in range(2 if kind == "native" else 1):
                    stats = new_stats()
                    with_ref = False
                    try:
                        run_one(kind, depth, buffered, 1000*depth + seed, 120 + 20*depth, with_ref, stats)
                    except CheckError as e:
                        print("FAIL: kind=%s depth=%d buffered=%d seed=%d: %s" % (kind, depth, buffered, seed, e))
                        sys.exit(1)
                    if stats["max_outstanding"] != depth + 1 or stats["full_stalled"] == 0:
                        print("FAIL: kind=%s depth=%d buffered=%d seed=%d: reservation limit never reached (%r)" % (
                            kind, depth, buffered, seed, stats))
                        sys.exit(1)
                    stats.pop("capacity")
                    for k in total:
                        total[k] = max(total[k], stats[k]) if k == "max_outstanding" else total[k] + stats[k]
                    n += 1
    print("OK: %d runs, %d cycles, %d cycles with FIFO and output register accounted full (%d with the consumer stalled)" % (
        n, total["cycles"], total["full"], total["full_stalled"]))


if __name__ == "__main__":
    main()
