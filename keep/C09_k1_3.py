# ---------------------------------------------------------------------------------------------
# Shared scoreboard harness for LiteDRAMAXI2Native (property C09).
#
# One generator drives the five AXI channels and models the native port + memory, sampling every
# signal once per cycle, so every handshake is seen exactly once.
#
# Checks:
#  - every AXI write burst gets exactly one B, in AW order, with the burst's ID, RESP_OKAY, and only
#    after all of its beats were handed to the native wdata channel;
#  - native write data is never taken without a previously accepted native write command;
#  - every AXI read burst returns len+1 beats in AR order with the right ID / LAST / RESP and the
#    data a reference memory holds (reads are only launched on words with no write in flight, and
#    writes only on words with no read in flight, so the expected data is well defined; a read may
#    be launched in the very cycle after the B handshake of a write to the same word);
#  - at the end the memory behind the native port equals the reference memory (so exactly the
#    addressed beats were updated under their strobes - also in RMW mode, where the untouched bytes
#    of a word must survive);
#  - no spurious B / R, no deadlock.
#
# Native side models: "patient" (wdata.ready / rdata.valid random, honouring the handshake) and
# "strict" (like the real controller: wdata.ready is a pulse a fixed number of cycles after the write
# command was accepted and the data MUST be valid then; rdata.valid is a pulse and rdata.ready MUST be
# high then). Idle payloads are scrambled, long stalls are injected on random channels.
#
# Envelope (found by running this harness on the UNMODIFIED tree, which violates the property
# outside it, independently of the change under test):
#  - at most w_buffer_depth write bursts outstanding (resp_buffer / id_buffer have no back-pressure);
#  - native wdata.ready is never high in the very cycle a write command is accepted;
#  - with_read_modify_write=True: a W beat is presented only after its AW was accepted and the native
#    write commands of all earlier beats were accepted (the RMW FSM uses aw.addr unconditionally),
#    and the controller pulls write data no earlier than 2 cycles after the command;
#  - w_buffer_depth >= 2 and not of the form 2**k - 1 on the unmodified tree (level counter wraps).
# ---------------------------------------------------------------------------------------------
import os, sys, random
sys.path.insert(0, os.getcwd())

from migen import *
from litex.soc.interconnect.axi import BURST_FIXED, BURST_INCR, BURST_WRAP, RESP_OKAY
from litedram.common import LiteDRAMNativePort
from litedram.frontend.axi import LiteDRAMAXIPort, LiteDRAMAXI2Native


def beat_addresses(addr, btype, blen, size):
    """AXI4 spec beat addresses (addr aligned to size)."""
    nbytes = 1 << size
    n      = blen + 1
    r      = []
    if btype == BURST_FIXED:
        return [addr]*n
    if btype == BURST_INCR:
        return [addr + i*nbytes for i in range(n)]
    window = nbytes*n
    low    = (addr//window)*window
    a      = addr
    for i in range(n):
        r.append(a)
        a += nbytes
        if a >= low + window:
            a = low
    return r


class Cfg:
    def __init__(self, **kw):
        self.data_width   = 32
        self.id_width     = 4
        self.w_depth      = 16
        self.r_depth      = 16
        self.base         = 0
        self.rmw          = False
        self.mem_words    = 40
        self.n_writes     = 20
        self.n_reads      = 20
        self.max_len      = 15
        self.narrow       = True
        self.p_aw         = 0.5   # probability to present a new item when idle
        self.p_w          = 0.5
        self.p_ar         = 0.5
        self.p_bready     = 0.5
        self.p_rready     = 0.5
        self.p_cmdready   = 0.5
        self.p_wdready    = 0.5   # patient native wdata model
        self.strict_w     = None  # None: patient, else fixed wdata latency (controller pulls data)
        self.strict_r     = False # rdata.valid is a pulse, ready must be high
        self.spurious_wr  = False # native wdata.ready may be high with no pending write command
        self.rd_lat       = (1, 6)
        self.lax_read     = True  # memory sampled when the read command is accepted
        self.long_stall   = 0.0   # probability per cycle to start a long stall on a random channel
        self.p_full_strb  = 0.5
        self.w_after_cmds = False
        self.len_choices  = None  # force INCR bursts with one of these lengths
        self.max_outstanding_w = 1 << 30
        self.dut_kwargs   = {}
        self.timeout      = 40000
        self.__dict__.update(kw)

    def __repr__(self):
        return "Cfg(" + ", ".join(f"{k}={v!r}" for k, v in sorted(self.__dict__.items())) + ")"


def make_dut(cfg):
    axi  = LiteDRAMAXIPort(data_width=cfg.data_width, address_width=32, id_width=cfg.id_width)
    port = LiteDRAMNativePort("both", 32, cfg.data_width)
    dut  = LiteDRAMAXI2Native(axi, port,
        w_buffer_depth         = cfg.w_depth,
        r_buffer_depth         = cfg.r_depth,
        base_address           = cfg.base,
        with_read_modify_write = cfg.rmw,
        **cfg.dut_kwargs)
    return dut, axi, port


def run_one(cfg, seed, trace=None, hooks=None):
    """Returns list of error strings (empty == OK)."""
    prng = random.Random(seed)
    dut, axi, port = make_dut(cfg)
    errors = []
    stats  = {}

    nbw    = cfg.data_width//8
    ashift = (nbw).bit_length() - 1
    full   = (1 << nbw) - 1
    dmask  = (1 << cfg.data_width) - 1

    mem = [prng.getrandbits(cfg.data_width) for _ in range(cfg.mem_words)]
    ref = list(mem)
    wlock = [0]*cfg.mem_words
    rlock = [0]*cfg.mem_words
    recent = []

    def strb_mask(strb):
        m = 0
        for i in range(nbw):
            if (strb >> i) & 1:
                m |= 0xff << (8*i)
        return m

    def new_burst(write):
        sizes = [ashift]*3 + (list(range(ashift)) if cfg.narrow else [])
        for _ in range(8):
            size   = prng.choice(sizes)
            nbytes = 1 << size
            btype  = prng.choice([BURST_FIXED, BURST_INCR, BURST_INCR, BURST_WRAP])
            if btype == BURST_WRAP:
                blen = prng.choice([l for l in (1, 3, 7, 15) if l <= max(cfg.max_len, 1)])
            elif btype == BURST_FIXED:
                blen = prng.randrange(min(cfg.max_len, 15) + 1)
            else:
                blen = prng.randrange(cfg.max_len + 1)
            if cfg.len_choices:
                btype = BURST_INCR
                blen  = prng.choice(cfg.len_choices)
            elif prng.random() < 0.25:
                blen = 0 if btype != BURST_WRAP else 1
            total = cfg.mem_words*nbw
            if (not write) and recent and prng.random() < 0.6:
                off = prng.choice(recent)*nbw
            else:
                off = prng.randrange(total)
            off = (off//nbytes)*nbytes
            if size != ashift:
                off += prng.randrange(nbw//nbytes)*nbytes
                off %= total
            if btype == BURST_INCR and off + (blen + 1)*nbytes > total:
                continue
            if btype == BURST_WRAP:
                window = nbytes*(blen + 1)
                if (off//window)*window + window > total:
                    continue
            addrs = beat_addresses(off, btype, blen, size)
            words = [a >> ashift for a in addrs]
            if write:
                if any(rlock[w] for w in words):
                    continue
            else:
                if any(wlock[w] for w in words):
                    continue
            b = dict(id=prng.getrandbits(cfg.id_width), addr=cfg.base + off, type=btype, len=blen,
                     size=size, words=words, write=write)
            if write:
                beats = []
                for a, w in zip(addrs, words):
                    lanes = ((1 << nbytes) - 1) << ((a % nbw)//nbytes*nbytes)
                    if prng.random() < cfg.p_full_strb:
                        strb = lanes
                    else:
                        strb = prng.getrandbits(nbw) & lanes
                    data = prng.getrandbits(cfg.data_width)
                    beats.append((data, strb))
                    m = strb_mask(strb)
                    ref[w] = (ref[w] & ~m & dmask) | (data & m)
                    wlock[w] += 1
                b["beats"] = beats
            else:
                b["exp"] = [ref[w] for w in words]
                for w in words:
                    rlock[w] += 1
            return b
        return None

    probe_sigs = hooks.setup(dut, cfg) if hooks is not None else []

    def gen():
        writes, reads = [], []       # created bursts, in order
        aw_q, w_q, ar_q = [], [], [] # not yet presented
        aw_cur = w_cur = ar_cur = None
        n_aw_done = 0                # AW handshakes
        n_b  = 0
        r_exp = []                   # flattened expected R beats: (burst, idx)
        n_r_beats = 0
        n_r_done  = 0
        cum_beats = []               # cumulative number of beats up to burst i (inclusive)
        # native
        cmd_ready = 0
        wd_ready  = 0
        wq = []                      # accepted write cmd addresses
        n_wcmd = 0
        n_wdata = 0
        strict_pulses = []           # cycles at which wdata.ready pulses
        rq = []                      # [addr, data, countdown, n_wcmd_before]
        rd_valid = 0
        b_ready = r_ready = 0
        stall = {}                   # channel -> remaining cycles of forced stall
        cycle = 0
        idle_after = 0
        n_rmw_reads = 0
        n_w_presented = 0
        n_rcmd = 0

        def stalled(ch):
            return stall.get(ch, 0) > 0

        while True:
            # ---------------- sample cycle t ----------------
            aw_ready = (yield axi.aw.ready)
            w_ready  = (yield axi.w.ready)
            ar_ready = (yield axi.ar.ready)
            b_valid  = (yield axi.b.valid)
            r_valid  = (yield axi.r.valid)
            c_valid  = (yield port.cmd.valid)
            wd_valid = (yield port.wdata.valid)
            rd_rdy   = (yield port.rdata.ready)
            if probe_sigs:
                vals = []
                for sig in probe_sigs:
                    vals.append((yield sig))
                e = hooks.check(cfg, cycle, vals, dict(n_wcmd=n_wcmd, n_wdata=n_wdata, n_rcmd=n_rcmd,
                                                       n_r_done=n_r_done), stats)
                if e:
                    errors.append(f"[{cycle}] {e}")

            # AW
            if aw_cur is not None and aw_ready:
                n_aw_done += 1
                aw_cur = None
            # W
            if w_cur is not None and w_ready:
                w_cur = None
            # AR
            if ar_cur is not None and ar_ready:
                ar_cur = None
            # B
            if b_valid and b_ready:
                bid   = (yield axi.b.id)
                bresp = (yield axi.b.resp)
                if n_b >= len(writes):
                    errors.append(f"[{cycle}] spurious B id={bid}")
                else:
                    wb = writes[n_b]
                    if n_b >= n_aw_done:
                        errors.append(f"[{cycle}] B #{n_b} before its AW was accepted")
                    if bid != wb["id"]:
                        errors.append(f"[{cycle}] B #{n_b} id {bid} != {wb['id']}")
                    if bresp != RESP_OKAY:
                        errors.append(f"[{cycle}] B #{n_b} resp {bresp}")
                    if n_wdata < cum_beats[n_b]:
                        errors.append(f"[{cycle}] B #{n_b} before its data reached memory "
                                      f"({n_wdata} < {cum_beats[n_b]})")
                    for w in wb["words"]:
                        wlock[w] -= 1
                        recent.append(w)
                    del recent[:-12]
                    n_b += 1
            elif b_valid and n_b >= len(writes):
                errors.append(f"[{cycle}] spurious B valid")
            # R
            if r_valid and r_ready:
                rdata = (yield axi.r.data)
                rid   = (yield axi.r.id)
                rlast = (yield axi.r.last)
                rresp = (yield axi.r.resp)
                if n_r_done >= len(r_exp):
                    errors.append(f"[{cycle}] spurious R beat")
                else:
                    rb, i = r_exp[n_r_done]
                    if rdata != rb["exp"][i]:
                        errors.append(f"[{cycle}] R beat {i} of read {rb['n']} (word {rb['words'][i]}): "
                                      f"data {rdata:x} != {rb['exp'][i]:x}")
                    if rid != rb["id"]:
                        errors.append(f"[{cycle}] R beat {i} of read {rb['n']}: id {rid} != {rb['id']}")
                    if rlast != int(i == rb["len"]):
                        errors.append(f"[{cycle}] R beat {i} of read {rb['n']}: last {rlast}")
                    if rresp != RESP_OKAY:
                        errors.append(f"[{cycle}] R resp {rresp}")
                    if i == rb["len"]:
                        for w in rb["words"]:
                            rlock[w] -= 1
                    n_r_done += 1
            elif r_valid and n_r_done >= len(r_exp):
                errors.append(f"[{cycle}] spurious R valid")
            # native cmd
            if c_valid and cmd_ready:
                c_we   = (yield port.cmd.we)
                c_addr = (yield port.cmd.addr)
                if c_addr >= cfg.mem_words:
                    errors.append(f"[{cycle}] native cmd address {c_addr:x} out of range (we={c_we})")
                    c_addr %= cfg.mem_words
                if c_we:
                    wq.append(c_addr)
                    n_wcmd += 1
                    if cfg.strict_w is not None:
                        strict_pulses.append(cycle + cfg.strict_w)
                else:
                    n_rcmd += 1
                    lat = prng.randint(*cfg.rd_lat)
                    rq.append([c_addr, mem[c_addr] if cfg.lax_read else None, lat, n_wcmd])
            # native wdata
            if wd_ready and cfg.strict_w is not None and wq and not wd_valid:
                errors.append(f"[{cycle}] controller pulled write data but wdata.valid=0")
                wq.pop(0); n_wdata += 1
            elif wd_valid and wd_ready:
                if not wq:
                    errors.append(f"[{cycle}] native write data taken without an accepted write command")
                else:
                    a  = wq.pop(0)
                    d  = (yield port.wdata.data)
                    we = (yield port.wdata.we)
                    m  = strb_mask(we)
                    mem[a] = (mem[a] & ~m & dmask) | (d & m)
                    n_wdata += 1
            # native rdata
            if rd_valid:
                if rd_rdy:
                    rq.pop(0)
                    rd_valid = 0
                elif cfg.strict_r:
                    errors.append(f"[{cycle}] native read data presented but rdata.ready=0 (data lost)")
                    rq.pop(0)
                    rd_valid = 0

            if len(errors) > 5:
                return

            # ---------------- end / timeout ----------------
            done = (len(writes) == cfg.n_writes and len(reads) == cfg.n_reads and
                    n_b == len(writes) and n_r_done == len(r_exp) and
                    not aw_q and not w_q and not ar_q and
                    aw_cur is None and w_cur is None and ar_cur is None)
            if done:
                idle_after += 1
                if idle_after > 30:
                    break
            if cycle > cfg.timeout:
                errors.append(f"timeout: B {n_b}/{len(writes)} R {n_r_done}/{len(r_exp)} "
                              f"wcmd {n_wcmd} wdata {n_wdata} rq {len(rq)}")
                return

            # ---------------- create traffic ----------------
            if (len(writes) < cfg.n_writes and len(aw_q) < 3 and len(w_q) < 40 and prng.random() < 0.3 and
                len(writes) - n_b < cfg.max_outstanding_w):
                b = new_burst(True)
                if b is not None:
                    b["n"] = len(writes)
                    writes.append(b)
                    cum_beats.append((cum_beats[-1] if cum_beats else 0) + b["len"] + 1)
                    aw_q.append(b)
                    for i, (d, s) in enumerate(b["beats"]):
                        w_q.append((d, s, int(i == b["len"])))
            if len(reads) < cfg.n_reads and len(ar_q) < 2 and prng.random() < 0.3:
                b = new_burst(False)
                if b is not None:
                    b["n"] = len(reads)
                    reads.append(b)
                    ar_q.append(b)
                    r_exp.extend((b, i) for i in range(b["len"] + 1))

            # long stalls
            for k in list(stall):
                stall[k] -= 1
                if stall[k] <= 0:
                    del stall[k]
            if cfg.long_stall and prng.random() < cfg.long_stall:
                stall[prng.choice(["aw", "w", "ar", "b", "r", "cmd", "wd", "rd"])] = prng.randrange(20, 120)

            # ---------------- drive cycle t+1 ----------------
            def drive_ax(ch, b):
                return [ch.valid.eq(1), ch.addr.eq(b["addr"]), ch.burst.eq(b["type"]), ch.len.eq(b["len"]),
                        ch.size.eq(b["size"]), ch.id.eq(b["id"])]
            def scramble_ax(ch):
                return [ch.valid.eq(0), ch.addr.eq(prng.getrandbits(32)), ch.burst.eq(prng.randrange(3)),
                        ch.len.eq(prng.getrandbits(8)), ch.size.eq(prng.randrange(ashift + 1)),
                        ch.id.eq(prng.getrandbits(cfg.id_width))]
            if aw_cur is None:
                if aw_q and not stalled("aw") and prng.random() < cfg.p_aw:
                    aw_cur = aw_q.pop(0)
                    yield drive_ax(axi.aw, aw_cur)
                else:
                    yield scramble_ax(axi.aw)
            if ar_cur is None:
                if ar_q and not stalled("ar") and prng.random() < cfg.p_ar:
                    ar_cur = ar_q.pop(0)
                    yield drive_ax(axi.ar, ar_cur)
                else:
                    yield scramble_ax(axi.ar)
            if w_cur is None:
                w_ok = True
                if cfg.w_after_cmds:
                    # Envelope: a W beat is only presented once its AW was accepted and the native
                    # write commands of all earlier beats were accepted.
                    w_ok = (n_w_presented < (cum_beats[n_aw_done - 1] if n_aw_done else 0)) and n_wcmd >= n_w_presented
                if w_ok and w_q and not stalled("w") and prng.random() < cfg.p_w:
                    n_w_presented += 1
                    w_cur = w_q.pop(0)
                    yield [axi.w.valid.eq(1), axi.w.data.eq(w_cur[0]), axi.w.strb.eq(w_cur[1]), axi.w.last.eq(w_cur[2])]
                else:
                    yield [axi.w.valid.eq(0), axi.w.data.eq(prng.getrandbits(cfg.data_width)),
                           axi.w.strb.eq(prng.getrandbits(nbw)), axi.w.last.eq(prng.getrandbits(1))]
            nb_ready = int(not stalled("b") and prng.random() < cfg.p_bready)
            if nb_ready != b_ready:
                b_ready = nb_ready
                yield axi.b.ready.eq(b_ready)
            nr_ready = int(not stalled("r") and prng.random() < cfg.p_rready)
            if nr_ready != r_ready:
                r_ready = nr_ready
                yield axi.r.ready.eq(r_ready)
            nc_ready = int(not stalled("cmd") and prng.random() < cfg.p_cmdready)
            if nc_ready != cmd_ready:
                cmd_ready = nc_ready
                yield port.cmd.ready.eq(cmd_ready)
            # wdata.ready
            if cfg.strict_w is not None:
                nwd = 0
                if strict_pulses and strict_pulses[0] <= cycle + 1:
                    strict_pulses.pop(0)
                    nwd = 1
                elif cfg.spurious_wr and not wq and not cmd_ready and prng.random() < 0.3:
                    nwd = 1
            else:
                nwd = int(not stalled("wd") and prng.random() < cfg.p_wdready and
                          (bool(wq) or (cfg.spurious_wr and not cmd_ready)))
            if nwd != wd_ready:
                wd_ready = nwd
                yield port.wdata.ready.eq(wd_ready)
            # rdata
            if not rd_valid:
                if rq:
                    h = rq[0]
                    if h[1] is None:
                        if n_wdata >= h[3]:
                            h[1] = mem[h[0]]
                    if h[1] is not None:
                        if h[2] > 0:
                            h[2] -= 1
                        elif not stalled("rd"):
                            rd_valid = 1
                            yield [port.rdata.valid.eq(1), port.rdata.data.eq(h[1])]
                if not rd_valid:
                    yield [port.rdata.valid.eq(0), port.rdata.data.eq(prng.getrandbits(cfg.data_width))]
            yield
            cycle += 1

        # final checks
        if wq or rq:
            errors.append(f"native side not drained: wq={len(wq)} rq={len(rq)}")
        for i in range(cfg.mem_words):
            if mem[i] != ref[i]:
                errors.append(f"memory word {i}: {mem[i]:x} != expected {ref[i]:x}")
                if len(errors) > 8:
                    break
        stats.update(cycles=cycle, writes=len(writes), reads=len(reads), wcmd=n_wcmd)

    run_simulation(dut, [gen()], vcd_name=trace)
    return errors, stats


def random_cfg(prng, **force):
    probs = [0.1, 0.3, 0.5, 0.9, 1.0]
    kw = dict(
        data_width  = prng.choice([32, 32, 64]),
        id_width    = prng.choice([1, 2, 4, 8]),
        w_depth     = prng.choice([2, 4, 5, 6, 8, 16]),
        r_depth     = prng.choice([2, 4, 5, 6, 8, 16]),
        base        = prng.choice([0, 0x1000, 0x40000000, 0x80000000]),
        rmw         = prng.random() < 0.5,
        mem_words   = prng.choice([24, 40, 64]),
        p_aw        = prng.choice(probs), p_w = prng.choice(probs), p_ar = prng.choice(probs),
        p_bready    = prng.choice(probs), p_rready = prng.choice(probs),
        p_cmdready  = prng.choice(probs), p_wdready = prng.choice(probs),
        strict_w    = prng.choice([None, None, 0, 1, 2, 5]),
        strict_r    = prng.random() < 0.5,
        spurious_wr = prng.random() < 0.5,
        rd_lat      = prng.choice([(0, 0), (1, 6), (0, 12)]),
        lax_read    = prng.random() < 0.7,
        long_stall  = prng.choice([0, 0, 0.01]),
        max_len     = prng.choice([3, 7, 15, 40]),
        p_full_strb = prng.choice([0.2, 0.5, 0.9, 1.0]),
    )
    # Envelope in which the UNMODIFIED tree satisfies the property (see notes at the top).
    kw["max_outstanding_w"] = kw["w_depth"]
    if kw["rmw"]:
        kw["w_after_cmds"] = True
        if kw["strict_w"] is not None and kw["strict_w"] < 2:
            kw["strict_w"] = 2
    kw.update(force)
    return Cfg(**kw)

# ---------------------------------------------------------------------------------------------
# Runner
# ---------------------------------------------------------------------------------------------
import time, traceback
from multiprocessing import Pool

def _job(args):
    name, cfg, seed, hooks = args
    t = time.time()
    try:
        errs, stats = run_one(cfg, seed, hooks=hooks)
    except Exception:
        errs, stats = ["EXCEPTION " + traceback.format_exc()], {}
    return name, cfg, seed, errs, stats, time.time() - t

def run_jobs(jobs, nproc=None):
    nproc = nproc or max(1, min(8, os.cpu_count() or 1))
    nfail = 0
    allstats = []
    with Pool(nproc) as p:
        for name, cfg, seed, errs, stats, dt in p.imap_unordered(_job, jobs):
            print(f"{name:28s} seed={seed:<5d} {'OK  ' if not errs else 'FAIL'} {stats} {dt:.0f}s", flush=True)
            allstats.append((name, stats))
            if errs:
                nfail += 1
                print("   ", cfg)
                for e in errs[:6]:
                    print("      ", e)
    return nfail, allstats

# ---------------------------------------------------------------------------------------------
# keep_3: read ID FIFO holds one entry per burst (ID + LEN); LAST is regenerated by a beat counter.
# The scoreboard checks ID, LAST and the beat count of every R beat against the request order; the
# runs mix single-beat and long bursts (up to 256 beats), all ID widths, small and large read
# buffers, stalled R channel, and back-to-back bursts with different IDs.
# ---------------------------------------------------------------------------------------------
if __name__ == "__main__":
    jobs = []
    master = random.Random(0xC0903)
    for i in range(28):
        seed = master.randrange(1 << 16)
        force = {}
        if i % 4 == 0:   # many short bursts back to back, read buffer as full as possible
            force = dict(max_len=3, p_ar=1.0, p_cmdready=1.0, p_rready=0.3, n_reads=40, id_width=8)
        if i % 4 == 1:   # bursts longer than the read buffer
            force = dict(max_len=40, r_depth=random.Random(seed).choice([1, 2, 4, 5]), p_ar=0.9, n_reads=16,
                         mem_words=64)
        cfg = random_cfg(random.Random(seed), **force)
        jobs.append((f"rand{i}", cfg, seed, None))
    # AXI4 maximum burst length (256 beats): 8 bit LEN / beat counter.
    for i in range(2):
        seed = 7000 + i
        cfg = random_cfg(random.Random(seed), max_len=255, len_choices=[255, 255, 128, 127, 0], mem_words=300,
                         n_reads=8, n_writes=4, rmw=False,
                         w_after_cmds=False, narrow=False, p_rready=0.9, p_cmdready=0.9, p_ar=0.9,
                         p_wdready=0.9, p_w=0.9, p_aw=0.9, long_stall=0, rd_lat=(0, 3), timeout=60000)
        jobs.append((f"len256_{i}", cfg, seed, None))
    nfail, allstats = run_jobs(jobs)
    print(f"{len(jobs)} runs, {nfail} failed")
    sys.exit(1 if nfail else 0)
