#!/usr/bin/env python3
# C16 check for keep_3 (optional explicit tRC in _SpeedgradeTimings, filled from the SPD tRCmin
# bytes; TimingSettings.tRC = max(cycles(tRP + tRAS), cycles(tRC))).
#
# Drives the real litedram.modules code:
#   * every module class x speedgrade x rates 1:1/1:2/1:4/1:8 x DDR4 fine refresh modes x a dense
#     range of controller frequencies (regular grid + random floats + frequencies chosen so that a
#     datasheet value falls exactly on a cycle / DRAM clock boundary): every value must be identical
#     to the one of the unmodified formulas (library modules state no explicit tRC),
#   * every SPD image of test/spd_data + many images with randomly perturbed timing bytes (tRCmin
#     above / below tRASmin + tRPmin included), decoded here independently of litedram,
#   * a hand written module class with an explicit (ck, ns) tRC,
# and checks with exact rational arithmetic (Fractions, 1e-9 ns tolerance for float noise):
#   * min-type timings (tRC = tRP + tRAS included): cycles*T - (1 - 1/nphases)*T >= datasheet ns,
#     cycles*nphases >= datasheet ck
#   * tRC additionally covers the SPD tRCmin, and is exactly max(old tRC, cycles(tRCmin))
#   * tREFI: cycles*T <= datasheet tREFI
import os, sys, csv, glob, inspect, random
sys.path.insert(0, os.getcwd())
from fractions import Fraction as Fr
from math import ceil, floor

import litedram.modules as M
from litedram.modules import SDRAMModule

TOL_NS = Fr(1, 10**9)   # 1e-9 ns: float noise of the implementation, far below any DRAM resolution
MIN_NAMES = ["tRP", "tRCD", "tWR", "tRFC", "tWTR", "tFAW", "tCCD", "tRRD", "tRAS", "tZQCS"]
SPEEDGRADE = ["tRP", "tRCD", "tWR", "tRFC", "tFAW", "tRAS"]

# datasheet values, read straight from the class tables ----------------------------------------------

def ds_raw(cls_or_obj, speedgrade, name):
    if name in SPEEDGRADE:
        sg = "default" if speedgrade is None else speedgrade
        return getattr(cls_or_obj.speedgrade_timings[sg], name)
    return getattr(cls_or_obj.technology_timings, name)

def ds(cls_or_obj, speedgrade, name, frm):
    """-> None or (ck, ns) with None replaced by 0"""
    v = ds_raw(cls_or_obj, speedgrade, name)
    if v is None:
        return None
    if isinstance(v, dict):
        v = v[frm]
    if isinstance(v, tuple):
        ck, ns = v
    else:
        ck, ns = 0, v
    return (ck or 0, ns or 0)

# unmodified formulas (reference) --------------------------------------------------------------------

def ref_ns_to_cycles(t, clk_freq, nphases, margin=True, rounding=ceil):
    clk_period_ns = 1e9/clk_freq
    t += clk_period_ns*(1 - 1/nphases) if margin else 0
    return rounding(t/clk_period_ns)

def ref_cycles(ck, ns, clk_freq, nphases, **kw):
    return max(ceil(ck/nphases), ref_ns_to_cycles(ns, clk_freq, nphases, **kw))

# the property ---------------------------------------------------------------------------------------

class Stats:
    n = 0; checks = 0; ref_diffs = 0

def on_clock_edge(ns, clk_freq, nphases, with_margin_float=True):
    """True if ns is (to 1e-9 relative) a whole number of DRAM clocks: the only place where the
    unmodified float formulas may legitimately land one cycle away from the exact result."""
    x = Fr(ns)*Fr(clk_freq)*nphases/10**9
    return abs(x - round(x)) <= Fr(1, 10**9)*max(1, x)

def check_settings(tag, ts, sheet, clk_freq, nphases, errors, compare_ref=True, trc_extra=None, TOL_NS=TOL_NS):
    """sheet: dict name -> None | (ck, ns); contains tREFI too."""
    T = Fr(10**9)/Fr(clk_freq)
    margin = T*(1 - Fr(1, nphases))
    sheet = dict(sheet)
    if sheet["tRAS"] is not None:
        sheet["tRC"] = (sheet["tRP"][0] + sheet["tRAS"][0], sheet["tRP"][1] + sheet["tRAS"][1])
    else:
        sheet["tRC"] = None
    for name in MIN_NAMES + ["tRC"]:
        got = getattr(ts, name)
        want = sheet[name]
        if want is None:
            if name in ["tFAW", "tCCD", "tRRD", "tRC", "tRAS", "tZQCS"]:
                if got is not None:
                    errors.append((tag, name, "expected None", got))
                continue
            raise AssertionError("no datasheet value for " + name)
        ck, ns = want
        Stats.checks += 1
        if not isinstance(got, int):
            errors.append((tag, name, "not an int", got)); continue
        if got*T - margin < Fr(ns) - TOL_NS:
            errors.append((tag, name, "ns not covered", got, float(T), ns))
        if got*nphases < ck:
            errors.append((tag, name, "ck not covered", got, ck))
        if name == "tRC" and trc_extra is not None:
            if got*T - margin < Fr(trc_extra) - TOL_NS:
                errors.append((tag, name, "tRC(SPD) not covered", got, float(T), trc_extra))
        if compare_ref:
            ref = ref_cycles(ck, ns, clk_freq, nphases)
            if ref != got:
                Stats.ref_diffs += 1
                # tolerated only on an exact clock edge (float noise of the old formulas)
                if abs(ref - got) > 1 or not on_clock_edge(ns, clk_freq, nphases):
                    errors.append((tag, name, "differs from reference", got, ref))
    # refresh interval: a maximum
    ck, ns = sheet["tREFI"]
    assert ck == 0
    got = ts.tREFI
    Stats.checks += 1
    if not isinstance(got, int) or got*T > Fr(ns) + TOL_NS:
        errors.append((tag, "tREFI", "longer than datasheet", got, float(T), ns))
    if compare_ref:
        ref = ref_ns_to_cycles(ns, clk_freq, nphases, margin=False, rounding=floor)
        if ref != got:
            Stats.ref_diffs += 1
            if abs(ref - got) > 1 or not on_clock_edge(ns, clk_freq, nphases):
                errors.append((tag, "tREFI", "differs from reference", got, ref))

# configurations -------------------------------------------------------------------------------------

def module_classes():
    for name, cls in vars(M).items():
        if inspect.isclass(cls) and issubclass(cls, SDRAMModule) and \
           all(hasattr(cls, a) for a in ("memtype", "nbanks", "nrows", "ncols")):
            yield name, cls

def frequencies(rng, sheet_ns, nphases_list=(1, 2, 4, 8)):
    fs = [f*1e6 for f in range(10, 501, 5)]
    fs += [100e6, 125e6, 133.33e6, 1e9/7.5, 166.666e6, 1e9/6, 200e6, 1e9/3, 266.67e6, 400e6, 50e6, 75e6, 83.3333e6]
    fs += [rng.uniform(8e6, 520e6) for _ in range(60)]
    fs += [float(rng.randrange(8_000_000, 520_000_000)) for _ in range(40)]
    # boundary frequencies: ns is a whole number k of DRAM clocks
    for ns in sheet_ns:
        if ns <= 0:
            continue
        for _ in range(6):
            d = rng.choice(nphases_list)
            lo = max(1, ceil(ns*d*8e6/1e9)); hi = max(lo, floor(ns*d*520e6/1e9))
            k = rng.randint(lo, hi)
            fs.append(k*1e9/(ns*d))
            fs.append(int(k*1e9/(ns*d)))
    return [f for f in fs if f > 0]

def run_library(errors, rng, compare_ref=True, extra_kwargs=None, sheet_hook=None, quick=False, TOL_NS=TOL_NS):
    for name, cls in module_classes():
        for sg in cls.speedgrade_timings:
            speedgrade = None if sg == "default" else sg
            frms = ["1x", "2x", "4x", None] if cls.memtype == "DDR4" else [None]
            for frm in frms:
                eff_frm = "1x" if (frm is None and cls.memtype == "DDR4") else frm
                sheet = {n: ds(cls, speedgrade, n, eff_frm) for n in MIN_NAMES + ["tREFI"]}
                ns_values = sorted({v[1] for v in sheet.values() if v is not None})
                fs = frequencies(rng, ns_values)
                if quick:
                    fs = fs[::7]
                for rate in ["1:1", "1:2", "1:4", "1:8"]:
                    nphases = int(rate.split(":")[1])
                    for f in fs:
                        kw = dict(extra_kwargs or {})
                        m = cls(f, rate, speedgrade=speedgrade, fine_refresh_mode=frm, **kw)
                        Stats.n += 1
                        sh = sheet if sheet_hook is None else sheet_hook(sheet, kw)
                        check_settings((name, sg, frm, rate, f), m.timing_settings, sh, f, nphases,
                                       errors, compare_ref=compare_ref, TOL_NS=TOL_NS)
                        assert m.timing_settings.fine_refresh_mode == eff_frm
                        if len(errors) > 20:
                            return

# SPD: independent decoder ---------------------------------------------------------------------------

def load_spd_csv(path):
    data = [0]*512
    with open(path) as f:
        for row in csv.DictReader(f):
            a = row["Byte Number"]
            if len(a.split("-")) == 1:
                data[int(a)] = int(row["Byte Value"], 16)
    return data

def s8(v):
    return v - 256 if v & 0x80 else v

def spd_sheet(b, frm):
    """-> (sheet, tRC_ns) decoded with exact fractions; ns given as Fractions"""
    if b[2] == 0x0b:
        ftb = Fr(b[9] >> 4, b[9] & 0xf)/1000
        mtb = Fr(b[10], b[11])
        t = lambda m, f=0: m*mtb + s8(f)*ftb
        sheet = {
            "tRP":   (0, t(b[20], b[37])),
            "tRCD":  (0, t(b[18], b[36])),
            "tWR":   (0, t(b[17])),
            "tRFC":  (0, t((b[25] << 8) | b[24])),
            "tWTR":  (4, t(b[26])),
            "tFAW":  (0, t(((b[28] & 0xf) << 8) | b[29])),
            "tCCD":  (4, 0),
            "tRRD":  (4, t(b[19])),
            "tRAS":  (0, t(((b[21] & 0xf) << 8) | b[22])),
            "tZQCS": (64, 80),
            "tREFI": (0, Fr(64*10**6, 8192)),
        }
        trc = t(((b[21] >> 4) << 8) | b[23], b[38])
    else:
        assert b[2] == 0x0c and (b[17] & 0xf) == 0
        mtb, ftb = Fr(125, 1000), Fr(1, 1000)
        t = lambda m, f=0: m*mtb + s8(f)*ftb
        width = {0: 4, 1: 8, 2: 16, 3: 32}[b[12] & 7]
        ncols = 2**({0: 9, 1: 10, 2: 11, 3: 12}[b[5] & 7])
        tfaw_ck = {512: 16, 1024: 20, 2048: 28}[ncols*width//8]
        k = {"1x": 0, "2x": 1, "4x": 2}[frm]
        sheet = {
            "tRP":   (0, t(b[26], b[121])),
            "tRCD":  (0, t(b[25], b[122])),
            "tWR":   (0, t(((b[41] & 0xf) << 8) | b[42])),
            "tRFC":  (0, t((b[31 + 2*k] << 8) | b[30 + 2*k])),
            "tWTR":  (4, t(((b[43] >> 4) << 8) | b[45])),
            "tFAW":  (tfaw_ck, t(((b[36] & 0xf) << 8) | b[37])),
            "tCCD":  (4, t(b[40], b[117])),
            "tRRD":  (4, t(b[39], b[118])),
            "tRAS":  (0, t(((b[27] & 0xf) << 8) | b[28])),
            "tZQCS": (128, 80),
            "tREFI": (0, Fr(64*10**6, 8192)/(2**k)),
        }
        trc = t(((b[27] >> 4) << 8) | b[29], b[120])
    return sheet, trc

DDR3_TIMING_BYTES = [16, 17, 18, 19, 20, 21, 22, 23, 24, 25, 26, 27, 28, 29, 35, 36, 37, 38]
DDR4_TIMING_BYTES = [24, 25, 26, 27, 28, 29, 30, 31, 32, 33, 34, 35, 36, 37, 38, 39, 40, 41, 42,
                     43, 44, 45, 117, 118, 119, 120, 121, 122, 123]

def run_spd(errors, rng, compare_ref=True, check_trc=False, nfuzz=40):
    files = sorted(glob.glob(os.path.join("test", "spd_data", "*.csv")))
    assert len(files) >= 10, files
    for path in files:
        base = load_spd_csv(path)
        images = [base]
        tb = DDR3_TIMING_BYTES if base[2] == 0x0b else DDR4_TIMING_BYTES
        for _ in range(nfuzz):
            img = list(base)
            for i in rng.sample(tb, rng.randint(1, 6)):
                img[i] = rng.randrange(256) if rng.random() < 0.5 else (img[i] + rng.randint(-3, 3)) & 0xff
            images.append(img)
        fs = [f*1e6 for f in range(25, 451, 25)] + [125e6, 133.33e6, 1e9/7.5] + \
             [rng.uniform(20e6, 450e6) for _ in range(25)]
        for n, img in enumerate(images):
            frms = ["1x", "2x", "4x", None] if img[2] == 0x0c else [None]
            for frm in frms:
                eff = "1x" if (frm is None and img[2] == 0x0c) else frm
                sheet, trc = spd_sheet(img, eff)
                for f in fs:
                    m = SDRAMModule.from_spd_data(img, f, fine_refresh_mode=frm)
                    assert m.rate == "1:4"
                    Stats.n += 1
                    fsheet = {k: (v[0], float(v[1])) for k, v in sheet.items()}
                    check_settings((os.path.basename(path), n, frm, f), m.timing_settings, sheet, f, 4,
                                   errors, compare_ref=False, trc_extra=trc if check_trc else None)
                    if compare_ref:
                        # unmodified code on float-decoded values: allow +-0 only
                        check_ref_only((os.path.basename(path), n, frm, f), m, fsheet, f, errors)
                    if len(errors) > 20:
                        return

def check_ref_only(tag, m, fsheet, f, errors):
    ts = m.timing_settings
    for name in MIN_NAMES:
        ck, ns = fsheet[name]
        ref = ref_cycles(ck, ns, f, 4)
        if ref != getattr(ts, name):
            Stats.ref_diffs += 1
            if abs(ref - getattr(ts, name)) > 1 or not on_clock_edge(ns, f, 4):
                errors.append((tag, name, "differs from reference", getattr(ts, name), ref))

def finish(errors, max_ref_diffs=0):
    print("instances: %d   timing checks: %d   differences to unmodified formulas: %d"
          % (Stats.n, Stats.checks, Stats.ref_diffs))
    for e in errors[:20]:
        print("FAIL", e)
    if errors:
        sys.exit(1)
    if max_ref_diffs is not None and Stats.ref_diffs > max_ref_diffs:
        print("FAIL: results differ from the unmodified conversion")
        sys.exit(1)
    print("OK")
    sys.exit(0)

# change specific part -------------------------------------------------------------------------------

def run_spd_trc(errors, rng):
    """tRCmin bytes forced above / below / equal to tRASmin + tRPmin."""
    n_up = n_same = 0
    for path in sorted(glob.glob(os.path.join("test", "spd_data", "*.csv"))):
        base = load_spd_csv(path)
        ddr3 = base[2] == 0x0b
        hi, lo, fine = (21, 23, 38) if ddr3 else (27, 29, 120)
        for trial in range(60):
            img = list(base)
            word = ((img[hi] >> 4) << 8) | img[lo]
            word = max(0, min(0xfff, word + rng.choice([0, 0, 1, -1, 2, -2, rng.randint(-60, 60), rng.randint(0, 400)])))
            img[hi] = (img[hi] & 0x0f) | ((word >> 8) << 4)
            img[lo] = word & 0xff
            img[fine] = rng.choice([img[fine], 0, rng.randrange(256)])
            sheet, trc = spd_sheet(img, "1x" if not ddr3 else None)
            for f in [50e6, 100e6, 125e6, 133.33e6, 200e6, 250e6, 1e9/3, 400e6] + [rng.uniform(20e6, 450e6) for _ in range(12)]:
                m = SDRAMModule.from_spd_data(img, f)
                ts = m.timing_settings
                Stats.n += 1
                tag = (os.path.basename(path), "trc", trial, f)
                check_settings(tag, ts, sheet, f, 4, errors, compare_ref=False, trc_extra=trc)
                fsheet = {k: (v[0], float(v[1])) for k, v in sheet.items()}
                check_ref_only(tag, m, fsheet, f, errors)
                old = ref_cycles(0, float(sheet["tRP"][1]) + float(sheet["tRAS"][1]), f, 4)
                new = max(old, ref_cycles(0, float(trc), f, 4))
                if ts.tRC != new:
                    if abs(ts.tRC - new) > 1 or not (on_clock_edge(trc, f, 4) or on_clock_edge(sheet["tRP"][1] + sheet["tRAS"][1], f, 4)):
                        errors.append((tag, "tRC", ts.tRC, "expected", new))
                if ts.tRC < old - (1 if on_clock_edge(sheet["tRP"][1] + sheet["tRAS"][1], f, 4) else 0):
                    errors.append((tag, "tRC shorter than before", ts.tRC, old))
                n_up += ts.tRC > old
                n_same += ts.tRC == old
    print("tRC fuzz: raised by the explicit tRCmin in %d instances, unchanged in %d" % (n_up, n_same))
    assert n_up > 100 and n_same > 100

def run_explicit_class(errors, rng):
    for trc in [None, 48.75, (None, 52.5), (30, None), (40, 48.0), 10.0, (3, 10.0)]:
        class Explicit(M.DDR3Module):
            nbanks = 8; nrows = 16384; ncols = 1024
            technology_timings = M._TechnologyTimings(tREFI=64e6/8192, tWTR=(4, 7.5), tCCD=(4, None), tRRD=(4, 7.5), tZQCS=(64, 80))
            speedgrade_timings = {"default": M._SpeedgradeTimings(tRP=13.75, tRCD=13.75, tWR=15, tRFC=(None, 260), tFAW=(None, 40), tRAS=35, tRC=trc)}
        sheet = {n: ds(Explicit, None, n, None) for n in MIN_NAMES + ["tREFI"]}
        if trc is None:
            eck, ens = 0, 0
        elif isinstance(trc, tuple):
            eck, ens = trc[0] or 0, trc[1] or 0
        else:
            eck, ens = 0, trc
        for rate in ["1:1", "1:2", "1:4", "1:8"]:
            d = int(rate.split(":")[1])
            for f in frequencies(rng, [13.75, 35, 48.75, ens]):
                m = Explicit(f, rate)
                Stats.n += 1
                tag = ("Explicit", trc, rate, f)
                check_settings(tag, m.timing_settings, sheet, f, d, errors, compare_ref=False, trc_extra=ens)
                if m.timing_settings.tRC*d < eck:
                    errors.append((tag, "explicit tRC ck not covered"))
                old = ref_cycles(0, 13.75 + 35, f, d)
                new = max(old, ref_cycles(eck, ens, f, d))
                if m.timing_settings.tRC != new:
                    errors.append((tag, "tRC", m.timing_settings.tRC, "expected", new))
                for n in MIN_NAMES:
                    if getattr(m.timing_settings, n) != ref_cycles(*sheet[n], f, d):
                        errors.append((tag, n, "changed"))

if __name__ == "__main__":
    rng = random.Random(0xC163)
    errors = []
    # library modules: no explicit tRC -> bit-identical to the unmodified conversion
    run_library(errors, rng, quick="--quick" in sys.argv)
    if Stats.ref_diffs:
        errors.append(("library: %d values differ from the unmodified code" % Stats.ref_diffs,))
    # SPD images (+ perturbed ones): tRC must cover both tRAS + tRP and the tRCmin bytes
    run_spd(errors, rng, check_trc=True, nfuzz=80)
    run_spd_trc(errors, rng)
    run_explicit_class(errors, rng)
    # differences to the reference are only accepted on exact clock edges (classified above),
    # and only in the SPD part where the script decodes in fractions and the tree in floats
    finish(errors, max_ref_diffs=None)
