#!/usr/bin/env python3
# Check for change 1 (LiteDRAMDMAReader: rdata.ready tied high, returned data is written to the
# output FIFO unconditionally since a slot has been reserved for it).
#
# Drives the real LiteDRAMDMAReader (native and AXI port, fifo_depth 1..16, buffered or not) with
# random address streams, random command back-pressure, random memory latencies / response gaps and
# consumers that stall for a long time while many reads are in flight, and checks:
#   - exactly one word per accepted address, in order, with the right data and `last` flag;
#   - commands follow the accepted addresses 1:1 (same address / last, same cycle);
#   - (commands issued - words delivered) never exceeds fifo_depth;
#   - the memory never sees rdata.ready low while it returns a word (nothing can be lost, the
#     native controller does not honour rdata.ready);
#   - source.valid / data / last are stable while the consumer stalls;
#   - CSR mode still generates base..base+length-1 with `last` on the final word.
# Run from the root of the tree with the change applied. Exits 0 on success.

import os
import sys
import random
from collections import deque

sys.path.insert(0, os.getcwd())

from migen import *

from litedram.common import LiteDRAMNativePort
from litedram.frontend.axi import LiteDRAMAXIPort
from litedram.frontend.dma import LiteDRAMDMAReader

AW = 16
DW = 32


def _patch_csr_naming():
    # The CSR classes find their name by decoding the bytecode of the caller, which does not work with
    # every Python version (CSRs can then not be created at all). Only for this check: use `dis`.
    import dis
    import inspect
    from litex.soc.interconnect import csr

    def get_obj_var_name(override=None, default=None):
        if override:
            return override
        frame = inspect.currentframe().f_back
        ourclass = frame.f_locals["self"].__class__
        while "self" in frame.f_locals and isinstance(frame.f_locals["self"], ourclass):
            frame = frame.f_back
        for ins in dis.get_instructions(frame.f_code):
            if ins.offset > frame.f_lasti and ins.opname in ("STORE_ATTR", "STORE_FAST", "STORE_NAME", "STORE_DEREF"):
                name = ins.argval
                if len(name) > 2 and name[0] == "_" and name[1] != "_":
                    name = name[1:]
                return name
        return default
    csr.get_obj_var_name = get_obj_var_name


_patch_csr_naming()


def memf(addr):
    return ((addr * 2654435761) ^ 0x5bd1e995 ^ (addr << 7)) & (2**DW - 1)


PROFILES = {
    # p_sink, p_cmd_ready, (lat_min, lat_max), p_rvalid, p_src_ready, initial_stall(depth multiples), p_long_stall
    "fast":        dict(p_sink=1.0, p_cmd=1.0, lat=(1, 1),  p_rv=1.0, p_src=1.0, init_stall=0, p_long=0.0),
    "stall_first": dict(p_sink=1.0, p_cmd=1.0, lat=(1, 1),  p_rv=1.0, p_src=0.5, init_stall=6, p_long=0.05),
    "slow_cons":   dict(p_sink=1.0, p_cmd=1.0, lat=(1, 3),  p_rv=1.0, p_src=0.1, init_stall=0, p_long=0.05),
    "random":      dict(p_sink=0.7, p_cmd=0.6, lat=(1, 12), p_rv=0.7, p_src=0.6, init_stall=0, p_long=0.02),
    "long_lat":    dict(p_sink=0.9, p_cmd=0.9, lat=(20, 40), p_rv=0.9, p_src=0.8, init_stall=2, p_long=0.03),
    "slow_mem":    dict(p_sink=1.0, p_cmd=0.2, lat=(1, 5),  p_rv=0.2, p_src=1.0, init_stall=0, p_long=0.0),
}


class Failure(Exception):
    pass


def run_reader(seed, port_kind, fifo_depth, buffered, n, prof, limit=None, dma_kwargs=None):
    prng = random.Random(seed)
    limit = fifo_depth if limit is None else limit
    if port_kind == "native":
        port = LiteDRAMNativePort("read", AW, DW)
        cmd, rdata = port.cmd, port.rdata
    else:
        port = LiteDRAMAXIPort(DW, AW)
        cmd, rdata = port.ar, port.r
    dma = LiteDRAMDMAReader(port, fifo_depth=fifo_depth, fifo_buffered=buffered, **(dma_kwargs or {}))
    sink, source = dma.sink, dma.source

    addrs = [(prng.randrange(2**AW) if prng.random() < 0.8 else prng.randrange(4),
              int(prng.random() < 0.15)) for _ in range(n)]

    st = dict(exp=[], got=[], issued=0, errors=[], max_out=0, done=False, cycle=0)

    def driver():
        for a, l in addrs:
            while prng.random() >= prof["p_sink"]:
                yield sink.valid.eq(0)
                yield
            yield sink.valid.eq(1)
            yield sink.address.eq(a)
            yield sink.last.eq(l)
            yield
            stuck = 0
            while not (yield sink.ready):
                yield
                stuck += 1
                if stuck > 20000:
                    st["errors"].append("deadlock: sink never ready")
                    return
        yield sink.valid.eq(0)
        yield
        timeout = 0
        while len(st["got"]) < n:
            yield
            timeout += 1
            if timeout > 200*n + 5000:
                st["errors"].append("timeout: %d/%d words" % (len(st["got"]), n))
                break
        for _ in range(3*fifo_depth + 60):  # nothing more should come out
            yield
        st["done"] = True

    @passive
    def memory():
        queue = deque()
        presenting = None
        cycle = 0
        yield cmd.ready.eq(0)
        while True:
            if (yield cmd.valid) and (yield cmd.ready):
                lat = prng.randint(*prof["lat"])
                queue.append((cycle + lat, (yield cmd.addr)))
                if port_kind == "native":
                    if (yield cmd.we):
                        st["errors"].append("read command with we=1")
                else:
                    if (yield cmd.size) != 2:
                        st["errors"].append("ar.size wrong")
            if presenting is not None:
                rdy = (yield rdata.ready)
                if port_kind == "native":
                    # The native controller does not wait: a word returned while not ready is lost.
                    if not rdy:
                        st["errors"].append("cycle %d: rdata.valid while rdata.ready=0 (word lost)" % cycle)
                    presenting = None
                elif rdy:
                    presenting = None
            yield cmd.ready.eq(int(prng.random() < prof["p_cmd"]))
            if presenting is None:
                if queue and queue[0][0] <= cycle and prng.random() < prof["p_rv"]:
                    presenting = queue.popleft()
                    yield rdata.valid.eq(1)
                    yield rdata.data.eq(memf(presenting[1]))
                else:
                    yield rdata.valid.eq(0)
                    yield rdata.data.eq(prng.randrange(2**DW))
            yield
            cycle += 1

    @passive
    def consumer():
        yield source.ready.eq(0)
        for _ in range(prof["init_stall"]*fifo_depth + (20 if prof["init_stall"] else 0)):
            yield
        while True:
            if prng.random() < prof["p_long"]:
                yield source.ready.eq(0)
                for _ in range(prng.randint(fifo_depth, 4*fifo_depth + 30)):
                    yield
            yield source.ready.eq(int(prng.random() < prof["p_src"]))
            yield

    @passive
    def monitor():
        held = None
        while True:
            s_hs = (yield sink.valid) and (yield sink.ready)
            c_hs = (yield cmd.valid) and (yield cmd.ready)
            if bool(s_hs) != bool(c_hs):
                st["errors"].append("cycle %d: sink handshake %d != cmd handshake %d" % (st["cycle"], s_hs, c_hs))
            if s_hs:
                st["exp"].append(((yield sink.address), (yield sink.last)))
            if c_hs:
                st["issued"] += 1
                if (yield cmd.addr) != (yield sink.address) or (yield cmd.last) != (yield sink.last):
                    st["errors"].append("cycle %d: cmd addr/last differs from sink" % st["cycle"])
            v, r = (yield source.valid), (yield source.ready)
            cur = ((yield source.data), (yield source.last))
            if held is not None and (not v or cur != held):
                st["errors"].append("cycle %d: source not stable during stall" % st["cycle"])
            held = cur if (v and not r) else None
            if v and r:
                st["got"].append(cur)
            out = st["issued"] - len(st["got"])
            st["max_out"] = max(st["max_out"], out)
            if out > limit:
                st["errors"].append("cycle %d: %d reads outstanding > %d" % (st["cycle"], out, limit))
            if out < 0:
                st["errors"].append("cycle %d: more words out than commands" % st["cycle"])
            yield
            st["cycle"] += 1

    run_simulation(dma, [driver(), memory(), consumer(), monitor()])

    errors = list(st["errors"])
    if st["exp"] != addrs:
        errors.append("accepted address stream differs from driven one")
    want = [(memf(a), l) for a, l in st["exp"]]
    if st["got"] != want:
        k = next((i for i, (g, w) in enumerate(zip(st["got"], want)) if g != w), min(len(st["got"]), len(want)))
        errors.append("source stream mismatch at word %d (got %d words, expected %d)" % (k, len(st["got"]), len(want)))
    if errors:
        raise Failure("seed=%d %s depth=%d buffered=%s: %s" % (seed, port_kind, fifo_depth, buffered, errors[:4]))
    return st


def run_reader_csr(seed, port_kind, fifo_depth, base_w, length_w, dma_kwargs=None):
    prng = random.Random(seed)
    if port_kind == "native":
        port = LiteDRAMNativePort("read", AW, DW)
        cmd, rdata = port.cmd, port.rdata
    else:
        port = LiteDRAMAXIPort(DW, AW)
        cmd, rdata = port.ar, port.r
    # (not assigned directly to a name captured by the generators below: migen's name tracer does
    # not cope with closure cells on recent Python versions)
    m = LiteDRAMDMAReader(port, fifo_depth=fifo_depth, with_csr=True, **(dma_kwargs or {}))
    dma = m
    got, errors = [], []

    def main():
        yield dma._base.storage.eq(base_w*4)
        yield dma._length.storage.eq(length_w*4)
        yield
        yield dma._enable.storage.eq(1)
        t = 0
        while not (yield dma._done.status) or len(got) < length_w:
            yield
            t += 1
            if t > 100*length_w + 2000:
                errors.append("csr timeout")
                break
        for _ in range(50):
            yield

    @passive
    def memory():
        queue = deque()
        presenting = None
        cycle = 0
        while True:
            if (yield cmd.valid) and (yield cmd.ready):
                queue.append((cycle + prng.randint(1, 6), (yield cmd.addr)))
            if presenting is not None:
                if port_kind == "native" or (yield rdata.ready):
                    if not (yield rdata.ready):
                        errors.append("word lost")
                    presenting = None
            yield cmd.ready.eq(int(prng.random() < 0.7))
            if presenting is None:
                if queue and queue[0][0] <= cycle and prng.random() < 0.8:
                    presenting = queue.popleft()
                    yield rdata.valid.eq(1)
                    yield rdata.data.eq(memf(presenting[1]))
                else:
                    yield rdata.valid.eq(0)
            yield
            cycle += 1

    @passive
    def consumer():
        while True:
            yield dma.source.ready.eq(int(prng.random() < 0.4))
            yield
            if (yield dma.source.valid) and (yield dma.source.ready):
                got.append(((yield dma.source.data), (yield dma.source.last)))

    run_simulation(dma, [main(), memory(), consumer()])
    want = [(memf(base_w + i), int(i == length_w - 1)) for i in range(length_w)]
    if got != want:
        errors.append("csr stream mismatch (%d words, expected %d)" % (len(got), len(want)))
    if errors:
        raise Failure("csr seed=%d %s depth=%d: %s" % (seed, port_kind, fifo_depth, errors[:4]))


def main():
    runs = 0
    full = 0
    for port_kind in ["native", "axi"]:
        for fifo_depth in [1, 2, 3, 4, 8, 16]:
            for buffered in [False, True]:
                for pi, (pname, prof) in enumerate(sorted(PROFILES.items())):
                    for s in range(1):
                        seed = (fifo_depth*1000 + pi*10 + s)*4 + 2*int(buffered) + int(port_kind == "axi")
                        n = 40 + 5*fifo_depth
                        st = run_reader(seed, port_kind, fifo_depth, buffered, n, prof)
                        runs += 1
                        if st["max_out"] == fifo_depth:
                            full += 1
    # The interesting case (all reserved slots in use while the consumer stalls) must have been hit.
    assert full > runs//4, (full, runs)
    for port_kind in ["native", "axi"]:
        for fifo_depth in [1, 2, 5, 16]:
            for (b, l) in [(0, 1), (3, 2), (100, 37)]:
                run_reader_csr(fifo_depth*7 + b, port_kind, fifo_depth, b, l)
                runs += 1
    print("keep_1: %d simulations OK (%d reached fifo_depth outstanding reads)" % (runs, full))


if __name__ == "__main__":
    try:
        main()
    except Failure as e:
        print("FAIL:", e)
        sys.exit(1)
    sys.exit(0)
