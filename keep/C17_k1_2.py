import os, sys, re, itertools, random, hashlib, inspect
sys.path.insert(0, os.getcwd())

from litedram import init as dut_init
from litedram import common as dut_common
from litedram.common import PhySettings, GeomSettings, TimingSettings
from litedram import modules as dram_modules

FAILS = []
def check(cond, msg):
    if not cond:
        FAILS.append(msg)
        if len(FAILS) <= 20:
            print("FAIL:", msg)

def finish(name, stats):
    print(name, "stats:", stats)
    if FAILS:
        print("%d check(s) failed" % len(FAILS))
        sys.exit(1)
    print("OK")
    sys.exit(0)

def mk_phy(memtype, nphases, cl, cwl, phytype="TESTPHY", databits=16, electrical=None,
           rdimm=None, clam_shell=False, **extra):
    ps = PhySettings(
        phytype       = phytype,
        memtype       = memtype,
        databits      = databits,
        dfi_databits  = 2*databits if memtype != "SDR" else databits,
        nphases       = nphases,
        rdphase       = 0,
        wrphase       = nphases - 1,
        cl            = cl,
        cwl           = cwl,
        read_latency  = 6,
        write_latency = 2,
        cmd_latency   = 0,
        is_clam_shell = clam_shell,
        **extra)
    for k, v in (electrical or {}).items():
        setattr(ps, k, v)
    if rdimm is not None:
        ps.set_rdimm(**rdimm)
    return ps

def mk_timing(tWTR, tWR=None, fine_refresh_mode=None):
    ts = TimingSettings(tRP=2, tRCD=2, tWR=tWR if tWR is not None else 2, tWTR=tWTR, tREFI=700, tRFC=30,
                        tFAW=6, tCCD=1, tRRD=2, tRC=8, tRAS=6, tZQCS=16)
    ts.fine_refresh_mode = fine_refresh_mode
    return ts

def run(fn, *a, **kw):
    """-> ("ok", value) or ("exc", None): any exception means 'configuration rejected'."""
    try:
        return ("ok", fn(*a, **kw))
    except Exception as e:
        return ("exc", type(e).__name__)

# -- header parsing ---------------------------------------------------------------------------------

def parse_py_header(txt):
    env = {}
    exec(txt, env)
    return env["init_sequence"], env

def parse_c_header(txt):
    """Returns the list of (comment, a, ba, cmd_value, delay) executed by init_sequence()."""
    defs = {}
    for m in re.finditer(r"^#define (DFII_\w+)\s+(0x[0-9a-fA-F]+)$", txt, re.M):
        defs[m.group(1)] = int(m.group(2), 16)
    body = txt[txt.index("static inline void init_sequence(void)"):]
    seq = []
    cur = None
    for line in body.split("\n"):
        line = line.strip()
        m = re.match(r"/\* (.*) \*/$", line)
        if m:
            cur = {"comment": m.group(1), "delay": 0}
            seq.append(cur)
            continue
        m = re.match(r"sdram_dfii_pi0_address_write\((0x[0-9a-f]+|0)\);", line)
        if m: cur["a"] = int(m.group(1), 16); continue
        m = re.match(r"sdram_dfii_pi0_baddress_write\((\d+)\);", line)
        if m: cur["ba"] = int(m.group(1)); continue
        m = re.match(r"(?:command_p0|sdram_dfii_control_write)\((.*)\);", line)
        if m:
            v = 0
            for t in m.group(1).split("|"):
                v |= defs[t]
            cur["cmd"] = v
            cur["is_control"] = line.startswith("sdram_dfii_control_write")
            continue
        m = re.match(r"cdelay\((\d+)\);", line)
        if m: cur["delay"] = int(m.group(1)); continue
    return seq, defs

PY_CONSTS = dict(dfii_control_sel=1, dfii_control_cke=2, dfii_control_odt=4, dfii_control_reset_n=8,
                 dfii_command_cs=1, dfii_command_we=2, dfii_command_cas=4, dfii_command_ras=8,
                 dfii_command_wrdata=0x10, dfii_command_rddata=0x20)

def cmd_value(cmd):
    v = 0
    for t in cmd.split("|"):
        v |= PY_CONSTS[t.lower()]
    return v

def check_c_py_same(tag, ps, ts, gs):
    """C and Python renderings describe the same sequence, and both describe init_sequence."""
    c  = dut_init.get_sdram_phy_c_header(ps, ts, gs)
    py = dut_init.get_sdram_phy_py_header(ps, ts)
    seq, mr = dut_init.get_sdram_phy_init_sequence(ps, ts)
    cseq, _ = parse_c_header(c)
    pseq, env = parse_py_header(py)
    check(len(cseq) == len(pseq), "%s: C has %d steps, Python %d" % (tag, len(cseq), len(pseq)))
    for cs, p in zip(cseq, pseq):
        check((cs["comment"], cs["a"], cs["ba"], cs["cmd"], cs["delay"]) == (p[0], p[1], p[2], p[3], p[4]),
              "%s: C step %r != Python step %r" % (tag, cs, p))
    if not ps.is_rdimm:
        check(len(pseq) == len(seq), "%s: py header length" % tag)
        for p, s in zip(pseq, seq):
            check((p[0], p[1], p[2], p[3], p[4]) == (s[0], s[1], s[2], cmd_value(s[3]), s[4]),
                  "%s: Python step %r != sequence step %r" % (tag, p, s))
    return c, py, seq, mr
# keep_2: default CL/CWL tables moved to a module-level table (data rate in MT/s), lookup rewritten.

import math
from collections import OrderedDict
from litedram.phy.model import get_sdram_phy_settings, sdram_module_nphases
cmds = dut_init.cmds

# -- verbatim copy of the unmodified function (reference) ---------------------------------------------
def ref_get_default_cl_cwl(memtype, tck):
    f_to_cl_cwl = OrderedDict()
    if memtype == "SDR":
        f_to_cl_cwl[100e6] = (2, None)
        f_to_cl_cwl[133e6] = (3, None)
    elif memtype == "DDR2":
        f_to_cl_cwl[400e6]  = (3, 2)
        f_to_cl_cwl[533e6]  = (4, 3)
        f_to_cl_cwl[677e6]  = (5, 4)
        f_to_cl_cwl[800e6]  = (6, 5)
        f_to_cl_cwl[1066e6] = (7, 5)
    elif memtype == "DDR3":
        f_to_cl_cwl[800e6]  = ( 6, 5)
        f_to_cl_cwl[1066e6] = ( 7, 6)
        f_to_cl_cwl[1333e6] = (10, 7)
        f_to_cl_cwl[1600e6] = (11, 8)
        f_to_cl_cwl[1866e6] = (13, 9)
    elif memtype == "DDR4":
        f_to_cl_cwl[1333e6] = (9,   9)
        f_to_cl_cwl[1600e6] = (11,  9)
        f_to_cl_cwl[1866e6] = (13, 10)
        f_to_cl_cwl[2133e6] = (15, 11)
        f_to_cl_cwl[2400e6] = (16, 12)
        f_to_cl_cwl[2666e6] = (18, 14)
    else:
        raise ValueError
    for f, (cl, cwl) in f_to_cl_cwl.items():
        m = 2 if "DDR" in memtype else 1
        if tck >= m/f:
            return cl, cwl
    raise ValueError

RATES = {
    "SDR":  [100e6, 133e6],
    "DDR2": [400e6, 533e6, 677e6, 800e6, 1066e6],
    "DDR3": [800e6, 1066e6, 1333e6, 1600e6, 1866e6],
    "DDR4": [1333e6, 1600e6, 1866e6, 2133e6, 2400e6, 2666e6],
}
MEMTYPES = ["SDR", "DDR", "LPDDR", "DDR2", "DDR3", "RPC", "DDR4", "LPDDR4", "LPDDR5", "bogus"]

stats = dict(lookups=0, rejected=0, phy=0, init=0, headers=0)

def same_lookup(memtype, tck):
    r = run(ref_get_default_cl_cwl, memtype, tck)
    n = run(dut_common.get_default_cl_cwl, memtype, tck)
    check(n == r, "get_default_cl_cwl(%r, %r): %r != %r" % (memtype, tck, n, r))
    stats["lookups"] += 1
    if r[0] == "exc":
        check(r[1] == n[1] == "ValueError", "exception type %r / %r" % (r, n))
        stats["rejected"] += 1
    else:
        rc  = run(dut_common.get_default_cl,  memtype, tck)
        rcw = run(dut_common.get_default_cwl, memtype, tck)
        check(rc == ("ok", r[1][0]) and rcw == ("ok", r[1][1]), "get_default_cl/cwl(%r, %r)" % (memtype, tck))
    return n

# A) boundaries (exact period of every speed bin, one ulp around it, and the way the PHYs compute tck), random periods
rng = random.Random(17)
for memtype in MEMTYPES:
    m = 2 if "DDR" in memtype else 1
    pts = []
    for f in RATES.get(memtype, [100e6, 800e6, 1600e6, 3200e6]):
        for mm in (1, 2):
            t = mm/f
            pts += [t, math.nextafter(t, 0), math.nextafter(t, 1), t*(1 - 1e-12), t*(1 + 1e-12), t*0.999, t*1.001]
        # what the PHYs do: tck = 2/(2*nphases*sys_clk_freq)  /  1/sys_clk_freq, with sys_clk_freq = f/(2*nphases)
        for nphases in (1, 2, 4, 8):
            pts += [2/(2*nphases*(f/(2*nphases))), 2/(2*nphases*(f/2/nphases)), 1/(f/1), 1/(f/2)]
    pts += [0.0, 1e-12, 1e-10, 1e-9, 1.0, float("inf")]
    pts += [10**rng.uniform(-10, -7) for _ in range(4000)]
    for t in pts:
        same_lookup(memtype, t)

# B) sys_clk sweeps through the real PHY-settings code path + generated init sequence decodes to the same latencies
def decode(memtype, seq):
    mrs = {}
    for comment, a, ba, cmd, delay in seq:
        if cmd == cmds["MODE_REGISTER"]:
            mrs[ba] = a                      # last write wins
    mr0 = mrs[0]
    if memtype == "SDR":
        return dict(bl=1 << (mr0 & 7), cl=(mr0 >> 4) & 7, cwl=None)
    if memtype == "DDR2":
        return dict(bl=1 << (mr0 & 7), cl=(mr0 >> 4) & 7, cwl=None, wr=((mr0 >> 9) & 7) + 1)
    if memtype == "DDR3":
        code = (((mr0 >> 4) & 7) << 1) | ((mr0 >> 2) & 1)
        cl = {0b0010: 5, 0b0100: 6, 0b0110: 7, 0b1000: 8, 0b1010: 9, 0b1100: 10, 0b1110: 11, 0b0001: 12, 0b0011: 13, 0b0101: 14}[code]
        return dict(bl={0: 8, 2: 4}[mr0 & 3], cl=cl, cwl=((mrs[2] >> 3) & 7) + 5)
    if memtype == "DDR4":
        code = (((mr0 >> 12) & 1) << 4) | (((mr0 >> 4) & 7) << 1) | ((mr0 >> 2) & 1)
        cl = {0: 9, 1: 10, 2: 11, 3: 12, 4: 13, 5: 14, 6: 15, 7: 16, 8: 18, 9: 20, 10: 22, 11: 24, 12: 23, 13: 17, 14: 19, 15: 21,
              16: 25, 17: 26, 18: 27, 19: 28, 20: 29, 21: 30, 22: 31, 23: 32}[code]
        cwl = {0: 9, 1: 10, 2: 11, 3: 12, 4: 14, 5: 16, 6: 18, 7: 20}[(mrs[2] >> 3) & 7]
        return dict(bl={0: 8, 2: 4}[mr0 & 3], cl=cl, cwl=cwl)
    raise AssertionError

freqs = sorted(set([f*1e6 for f in range(10, 401, 1)] + [33.333e6, 66.666e6, 83.333e6, 133.333e6, 166.666e6, 333.333e6]
                   + [r/(2*n) for rs in RATES.values() for r in rs for n in (1, 2, 4)]))
for memtype in ("DDR2", "DDR3", "DDR4"):
    nphases = sdram_module_nphases[memtype]
    for f in freqs:
        tck = 2/(2*nphases*f)
        r = run(ref_get_default_cl_cwl, memtype, tck)
        n = run(get_sdram_phy_settings, memtype, 16, f)
        if r[0] == "exc":
            check(n[0] == "exc", "%s @%g: reference rejects the clock, new code accepts" % (memtype, f))
            continue
        check(n[0] == "ok" and (n[1].cl, n[1].cwl) == r[1], "%s @%g: phy settings %r != %r" % (memtype, f, n, r))
        stats["phy"] += 1
        ps = n[1]
        ps.cmd_latency = 0
        for tWTR in (1, 2, 3, 4):
            ts = mk_timing(tWTR, fine_refresh_mode="1x" if memtype == "DDR4" else None)
            s = run(dut_init.get_sdram_phy_init_sequence, ps, ts)
            if s[0] == "exc":
                # write recovery value without an encoding (e.g. 9): independent of this change, CL/CWL must still be encodable
                ts = mk_timing({"DDR3": 2, "DDR4": 3}.get(memtype, 2), fine_refresh_mode=ts.fine_refresh_mode)
                s = run(dut_init.get_sdram_phy_init_sequence, ps, ts)
            check(s[0] == "ok", "%s @%g: init sequence not generated for default CL/CWL %r" % (memtype, f, r[1]))
            if s[0] != "ok":
                continue
            d = decode(memtype, s[1][0])
            check(d["cl"] == r[1][0], "%s @%g: MR CL %r != %r" % (memtype, f, d["cl"], r[1][0]))
            if d["cwl"] is not None:
                check(d["cwl"] == r[1][1], "%s @%g: MR CWL %r != %r" % (memtype, f, d["cwl"], r[1][1]))
            check(d["bl"] == dut_common.burst_lengths[memtype], "%s: BL" % memtype)
            stats["init"] += 1
        if int(f) % 25000000 == 0:
            check_c_py_same("%s@%g" % (memtype, f), ps, mk_timing(2, fine_refresh_mode="1x" if memtype == "DDR4" else None), GeomSettings(3, 14, 10))
            stats["headers"] += 1

# SDR (gensdrphy: cl = get_default_cl("SDR", 1/sys_clk_freq))
for f in freqs:
    tck = 1/f
    r = run(ref_get_default_cl_cwl, "SDR", tck)
    n = run(dut_common.get_default_cl, "SDR", tck)
    if r[0] == "exc":
        check(n[0] == "exc", "SDR @%g" % f)
        continue
    check(n == ("ok", r[1][0]), "SDR @%g: %r != %r" % (f, n, r))
    ps = mk_phy("SDR", 1, n[1], None)
    s = run(dut_init.get_sdram_phy_init_sequence, ps, mk_timing(2))
    check(s[0] == "ok", "SDR init")
    d = decode("SDR", s[1][0])
    check(d["cl"] == r[1][0] == ps.cl == ps.cwl and d["bl"] == 1, "SDR @%g: MR %r" % (f, d))
    stats["init"] += 1

# C) the table itself: every entry reachable, identical content, sorted
for memtype, rates in RATES.items():
    m = 2 if "DDR" in memtype else 1
    got = [same_lookup(memtype, m/f)[1] for f in rates]
    check(len(set(got)) == len(rates), "%s: entries shadowed: %r" % (memtype, got))

finish("keep_2", stats)
