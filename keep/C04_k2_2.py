# ---- common harness: full LiteDRAMController under random traffic, REF/PRE/ZQC times observed on DFI ----
import os, sys, random
sys.path.insert(0, os.getcwd())

from migen import *

from litedram.common import PhySettings, GeomSettings, TimingSettings
from litedram.core.controller import ControllerSettings, LiteDRAMController

TRAFFIC_MODES = ["idle", "saturate", "single-bank", "all-write", "all-read", "random", "bursty", "row-thrash"]


def build_controller(cfg, refresh_cls=None):
    nphases = cfg["nphases"]
    memtype = "SDR" if nphases == 1 else cfg.get("memtype", "DDR3")
    phy = PhySettings(
        phytype       = "SIM",
        memtype       = memtype,
        databits      = 8,
        dfi_databits  = 16,
        nphases       = nphases,
        rdphase       = cfg.get("rdphase", 0),
        wrphase       = cfg.get("wrphase", nphases - 1),
        cl            = cfg.get("cl", 3),
        cwl           = cfg.get("cwl", 2),
        read_latency  = cfg.get("read_latency", 5),
        write_latency = 1,
        nranks        = cfg.get("nranks", 1),
    )
    geom   = GeomSettings(bankbits=cfg["bankbits"], rowbits=11, colbits=10)  # addressbits must hold A10
    timing = TimingSettings(
        tRP   = cfg["tRP"],  tRCD = cfg["tRCD"], tWR  = cfg["tWR"], tWTR = cfg["tWTR"],
        tREFI = cfg["tREFI"], tRFC = cfg["tRFC"], tFAW = cfg["tFAW"], tCCD = cfg["tCCD"],
        tRRD  = cfg["tRRD"], tRC  = cfg["tRC"],  tRAS = cfg["tRAS"], tZQCS = cfg["tZQCS"])
    kwargs = dict(
        cmd_buffer_depth    = cfg.get("cmd_buffer_depth", 4),
        cmd_buffer_buffered = cfg.get("cmd_buffer_buffered", False),
        read_time           = cfg.get("read_time", 32),
        write_time          = cfg.get("write_time", 16),
        refresh_postponing  = cfg["postponing"],
        refresh_zqcs_freq   = 1,
        with_auto_precharge = cfg.get("with_auto_precharge", True),
    )
    if refresh_cls is not None:
        kwargs["refresh_cls"] = refresh_cls
    settings = ControllerSettings(**kwargs)
    # int(clk_freq/zqcs_freq) == zqcs period in cycles
    return LiteDRAMController(phy, geom, timing, clk_freq=cfg.get("zqcs_period", 1000),
        controller_settings=settings)


def random_cfg(prng, **force):
    tRP  = prng.randint(1, 4)
    tRAS = prng.randint(2, 8)
    cfg = dict(
        nphases    = prng.choice([1, 2, 4]),
        bankbits   = prng.choice([1, 2, 3]),
        tRP        = tRP,
        tRCD       = prng.randint(1, 4),
        tWR        = prng.randint(1, 4),
        tWTR       = prng.randint(1, 4),
        tREFI      = prng.randint(100, 180),
        tRFC       = prng.randint(2, 14),
        tFAW       = prng.choice([None, 6, 10]),
        tCCD       = prng.choice([1, 2]),
        tRRD       = prng.choice([None, 2, 3]),
        tRAS       = tRAS,
        tRC        = tRAS + tRP,
        tZQCS      = prng.choice([None, prng.randint(4, 20)]),
        zqcs_period= prng.randint(500, 1500),
        postponing = prng.randint(1, 8),
        read_latency = prng.randint(3, 7),
        read_time  = prng.choice([0, 8, 32]),
        write_time = prng.choice([0, 8, 16]),
        with_auto_precharge = prng.choice([True, False]),
        cmd_buffer_depth    = prng.choice([4, 8]),
        cmd_buffer_buffered = prng.choice([False, True]),
        nranks     = 1,
    )
    if cfg["nphases"] > 1:
        cfg["rdphase"] = prng.randrange(cfg["nphases"])
        cfg["wrphase"] = prng.randrange(cfg["nphases"])
    cfg.update(force)
    return cfg


def traffic_generator(ctrl, bank, mode, prng, stats):
    """Drives one bank port (the crossbar side of a bank machine)."""
    port     = getattr(ctrl.interface, "bank" + str(bank))
    nbanks   = ctrl.interface.nbanks
    colshift = len(port.addr) - 11  # rowbits = 11 (only 16 rows are used)
    yield "passive"  # the simulation ends with the DFI monitor
    if mode == "idle" or (mode == "single-bank" and bank != nbanks - 1):
        return
    burst_left = 0
    row = prng.randrange(16)
    while True:
        # idle gap
        if mode == "random":
            gap = prng.choice([0, 0, 0, 1, 2, 5, 20])
        elif mode == "bursty":
            if burst_left == 0:
                gap = prng.randint(50, 400)
                burst_left = prng.randint(5, 60)
            else:
                gap = 0
            burst_left -= 1
        else:
            gap = 0
        for _ in range(gap):
            yield
        if mode == "all-write":
            we = 1
        elif mode == "all-read":
            we = 0
        else:
            we = prng.randrange(2)
        if mode == "row-thrash":
            row = (row + 1) % 16
        elif prng.random() < 0.15:
            row = prng.randrange(16)
        addr = (row << colshift) | prng.randrange(1 << colshift)
        yield port.we.eq(we)
        yield port.addr.eq(addr)
        yield port.valid.eq(1)
        yield
        while not (yield port.ready):
            yield
        stats["accepted"] += 1
        yield port.valid.eq(0)


def dfi_monitor(ctrl, ncycles, events):
    """Records every command seen on the DFI: (cycle, phase, kind, bank, a10)."""
    phases = ctrl.dfi.phases
    for cycle in range(ncycles):
        for p, phase in enumerate(phases):
            cas = 1 - (yield phase.cas_n)
            ras = 1 - (yield phase.ras_n)
            we  = 1 - (yield phase.we_n)
            if not (cas or ras or we):
                continue
            if (yield phase.cs_n) == (1 << len(phase.cs_n)) - 1:
                continue
            kind = {
                (1, 1, 0): "REF", (0, 1, 1): "PRE", (0, 1, 0): "ACT",
                (1, 0, 1): "WR",  (1, 0, 0): "RD",  (0, 0, 1): "ZQC", (1, 1, 1): "MRS",
            }[(cas, ras, we)]
            a10  = ((yield phase.address) >> 10) & 1
            events.append((cycle, p, kind, (yield phase.bank), a10))
        yield


def run_controller(cfg, mode, ncycles, seed, refresh_cls=None, extra=None):
    prng   = random.Random(seed)
    ctrl   = build_controller(cfg, refresh_cls)
    events = []
    stats  = {"accepted": 0}
    gens   = [dfi_monitor(ctrl, ncycles, events)]
    if extra is not None:
        gens += extra(ctrl, ncycles, stats)  # additional (passive) monitors
    for b in range(ctrl.interface.nbanks):
        gens.append(traffic_generator(ctrl, b, mode, random.Random(prng.random()), stats))
    run_simulation(ctrl, gens)
    return events, stats


def service_latency_bound(cfg):
    """Generous fixed bound on (refresh requested) -> (first Precharge All on the DFI)."""
    wl   = -(-cfg.get("cwl", 2)//cfg["nphases"])
    twtp = wl + cfg["tWR"] + (cfg["tCCD"] or 0)
    twtr = cfg["tWTR"] + wl + (cfg["tCCD"] or 0)
    per_bank = twtp + cfg["tRP"] + (cfg["tRC"] or 0) + cfg["tRCD"] + (cfg["tRAS"] or 0) + 8
    nbanks   = 2**cfg["bankbits"]
    faw      = cfg["tFAW"] or 0
    rrd      = cfg["tRRD"] or 0
    return 16 + 2*per_bank + nbanks*(2 + rrd + faw) + twtr + cfg["read_latency"]


def check_refresh_property(cfg, mode, events, stats, ncycles, trefi_datasheet=None, verbose=True):
    """Checks property C04 on a DFI trace. Returns the list of REF times."""
    N     = cfg["postponing"]
    tREFI = trefi_datasheet if trefi_datasheet is not None else cfg["tREFI"]
    L     = service_latency_bound(cfg)
    seq   = cfg["tRP"] + cfg["tRFC"] + 1
    tag   = "cfg=%r mode=%s" % (cfg, mode)

    refs = [e[0] for e in events if e[2] == "REF"]
    zqcs = [e[0] for e in events if e[2] == "ZQC"]

    # 1) never starved: k-th refresh (1-based) no later than (k + N) tREFI + service latency, and at all times
    #    the number of refreshes owed stays <= N (+ the ones of the sequence being executed).
    for k, t in enumerate(refs, start=1):
        bound = (k + N)*tREFI + L + N*seq
        assert t <= bound, "REF #%d at %d > bound %d; %s" % (k, t, bound, tag)
    # refreshes that must have been issued by the end of the run
    horizon = ncycles - (L + N*seq) - 2
    must    = (horizon // (N*tREFI))*N if horizon > 0 else 0
    assert len(refs) >= must, "only %d REF in %d cycles, expected >= %d; %s" % (len(refs), ncycles, must, tag)
    # owed refreshes at any time
    issued = 0
    ri = 0
    worst_owed = 0
    for t in range(0, ncycles):
        while ri < len(refs) and refs[ri] <= t:
            ri += 1
        owed = t//tREFI - ri
        worst_owed = max(worst_owed, owed)
    assert worst_owed <= N + (L + N*seq)//tREFI + 1, "owed=%d; %s" % (worst_owed, tag)
    # tighter per sequence: the j-th sequence of N refreshes starts within L of j*N*tREFI
    lat = []
    for j in range(len(refs)//N):
        first = refs[j*N]
        lat.append(first - (j + 1)*N*tREFI)
    if lat:
        assert max(lat) <= L + cfg["tRP"] + 4, "service latency %d > %d; %s" % (max(lat), L, tag)

    # 2) each REF / ZQC is preceded by a Precharge All tRP earlier with nothing in between and is followed
    #    by a quiet tRFC / tZQCS.
    cmds = [e for e in events]
    for i, e in enumerate(cmds):
        if e[2] in ("REF", "ZQC"):
            assert i > 0, tag
            prev = cmds[i - 1]
            assert prev[2] == "PRE" and prev[4] == 1, "%s at %d preceded by %r; %s" % (e[2], e[0], prev, tag)
            assert e[0] - prev[0] >= cfg["tRP"], "%s at %d only %d after PREA; %s" % (e[2], e[0], e[0] - prev[0], tag)
            quiet = cfg["tRFC"] if e[2] == "REF" else cfg["tZQCS"]
            if i + 1 < len(cmds):
                assert cmds[i + 1][0] - e[0] >= quiet, "%s at %d followed by %r; %s" % (e[2], e[0], cmds[i + 1], tag)
            assert e[1] == 0, "refresher command on phase %d; %s" % (e[1], tag)
    # no row is left open across a refresh: first command of a bank after a REF must be an ACT (or PRE).
    opened = {}
    for e in cmds:
        if e[2] in ("REF", "ZQC"):
            opened = {}
        elif e[2] == "PRE" and e[4]:
            opened = {}
        elif e[2] == "ACT":
            opened[e[3]] = True
        elif e[2] == "PRE":
            opened[e[3]] = False
        elif e[2] in ("RD", "WR"):
            assert opened.get(e[3], False), "%s to closed bank %d at %d; %s" % (e[2], e[3], e[0], tag)
            if e[4]:
                opened[e[3]] = False

    # 3) traffic resumes after every refresh sequence when the ports keep asking.
    if mode in ("saturate", "single-bank", "all-write", "all-read", "row-thrash"):
        for j in range(len(refs)//N - 1):
            a, b = refs[j*N + N - 1], refs[(j + 1)*N]
            n = sum(1 for e in cmds if e[2] in ("RD", "WR") and a < e[0] < b)
            assert n > 0, "no traffic between refresh sequences %d and %d; %s" % (j, j + 1, tag)
        assert stats["accepted"] > ncycles//40, "traffic starved (%d accepted); %s" % (stats["accepted"], tag)

    # 4) ZQCS recurs at its period (served with the next refresh sequence).
    if cfg["tZQCS"] is not None:
        P   = cfg["zqcs_period"]
        gap = P + N*tREFI + 2*(L + N*seq) + cfg["tZQCS"] + cfg["tRP"]
        prev = 0
        for t in zqcs + [ncycles]:
            assert t - prev <= gap, "ZQCS gap %d > %d (at %d); %s" % (t - prev, gap, t, tag)
            prev = t
    else:
        assert not zqcs, tag
    if verbose:
        print("  ok  N=%d tREFI=%d nph=%d banks=%d mode=%-11s REF=%3d ZQC=%2d accepted=%5d max_lat=%s owed<=%d" % (
            N, cfg["tREFI"], cfg["nphases"], 2**cfg["bankbits"], mode, len(refs), len(zqcs), stats["accepted"],
            max(lat) if lat else None, worst_owed))
    return refs
# ---- end of common harness ----

# ---- keep_2: RefreshPostponer folded into a single postponing*tREFI timer ------------------------------
from multiprocessing import Pool

from litex.soc.interconnect import stream
from litedram.core.multiplexer import cmd_request_rw_layout
from litedram.core import refresher as R


# Reference: the Refresher exactly as it was before the change (timer + postponer), built on the
# (unchanged) sequencer / executers of the tree.
class RefTimer(Module):
    def __init__(self, trefi):
        self.wait  = Signal()
        self.done  = Signal()
        self.count = Signal(bits_for(trefi))
        done  = Signal()
        count = Signal(bits_for(trefi), reset=trefi-1)
        self.sync += If(self.wait & ~self.done, count.eq(count - 1)).Else(count.eq(count.reset))
        self.comb += [done.eq(count == 0), self.done.eq(done), self.count.eq(count)]


class RefPostponer(Module):
    def __init__(self, postponing=1):
        self.req_i = Signal()
        self.req_o = Signal()
        count = Signal(bits_for(postponing), reset=postponing-1)
        self.sync += [
            self.req_o.eq(0),
            If(self.req_i,
                count.eq(count - 1),
                If(count == 0,
                    count.eq(count.reset),
                    self.req_o.eq(1)
                )
            )
        ]


class RefRefresher(Module):
    def __init__(self, settings, clk_freq, zqcs_freq=1e0, postponing=1):
        assert postponing <= 8
        abits  = settings.geom.addressbits
        babits = settings.geom.bankbits + log2_int(settings.phy.nranks)
        self.cmd = cmd = stream.Endpoint(cmd_request_rw_layout(a=abits, ba=babits))
        wants_refresh = Signal()
        wants_zqcs    = Signal()
        timer = RefTimer(settings.timing.tREFI)
        self.submodules.timer = timer
        self.comb += timer.wait.eq(~timer.done)
        postponer = RefPostponer(postponing)
        self.submodules.postponer = postponer
        self.comb += postponer.req_i.eq(self.timer.done)
        self.comb += wants_refresh.eq(postponer.req_o)
        self.wants_refresh = wants_refresh
        sequencer = R.RefreshSequencer(cmd, settings.timing.tRP, settings.timing.tRFC, postponing)
        self.submodules.sequencer = sequencer
        if settings.timing.tZQCS is not None:
            zqcs_timer = RefTimer(int(clk_freq/zqcs_freq))
            self.submodules.zqcs_timer = zqcs_timer
            zqcs_executer = R.ZQCSExecuter(cmd, settings.timing.tRP, settings.timing.tZQCS)
            self.submodules.zqs_executer = zqcs_executer
            self.comb += zqcs_timer.wait.eq(~zqcs_executer.done)
            self.sync += [
                If(zqcs_executer.start, wants_zqcs.eq(0)),
                If(zqcs_timer.done,     wants_zqcs.eq(1)),
            ]
        self.submodules.fsm = fsm = FSM()
        fsm.act("IDLE",
            If(settings.with_refresh,
                If(wants_refresh,
                    NextState("WAIT-BANK-MACHINES")
                )
            )
        )
        fsm.act("WAIT-BANK-MACHINES",
            cmd.valid.eq(1),
            If(cmd.ready,
                sequencer.start.eq(1),
                NextState("DO-REFRESH")
            )
        )
        if settings.timing.tZQCS is None:
            fsm.act("DO-REFRESH",
                cmd.valid.eq(1),
                If(sequencer.done,
                    cmd.valid.eq(0),
                    cmd.last.eq(1),
                    NextState("IDLE")
                )
            )
        else:
            fsm.act("DO-REFRESH",
                cmd.valid.eq(1),
                If(sequencer.done,
                    If(wants_zqcs,
                        zqcs_executer.start.eq(1),
                        NextState("DO-ZQCS")
                    ).Else(
                        cmd.valid.eq(0),
                        cmd.last.eq(1),
                        NextState("IDLE")
                    )
                )
            )
            fsm.act("DO-ZQCS",
                cmd.valid.eq(1),
                If(zqcs_executer.done,
                    cmd.valid.eq(0),
                    cmd.last.eq(1),
                    NextState("IDLE")
                )
            )


class Obj: pass


def refresher_settings(tREFI, tRP, tRFC, tZQCS):
    s = Obj()
    s.with_refresh = True
    s.timing = Obj()
    s.timing.tREFI, s.timing.tRP, s.timing.tRFC, s.timing.tZQCS = tREFI, tRP, tRFC, tZQCS
    s.geom = Obj(); s.geom.addressbits = 14; s.geom.bankbits = 3
    s.phy  = Obj(); s.phy.nranks = 1
    return s


class Pair(Module):
    def __init__(self, tREFI, tRP, tRFC, tZQCS, zqcs_period, postponing):
        s = refresher_settings(tREFI, tRP, tRFC, tZQCS)
        self.submodules.new = R.Refresher(s, clk_freq=zqcs_period, zqcs_freq=1, postponing=postponing)
        self.submodules.ref = RefRefresher(s, clk_freq=zqcs_period, zqcs_freq=1, postponing=postponing)
        assert not hasattr(self.new, "postponer"), "change not applied?"


def lockstep_job(args):
    """New and reference refresher side by side with the same cmd.ready stimulus: every output equal, every cycle."""
    seed, tREFI, tRP, tRFC, tZQCS, zqcs_period, postponing, style, ncycles = args
    prng = random.Random(seed)
    dut  = Pair(tREFI, tRP, tRFC, tZQCS, zqcs_period, postponing)
    fields = ["valid", "last", "a", "ba", "cas", "ras", "we", "is_cmd", "is_read", "is_write"]
    out = {"n_valid": 0, "n_ref": 0}

    def gen():
        granted = False
        delay   = 0
        for cycle in range(ncycles):
            vals_new = []
            vals_ref = []
            for f in fields:
                vals_new.append((yield getattr(dut.new.cmd, f)))
                vals_ref.append((yield getattr(dut.ref.cmd, f)))
            assert vals_new == vals_ref, "cycle %d: new %r != ref %r (%r)" % (cycle, vals_new, vals_ref, args)
            valid, last = vals_new[0], vals_new[1]
            out["n_valid"] += valid
            out["n_ref"]   += vals_new[4] & vals_new[5] & (1 - vals_new[6])
            # the multiplexer: grants after a delay and keeps the bus until `last`; other styles: arbitrary ready.
            if style == "mux":
                if valid and not granted:
                    if delay == 0:
                        granted = True
                    else:
                        delay -= 1
                if last or not valid:
                    if granted or not valid:
                        granted = False
                        delay = prng.choice([0, 1, 2, 5, 17, 40, prng.randrange(3*tREFI)])
                ready = int(granted)
            elif style == "always":
                ready = 1
            else:
                ready = int(prng.random() < 0.3)
            yield dut.new.cmd.ready.eq(ready)
            yield dut.ref.cmd.ready.eq(ready)
            yield
    run_simulation(dut, gen())
    assert out["n_ref"] > 0, args
    return "  lockstep ok  tREFI=%3d tRP=%d tRFC=%2d tZQCS=%-4s P=%4d N=%d ready=%-6s %5d cycles, %3d REF" % (
        tREFI, tRP, tRFC, tZQCS, zqcs_period, postponing, style, ncycles, out["n_ref"])


def controller_job(args):
    """Whole controller under traffic: property C04 holds and the DFI trace is the same as with the old refresher."""
    cfg, mode, seed = args
    n = 3*cfg["postponing"]*cfg["tREFI"] + 300
    ev_new, st_new = run_controller(cfg, mode, n, seed)
    line = check_refresh_property(cfg, mode, ev_new, st_new, n, verbose=False)
    ev_ref, st_ref = run_controller(cfg, mode, n, seed, refresh_cls=RefRefresher)
    assert ev_new == ev_ref, "DFI traces differ: %r %s" % (cfg, mode)
    assert st_new == st_ref
    return "  controller ok  N=%d tREFI=%d nph=%d banks=%d zqcs=%s mode=%-11s REF=%d cmds=%d accepted=%d (same trace as before)" % (
        cfg["postponing"], cfg["tREFI"], cfg["nphases"], 2**cfg["bankbits"], cfg["tZQCS"], mode, len(line),
        len(ev_new), st_new["accepted"])


def main():
    prng = random.Random(2024)
    jobs = []
    # every postponing value, with and without ZQCS, three kinds of grant behaviour
    for postponing in range(1, 9):
        for style in ["mux", "always", "random"]:
            tREFI = prng.randint(100, 140)
            tZQCS = prng.choice([None, prng.randint(3, 12)])
            P     = prng.randint(300, 900)
            ncyc  = min(2600, (2 if postponing > 4 else 3)*postponing*tREFI + 150)
            jobs.append((prng.random(), tREFI, prng.randint(1, 4), prng.randint(2, 12), tZQCS, P, postponing, style, ncyc))
    cjobs = []
    for i, (postponing, mode) in enumerate([(1, "saturate"), (2, "all-write"), (3, "random"), (4, "single-bank"),
                                            (6, "all-read"), (8, "row-thrash")]):
        cfg = random_cfg(prng, postponing=postponing, bankbits=prng.choice([1, 2]))
        if i % 2:
            cfg["tZQCS"] = 6
        cjobs.append((cfg, mode, i))
    with Pool(4) as pool:
        r1 = pool.imap(lockstep_job, jobs)
        r2 = pool.imap(controller_job, cjobs)
        for line in r1:
            print(line, flush=True)
        for line in r2:
            print(line, flush=True)
    print("keep_2: PASS")


if __name__ == "__main__":
    main()
