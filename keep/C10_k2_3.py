#!/usr/bin/env python3
# Check for change 3: LiteDRAMNative2Wishbone latches the raw native address and derives the Wishbone
# address combinatorially (constant shift for byte addressing + constant base offset, selected at
# elaboration time) instead of latching the translated address.
#
# 1. Lock-step equivalence: the REAL (modified) bridge and an embedded copy of the original bridge get
#    exactly the same random stimulus (native cmd / wdata, Wishbone ack / dat_r); every output is
#    compared on every cycle.  Word and byte addressing, data widths 8..128, several base addresses,
#    native address widths 8..34, Wishbone address widths narrower / wider than 32 bits.
# 2. Functional: random native reads / writes through the REAL bridge into a Wishbone slave memory with
#    random ack latency: every native command yields exactly one acknowledged Wishbone access at the
#    expected (translated) address, reads return the bytes last written, writes update exactly the
#    selected bytes; the Wishbone master never changes a request before its ack.
# 3. Elaboration: the module still converts to Verilog.

import os
import sys
import random

sys.path.insert(0, os.getcwd())

from migen import *
from migen.fhdl import verilog
from litex.gen import *
from litex.gen.sim import run_simulation
from litex.soc.interconnect import wishbone

from litedram.common import LiteDRAMNativePort
from litedram.frontend.wishbone import LiteDRAMNative2Wishbone


class RefNative2Wishbone(LiteXModule):
    """Embedded copy of the ORIGINAL implementation."""
    def __init__(self, port, wishbone, base_address=0x00000000):
        port_data_width = len(port.wdata.data)
        adr = Signal(32)
        self.fsm = fsm = FSM(reset_state="CMD")
        fsm.act("CMD",
            If(port.cmd.valid,
                port.cmd.ready.eq(1),
                If(wishbone.addressing == "byte",
                    NextValue(adr, port.cmd.addr*int(port_data_width//8) + base_address),
                ).Else(
                    NextValue(adr, port.cmd.addr + base_address//int(port_data_width//8)),
                ),
                If(port.cmd.we,
                    NextState("WRITE")
                ).Else(
                    NextState("READ")
                )
            )
        )
        fsm.act("WRITE",
            If(port.wdata.valid,
                wishbone.stb.eq(1),
                wishbone.cyc.eq(1),
                wishbone.we.eq(1),
                wishbone.adr.eq(adr),
                wishbone.sel.eq(port.wdata.we),
                wishbone.dat_w.eq(port.wdata.data),
                If(wishbone.ack,
                    port.wdata.ready.eq(1),
                    NextState("CMD")
                )
            )
        )
        fsm.act("READ",
            wishbone.stb.eq(1),
            wishbone.cyc.eq(1),
            wishbone.adr.eq(adr),
            wishbone.sel.eq(2**len(wishbone.sel) - 1),
            If(wishbone.ack,
                port.rdata.valid.eq(1),
                port.rdata.data.eq(wishbone.dat_r),
                NextState("CMD"),
            )
        )


def make_wb(dw, wb_adr_width, addressing):
    wb = wishbone.Interface(data_width=dw, adr_width=wb_adr_width, addressing="word")
    # Build the interface with the exact adr width we want and the requested addressing mode.
    wb.addressing = addressing
    return wb


def lockstep(dw, aw, wb_adr_width, addressing, base, seed, cycles):
    prng = random.Random(seed)
    tag  = "lockstep dw=%d aw=%d wb_adr=%d %s base=0x%x" % (dw, aw, wb_adr_width, addressing, base)
    ports = [LiteDRAMNativePort("both", address_width=aw, data_width=dw) for _ in range(2)]
    wbs   = [make_wb(dw, wb_adr_width, addressing) for _ in range(2)]
    dut   = Module()
    dut.submodules.new = LiteDRAMNative2Wishbone(ports[0], wbs[0], base_address=base)
    dut.submodules.ref = RefNative2Wishbone(ports[1], wbs[1], base_address=base)
    errors = []
    stats  = {"acc": 0}

    def outputs(i):
        p, w = ports[i], wbs[i]
        return [("cmd.ready", p.cmd.ready), ("wdata.ready", p.wdata.ready), ("rdata.valid", p.rdata.valid),
                ("rdata.data", p.rdata.data), ("cyc", w.cyc), ("stb", w.stb), ("we", w.we), ("adr", w.adr),
                ("sel", w.sel), ("dat_w", w.dat_w)]

    def gen():
        cmd_valid = 0
        for cycle in range(cycles):
            for (name, sa), (_, sb) in zip(outputs(0), outputs(1)):
                va, vb = (yield sa), (yield sb)
                if va != vb:
                    errors.append("%s: cycle %d %s new=%x ref=%x" % (tag, cycle, name, va, vb))
            if errors:
                return
            if (yield wbs[0].stb) and (yield wbs[0].ack):
                stats["acc"] += 1
            accepted = cmd_valid and (yield ports[0].cmd.ready)
            if not cmd_valid or accepted:
                cmd_valid = int(prng.random() < 0.8)
                cmd_we    = prng.getrandbits(1)
                cmd_addr  = prng.choice([prng.getrandbits(aw), prng.getrandbits(aw), 2**aw - 1, 0,
                                         prng.getrandbits(min(aw, 6))])
                for p in ports:
                    yield p.cmd.valid.eq(cmd_valid)
                    yield p.cmd.we.eq(cmd_we)
                    yield p.cmd.addr.eq(cmd_addr)
            v = (int(prng.random() < 0.6), prng.getrandbits(dw), prng.getrandbits(dw//8),
                 int(prng.random() < 0.5), prng.getrandbits(dw))
            for p, w in zip(ports, wbs):
                yield p.wdata.valid.eq(v[0])
                yield p.wdata.data.eq(v[1])
                yield p.wdata.we.eq(v[2])
                yield p.rdata.ready.eq(1)
                yield w.ack.eq(v[3])
                yield w.dat_r.eq(v[4])
            yield

    run_simulation(dut, [gen()])
    if stats["acc"] < cycles//20:
        errors.append("%s: too few accesses (%d)" % (tag, stats["acc"]))
    return errors, stats["acc"]


def functional(dw, aw, addressing, base, seed, n_cmds):
    prng   = random.Random(seed)
    tag    = "functional dw=%d aw=%d %s base=0x%x seed=%d" % (dw, aw, addressing, base, seed)
    nbytes = dw//8
    port   = LiteDRAMNativePort("both", address_width=aw, data_width=dw)
    wb     = wishbone.Interface(data_width=dw, adr_width=30 if addressing == "word" else 32 - (nbytes.bit_length() - 1),
                                addressing=addressing)
    dut    = Module()
    dut.submodules.bridge = LiteDRAMNative2Wishbone(port, wb, base_address=base)
    adr_mask = 2**len(wb.adr) - 1
    errors   = []
    mem      = {}   # byte address -> value (slave side)
    ref      = {}   # native address -> word (native side reference)
    cmds     = []   # (we, addr) accepted, in order, for the slave-side address check
    span     = 12
    win0     = prng.getrandbits(aw) & ~0xf if aw > 6 else 0
    state    = {"wb_acc": 0, "rd_checked": 0, "done": False}

    def wb_byte_address(adr):
        return adr if addressing == "byte" else adr*nbytes

    def expected_wb_adr(native_addr):
        if addressing == "byte":
            return ((native_addr*nbytes + base) & 0xffffffff) & adr_mask
        return ((native_addr + base//nbytes) & 0xffffffff) & adr_mask

    @passive
    def slave():
        ack = 0
        cur = None
        while True:
            req = None
            if (yield wb.cyc) and (yield wb.stb):
                req = ((yield wb.we), (yield wb.adr), (yield wb.sel), (yield wb.dat_w))
            elif (yield wb.cyc) != (yield wb.stb):
                pass # cyc without stb is legal, stb without cyc is ignored.
            if cur is not None and req != cur:
                errors.append("%s: Wishbone request changed/dropped before ack" % tag)
            cur = req
            if ack and req is not None:
                we, adr, sel, dat = req
                state["wb_acc"] += 1
                if not cmds:
                    errors.append("%s: Wishbone access without native command" % tag)
                else:
                    cwe, caddr = cmds.pop(0)
                    if cwe != we or expected_wb_adr(caddr) != adr:
                        errors.append("%s: Wishbone access we=%d adr=%x, expected we=%d adr=%x" % (
                            tag, we, adr, cwe, expected_wb_adr(caddr)))
                if we:
                    for b in range(nbytes):
                        if (sel >> b) & 1:
                            mem[wb_byte_address(adr) + b] = (dat >> (8*b)) & 0xff
                elif sel != 2**nbytes - 1:
                    errors.append("%s: read with partial sel" % tag)
                cur = None
            # Next cycle: only acknowledge a request that is already pending (it has to be held
            # stable until the ack, which is checked above), with a random latency.
            ack = int(cur is not None and prng.random() < 0.5)
            yield wb.ack.eq(ack)
            if ack and not cur[0]:
                a = wb_byte_address(cur[1])
                yield wb.dat_r.eq(sum(mem.get(a + b, 0) << (8*b) for b in range(nbytes)))
            else:
                yield wb.dat_r.eq(prng.getrandbits(dw))
            yield

    def master():
        yield port.rdata.ready.eq(1)
        for n in range(n_cmds):
            we   = prng.getrandbits(1)
            addr = (win0 + prng.randrange(span)) % 2**aw
            yield port.cmd.valid.eq(1)
            yield port.cmd.we.eq(we)
            yield port.cmd.addr.eq(addr)
            yield
            while not (yield port.cmd.ready):
                yield
            cmds.append((we, addr))
            yield port.cmd.valid.eq(0)
            if we:
                for _ in range(prng.choice([0, 0, 1, 3])):
                    yield
                    if (yield port.wdata.ready):
                        errors.append("%s: wdata.ready without valid" % tag)
                dat = prng.getrandbits(dw)
                sel = prng.choice([2**nbytes - 1, prng.getrandbits(nbytes)])
                yield port.wdata.valid.eq(1)
                yield port.wdata.data.eq(dat)
                yield port.wdata.we.eq(sel)
                yield
                t = 0
                while not (yield port.wdata.ready):
                    yield
                    t += 1
                    if t > 500:
                        errors.append("%s: write data never accepted" % tag)
                        return
                yield port.wdata.valid.eq(0)
                v = ref.get(addr, 0)
                for b in range(nbytes):
                    if (sel >> b) & 1:
                        v = (v & ~(0xff << (8*b))) | (dat & (0xff << (8*b)))
                ref[addr] = v
            else:
                t = 0
                yield
                while not (yield port.rdata.valid):
                    yield
                    t += 1
                    if t > 500:
                        errors.append("%s: read data never returned" % tag)
                        return
                got = (yield port.rdata.data)
                if got != ref.get(addr, 0):
                    errors.append("%s: cmd %d read %x got %x expected %x" % (tag, n, addr, got, ref.get(addr, 0)))
                state["rd_checked"] += 1
                # rdata.valid must be a single-cycle pulse per command.
            if prng.random() < 0.3:
                for _ in range(prng.randrange(1, 4)):
                    yield
                    if (yield port.rdata.valid) or (yield wb.cyc):
                        errors.append("%s: activity while idle" % tag)
        for _ in range(10):
            yield
        state["done"] = True

    run_simulation(dut, [master(), slave()])
    if not state["done"]:
        errors.append("%s: master did not finish" % tag)
    if cmds:
        errors.append("%s: %d native commands without Wishbone access" % (tag, len(cmds)))
    if state["wb_acc"] != n_cmds and not errors:
        errors.append("%s: %d Wishbone accesses for %d commands" % (tag, state["wb_acc"], n_cmds))
    # Slave memory == reference.
    for addr, v in ref.items():
        a = wb_byte_address(expected_wb_adr(addr))
        got = sum(mem.get(a + b, 0) << (8*b) for b in range(nbytes))
        if got != v:
            errors.append("%s: slave memory @%x = %x expected %x" % (tag, a, got, v))
    return errors, state["wb_acc"], state["rd_checked"]


def elaborate():
    errors = []
    for addressing in ["word", "byte"]:
        port = LiteDRAMNativePort("both", address_width=26, data_width=32)
        wb   = wishbone.Interface(data_width=32, adr_width=30, addressing=addressing)
        dut  = LiteDRAMNative2Wishbone(port, wb, base_address=0x40000000)
        v = str(verilog.convert(dut, ios=set(port.cmd.flatten() + port.wdata.flatten() + port.rdata.flatten()
                                             + wb.flatten())))
        if "module" not in v:
            errors.append("verilog conversion failed (%s)" % addressing)
    return errors


def main():
    long   = "--long" in sys.argv
    errors = elaborate()
    seed   = 0
    n_acc  = 0
    for addressing in ["word", "byte"]:
        for dw in [8, 16, 32, 64, 128]:
            for aw, wb_adr in [(26, 30), (8, 30), (32, 32), (34, 40), (30, 16)]:
                for base in [0x00000000, 0x40000000, 0x90001230, 0xfffffff0]:
                    seed += 1
                    if not long and seed % 3 != 0 and dw in (16, 128):
                        continue
                    errs, n = lockstep(dw, aw, wb_adr, addressing, base, seed, 3000 if long else 1000)
                    errors += errs
                    n_acc  += n
                    if errs:
                        print("\n".join(errs[:3]))
    print("lock-step: %d Wishbone accesses compared, errors=%d" % (n_acc, len(errors)))
    n_wb = n_rd = 0
    for addressing in ["word", "byte"]:
        for dw in [8, 32, 64, 128]:
            for aw in [6, 24, 30]:
                for base in [0x00000000, 0x40000000, 0x10000100]:
                    seed += 1
                    errs, a, r = functional(dw, aw, addressing, base, seed, 1000 if long else 250)
                    errors += errs
                    n_wb += a
                    n_rd += r
                    if errs:
                        print("\n".join(errs[:3]))
    print("functional: %d Wishbone accesses, %d reads checked, errors=%d" % (n_wb, n_rd, len(errors)))
    if errors:
        print("\n".join(errors[:20]))
        print("FAIL")
        sys.exit(1)
    print("OK")

if __name__ == "__main__":
    main()
