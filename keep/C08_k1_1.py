#!/usr/bin/env python3
# Check that a LiteDRAM user port crossing a clock domain delivers every command, write word and
# read word exactly once and in order (property C08), with the REAL LiteDRAMNativePortCDC /
# LiteDRAMCrossbar.get_port code of the tree in the current directory.
import os
import sys
import random

sys.path.insert(0, os.getcwd())

from migen import *
from migen.sim import run_simulation, passive

from litedram.common import LiteDRAMNativePort
from litedram.frontend.adapter import LiteDRAMNativePortCDC

AW = 12
DW = 32


class CDCDUT(Module):
    def __init__(self, mode="both", **cdc_kwargs):
        self.user   = LiteDRAMNativePort(mode, address_width=AW, data_width=DW, clock_domain="user")
        self.native = LiteDRAMNativePort(mode, address_width=AW, data_width=DW, clock_domain="native")
        self.submodules.cdc = LiteDRAMNativePortCDC(self.user, self.native, **cdc_kwargs)


def rdata_of(addr):
    return (addr * 0x9e3779b1 + 0x1234567) & (2**DW - 1)


def run_cdc(mode, clocks, seed, n_cmds=60, p_user=(0.7, 0.7, 0.7), p_native=(0.7, 0.7, 0.7),
            cdc_kwargs=None, timeout=40000):
    """One randomised run; returns nothing, raises AssertionError on any property violation."""
    prng = random.Random(seed)
    dut  = CDCDUT(mode, **(cdc_kwargs or {}))
    user, native = dut.user, dut.native

    we_choices = {"both": [0, 1], "write": [1], "read": [0]}[mode]
    cmds   = [(prng.choice(we_choices), prng.randrange(2**AW), prng.randrange(2), prng.randrange(2))
              for _ in range(n_cmds)]
    wdatas = [(prng.randrange(2**DW), prng.randrange(2**(DW//8))) for c in cmds if c[0]]
    n_reads = sum(1 for c in cmds if not c[0])

    sent_cmds, got_cmds   = [], []
    sent_wdata, got_wdata = [], []
    sent_rdata, got_rdata = [], []
    read_queue = []           # reads accepted on the native side, waiting for data
    done = {"cmd": False, "wdata": mode == "read", "rdata": mode == "write"}

    p_cmd_u, p_wdata_u, p_rdata_u = p_user
    p_cmd_n, p_wdata_n, p_rdata_n = p_native

    # user side ---------------------------------------------------------------------------------
    def user_cmd():
        for we, addr, first, last in cmds:
            while prng.random() > p_cmd_u:
                yield
            yield user.cmd.valid.eq(1)
            yield user.cmd.we.eq(we)
            yield user.cmd.addr.eq(addr)
            yield user.cmd.first.eq(first)
            yield user.cmd.last.eq(last)
            yield
            while not (yield user.cmd.ready):
                yield
            sent_cmds.append((we, addr, first, last))
            yield user.cmd.valid.eq(0)
            # scramble the payload while not valid: nothing may leak through
            yield user.cmd.addr.eq(prng.randrange(2**AW))
            yield user.cmd.we.eq(prng.randrange(2))
        done["cmd"] = True
        yield

    def user_wdata():
        for data, we in wdatas:
            while prng.random() > p_wdata_u:
                yield
            yield user.wdata.valid.eq(1)
            yield user.wdata.data.eq(data)
            yield user.wdata.we.eq(we)
            yield
            while not (yield user.wdata.ready):
                yield
            sent_wdata.append((data, we))
            yield user.wdata.valid.eq(0)
            yield user.wdata.data.eq(prng.randrange(2**DW))
        done["wdata"] = True
        yield

    def user_rdata():
        while len(got_rdata) < n_reads:
            if (yield user.rdata.valid) and (yield user.rdata.ready):
                got_rdata.append((yield user.rdata.data))
            yield user.rdata.ready.eq(int(prng.random() < p_rdata_u))
            yield
        done["rdata"] = True
        # keep listening for spurious extra words
        yield user.rdata.ready.eq(1)
        yield
        for _ in range(200):
            assert not (yield user.rdata.valid), "spurious extra read word"
            yield

    def user_timeout():
        def period(c):
            return c[0] if isinstance(c, tuple) else c
        ratio = max(1, -(-period(clocks["native"]) // period(clocks["user"])))
        for _ in range(timeout):
            # everything sent on one side AND received on the other side
            if (all(done.values()) and len(got_cmds) >= len(cmds) and len(got_wdata) >= len(wdatas)
                and len(got_rdata) >= n_reads):
                break
            yield
        else:
            raise AssertionError("timeout (deadlock / lost item): done=%r cmds %d/%d wdata %d/%d rdata %d/%d" % (
                done, len(got_cmds), len(cmds), len(got_wdata), len(wdatas), len(got_rdata), n_reads))
        # drain time, to catch duplicates showing up late
        for _ in range(100*ratio + 100):
            yield

    # native side -------------------------------------------------------------------------------
    @passive
    def native_cmd():
        while True:
            if (yield native.cmd.valid) and (yield native.cmd.ready):
                c = ((yield native.cmd.we), (yield native.cmd.addr),
                     (yield native.cmd.first), (yield native.cmd.last))
                got_cmds.append(c)
                if not c[0]:
                    read_queue.append(c[1])
            yield native.cmd.ready.eq(int(prng.random() < p_cmd_n))
            yield

    @passive
    def native_wdata():
        while True:
            if (yield native.wdata.valid) and (yield native.wdata.ready):
                got_wdata.append(((yield native.wdata.data), (yield native.wdata.we)))
            yield native.wdata.ready.eq(int(prng.random() < p_wdata_n))
            yield

    @passive
    def native_rdata():
        while True:
            while not read_queue or prng.random() > p_rdata_n:
                yield
            addr = read_queue.pop(0)
            yield native.rdata.valid.eq(1)
            yield native.rdata.data.eq(rdata_of(addr))
            yield
            while not (yield native.rdata.ready):
                yield
            sent_rdata.append(rdata_of(addr))
            yield native.rdata.valid.eq(0)
            yield native.rdata.data.eq(prng.randrange(2**DW))

    generators = {
        "user":   [user_cmd(), user_timeout()],
        "native": [native_cmd()],
    }
    if mode in ["write", "both"]:
        generators["user"].append(user_wdata())
        generators["native"].append(native_wdata())
    if mode in ["read", "both"]:
        generators["user"].append(user_rdata())
        generators["native"].append(native_rdata())

    run_simulation(dut, generators, clocks=clocks)

    ctx = "mode=%s clocks=%r seed=%d kwargs=%r" % (mode, clocks, seed, cdc_kwargs)
    assert sent_cmds == [tuple(c) for c in cmds], ctx
    assert got_cmds == sent_cmds, "commands lost/duplicated/reordered/corrupted: " + ctx
    if mode in ["write", "both"]:
        assert sent_wdata == wdatas, ctx
        assert got_wdata == sent_wdata, "write words lost/duplicated/reordered/corrupted: " + ctx
    else:
        assert not hasattr(dut.cdc, "wdata_cdc")
    if mode in ["read", "both"]:
        expected = [rdata_of(a) for we, a, _, _ in cmds if not we]
        assert sent_rdata == expected, ctx
        assert got_rdata == expected, "read words lost/duplicated/reordered/corrupted: " + ctx


CLOCK_SETS = [
    {"user": 10,      "native": 10},        # equal, in phase
    {"user": 10,      "native": (10, 5)},   # equal, opposite phase
    {"user": 10,      "native": (10, 1)},   # equal, nearly aligned
    {"user": (10, 9), "native": 10},
    {"user": 10,      "native": 7},         # native faster, drifting
    {"user": 7,       "native": 10},        # user faster, drifting
    {"user": 10,      "native": 11},        # slow drift
    {"user": 11,      "native": (10, 3)},
    {"user": 4,       "native": 33},        # much faster user
    {"user": 33,      "native": 4},         # much faster native
    {"user": 6,       "native": (16, 7)},
    {"user": (17, 2), "native": 6},
]

PRESSURE = [
    ((1.0, 1.0, 1.0), (1.0, 1.0, 1.0)),     # full speed on both sides
    ((0.7, 0.7, 0.7), (0.7, 0.7, 0.7)),
    ((1.0, 1.0, 0.2), (0.2, 0.2, 1.0)),     # sinks slow: FIFOs fill up
    ((0.2, 0.2, 1.0), (1.0, 1.0, 0.2)),     # sources slow: FIFOs run empty
    ((1.0, 0.3, 0.5), (0.5, 1.0, 0.3)),
]


def _run_cdc_task(task):
    mode, clocks, s, n_cmds, pu, pn, kw = task
    run_cdc(mode, clocks, s, n_cmds=n_cmds, p_user=pu, p_native=pn, cdc_kwargs=kw)
    return 1


def run_cdc_matrix(modes=("both", "write", "read"), kwargs_list=(None,), seeds=(1,), n_cmds=50,
                   clock_sets=CLOCK_SETS, pressure=PRESSURE):
    import multiprocessing
    tasks = []
    for mode in modes:
        for kw in kwargs_list:
            for ci, clocks in enumerate(clock_sets):
                for pi, (pu, pn) in enumerate(pressure):
                    for seed in seeds:
                        s = (("both", "write", "read").index(mode)*1000003 + ci*10007 + pi*101 + seed*7919) & 0xffffff
                        tasks.append((mode, clocks, s, n_cmds, pu, pn, kw))
    with multiprocessing.Pool(int(os.environ.get("KEEP_JOBS", "6"))) as pool:
        return sum(pool.map(_run_cdc_task, tasks, chunksize=1))   # re-raises the first failure


# Crossbar level ----------------------------------------------------------------------------------

XBAR_CLOCK_SETS = [
    {"sys": 10, "clk1": (7, 4),  "clk2": 12},
    {"sys": 10, "clk1": 10,      "clk2": (10, 5)},
    {"sys": 6,  "clk1": 9,       "clk2": (5, 2)},
    {"sys": 12, "clk1": 5,       "clk2": 13},
    {"sys": 10, "clk1": (11, 6), "clk2": 9},
]


def _run_crossbar_task(task):
    kw, clocks, modes, n_ops = task
    import test.test_crossbar as txb

    # The suite's stress test stops the simulation as soon as the masters have handed their last
    # item to the port: with a CDC in between this item may still sit in an async FIFO. Keep the
    # simulation alive for a fixed time instead, so that everything reaches the controller.
    def drain_generator(ticks):
        for _ in range(150 * n_ops):
            yield
    txb.timeout_generator = drain_generator

    tc  = txb.TestCrossbar()
    dut = txb.CrossbarDUT()
    ports = [dut.crossbar.get_port(mode=m, clock_domain=c, **(kw if c != "sys" else {}))
             for m, c in zip(modes, ["sys", "clk1", "clk2"])]
    produced, consumed, _ = tc.crossbar_stress_test(dut, ports, n_banks=4, n_ops=n_ops, clocks=clocks)
    assert len(produced) == 3
    for master in produced.keys():
        assert len(produced[master]) == n_ops
        assert consumed[master] == produced[master], "crossbar: master %d %r %r\n%r\n%r" % (
            master, clocks, kw, produced[master], consumed[master])
    return 1


def run_crossbar(get_port_kwargs_list=({},), n_ops=6):
    """End-to-end through LiteDRAMCrossbar.get_port(clock_domain=...) with the test-suite's
    controller stub: every master's operations reach the controller datapath once and in order."""
    import multiprocessing
    tasks = [(kw, clocks, modes, n_ops)
             for kw in get_port_kwargs_list
             for clocks in XBAR_CLOCK_SETS
             for modes in [("both", "both", "both"), ("both", "write", "read")]]
    with multiprocessing.Pool(int(os.environ.get("KEEP_JOBS", "6"))) as pool:
        return sum(pool.map(_run_crossbar_task, tasks, chunksize=1))


def watchdog(seconds=3*3600):
    import signal
    signal.alarm(seconds)   # a deadlocked simulation must not hang the check forever


# keep_1: CDC FIFO depths selectable through get_port() and rounded up to a power of two >= 4.

def check_depth_rounding():
    from migen.genlib.fifo import AsyncFIFO as MigenAsyncFIFO

    def fifo_depths(module):
        depths = []
        def walk(m):
            if isinstance(m, MigenAsyncFIFO):
                depths.append(m.depth)
            for _, sm in m._submodules:
                walk(sm)
        walk(module)
        return depths

    for req in range(1, 70):
        exp = 4
        while exp < req:
            exp *= 2
        dut = CDCDUT("both", cmd_depth=req, wdata_depth=req, rdata_depth=req)
        assert (dut.cdc.cmd_depth, dut.cdc.wdata_depth, dut.cdc.rdata_depth) == (exp, exp, exp), req
        dut.finalize()
        d = fifo_depths(dut)
        assert d == [exp]*3, (req, d)   # never less buffering than requested, always legal for AsyncFIFO
    # defaults unchanged
    dut = CDCDUT("both")
    dut.finalize()
    assert sorted(fifo_depths(dut)) == [4, 16, 16]


if __name__ == "__main__":
    watchdog()
    check_depth_rounding()
    # default depths: full matrix
    n = run_cdc_matrix()
    # non default / non power of two depths: every clock pair, reduced pressure set
    kwargs_list = [
        dict(cmd_depth=1,  wdata_depth=1,  rdata_depth=1),
        dict(cmd_depth=5,  wdata_depth=3,  rdata_depth=7),
        dict(cmd_depth=6,  wdata_depth=12, rdata_depth=24),
        dict(cmd_depth=32, wdata_depth=4,  rdata_depth=64),
    ]
    n += run_cdc_matrix(modes=("both",), kwargs_list=kwargs_list, pressure=PRESSURE[1:4], n_cmds=40)
    n += run_cdc_matrix(modes=("write", "read"), kwargs_list=kwargs_list[1:2], pressure=PRESSURE[2:4],
                        clock_sets=CLOCK_SETS[4:10], n_cmds=40)
    m = run_crossbar([
        {},
        dict(cdc_cmd_depth=6, cdc_wdata_depth=12, cdc_rdata_depth=24),
        dict(cdc_cmd_depth=8, cdc_wdata_depth=32, cdc_rdata_depth=8),
    ])
    print("OK: %d CDC runs, %d crossbar runs" % (n, m))
