#!/usr/bin/env python3
# Check script for change 3 of C15 (ECC port: corrects any single / flags any double bit error).
# Run from the root of a litedram tree with keep_3.diff applied:  python keep_3.py [--fast]
#
#  0. NetSim (the FHDL netlist of the REAL litedram/litex modules compiled to straight-line Python; migen.sim
#     needs 2-3 s per clock for 64-bit lanes) is cross-checked against migen.sim.run_simulation.
#  1. change specific equivalence / lock-step checks against a verbatim copy of the unmodified code.
#  2. SECDED on the real ECCW -> stored word (+flips) -> ECCR chain: every single and every double flip of
#     every stored position, lane widths 8,16,...,64 (and padded / non byte aligned stored lanes).
#  3. the complete LiteDRAMNativePortECC in lock-step with a verbatim copy of the unmodified port under random
#     traffic (stalls, flips, enable, clear, flip CSR, partial byte enables).
#  4. the complete LiteDRAMNativePortECC against an independent model: data, counters, sticky flags, clear,
#     saturation, granularity errors.
import os, sys, random, itertools, functools, operator, collections.abc
sys.path.insert(0, os.getcwd())

CHANGE = 3
FAST   = "--fast" in sys.argv

from migen import *
from migen.fhdl.structure import _Operator, _Slice, _Assign, _Fragment
from migen.fhdl.tools import list_inputs, list_targets, group_by_targets

# Shims for this environment: CSR name extraction does not work on python 3.12 and the installed litex has
# no CSR.wr_stb alias (this is why the upstream end-to-end ECC tests cannot run here).
import litex.soc.interconnect.csr as _csr
_csr_cnt = itertools.count()
def _csr_name(override=None, default=None):
    return override or default or "csr%d" % next(_csr_cnt)
_csr.get_obj_var_name = _csr_name
if not hasattr(_csr.CSR, "wr_stb"):
    _csr.CSR.wr_stb = property(lambda self: self.re)

from litex.soc.interconnect.csr import *
from litex.soc.interconnect.stream import *
from litex.soc.cores.ecc import *

from litedram.common import LiteDRAMNativePort, wdata_description, rdata_description
from litedram.frontend import ecc as dut_ecc
from litedram.frontend.ecc import LiteDRAMNativePortECCW, LiteDRAMNativePortECCR, LiteDRAMNativePortECC

rng = random.Random(0xC15_0 + CHANGE)

def check(cond, *msg):
    if not cond:
        print("FAIL:", *msg)
        sys.exit(1)

# NetSim -------------------------------------------------------------------------------------------
# Same integer semantics as migen.sim.core.Evaluator (python ints, truncation on assignment, masked If
# conditions, comb targets start from their reset value). Comb groups are evaluated once in topological
# order (a combinational loop is refused).

class NetSim:
    def __init__(self, module):
        frag = module.get_fragment()
        assert not frag.specials
        assert set(frag.sync.keys()) <= {"sys"}
        self.index, self.sigs, self.v = {}, [], []
        self.ntmp = 0
        ns = {}
        exec(compile(self._comb_src(frag.comb),               "<netsim-comb>", "exec"), ns)
        exec(compile(self._sync_src(frag.sync.get("sys", [])), "<netsim-sync>", "exec"), ns)
        self._comb, self._sync = ns["comb"], ns["sync"]
        self.settle()

    def i(self, s):
        r = self.index.get(s)
        if r is None:
            assert isinstance(s, Signal) and not s.signed, s
            r = self.index[s] = len(self.sigs)
            self.sigs.append(s)
            self.v.append(s.reset.value)
        return r

    # Expressions.
    def ex(self, n):
        if isinstance(n, Constant):
            return "(%d)" % n.value
        if isinstance(n, Signal):
            return "v[%d]" % self.i(n)
        if isinstance(n, _Operator):
            o = [self.ex(x) for x in n.operands]
            if n.op == "m":
                return "(%s if %s else %s)" % (o[1], o[0], o[2])
            op = {"<<<": "<<", ">>>": ">>"}.get(n.op, n.op)
            if len(o) == 1:
                assert op in ("~", "-")
                return "(%s%s)" % (op, o[0])
            assert op in ("+", "-", "*", "&", "|", "^", "<<", ">>", "<", "<=", "==", "!=", ">", ">="), op
            return "(%s %s %s)" % (o[0], op, o[1])
        if isinstance(n, _Slice):
            return "((%s >> %d) & %d)" % (self.ex(n.value), n.start, 2**(n.stop - n.start) - 1)
        if isinstance(n, Cat):
            parts, sh = ["0"], 0
            for e in n.l:
                parts.append("((%s & %d) << %d)" % (self.ex(e), 2**len(e) - 1, sh))
                sh += len(e)
            return "(" + " | ".join(parts) + ")"
        if isinstance(n, Replicate):
            nb = len(n.v)
            return "((%s & %d) * %d)" % (self.ex(n.v), 2**nb - 1, sum(1 << (j*nb) for j in range(n.n)))
        raise NotImplementedError(repr(n))

    # Statements (targets live in local variables t<idx> until the group is done).
    def assign(self, node, val, out, ind):
        if isinstance(node, Signal):
            out.append("%st%d = %s & %d" % (ind, self.i(node), val, 2**node.nbits - 1))
        elif isinstance(node, _Slice):
            assert isinstance(node.value, Signal), node
            k = self.i(node.value)
            m = 2**(node.stop - node.start) - 1
            out.append("%st%d = (t%d & %d) | ((%s & %d) << %d)" % (ind, k, k,
                (2**node.value.nbits - 1) & ~(m << node.start), val, m, node.start))
        elif isinstance(node, Cat):
            self.ntmp += 1
            t = "c%d" % self.ntmp
            out.append("%s%s = %s" % (ind, t, val))
            sh = 0
            for e in node.l:
                self.assign(e, "(%s >> %d)" % (t, sh), out, ind)
                sh += len(e)
        else:
            raise NotImplementedError(repr(node))

    def stmts(self, sl, out, ind):
        n0 = len(out)
        for s in sl:
            if isinstance(s, _Assign):
                self.assign(s.l, self.ex(s.r), out, ind)
            elif isinstance(s, If):
                out.append("%sif %s & %d:" % (ind, self.ex(s.cond), 2**len(s.cond) - 1))
                self.stmts(s.t, out, ind + " ")
                if s.f:
                    out.append("%selse:" % ind)
                    self.stmts(s.f, out, ind + " ")
            elif isinstance(s, Case):
                self.ntmp += 1
                t = "c%d" % self.ntmp
                out.append("%s%s = %s & %d" % (ind, t, self.ex(s.test), 2**len(s.test) - 1))
                kw = "if"
                for key, body in s.cases.items():
                    if isinstance(key, Constant):
                        out.append("%s%s %s == %d:" % (ind, kw, t, key.value))
                        self.stmts(body, out, ind + " ")
                        kw = "elif"
                if "default" in s.cases:
                    out.append("%s%s:" % (ind, "else" if kw == "elif" else "if True"))
                    self.stmts(s.cases["default"], out, ind + " ")
            elif isinstance(s, collections.abc.Iterable):
                self.stmts(list(s), out, ind)
            else:
                raise NotImplementedError(repr(s))
        if len(out) == n0:
            out.append("%spass" % ind)

    def _comb_src(self, comb):
        groups = []
        for targets, sl in group_by_targets(comb):
            groups.append((set(self.i(t) for t in targets), set(self.i(t) for t in list_inputs(sl)), sl))
        producer = {}
        for g, (tg, rd, _) in enumerate(groups):
            for t in tg:
                assert t not in producer
                producer[t] = g
        self.comb_targets = set(producer)
        deps  = [set(producer[r] for r in rd if r in producer) for tg, rd, _ in groups]
        for g, d in enumerate(deps):
            assert g not in d, "combinational self loop"
        users = [[] for _ in groups]
        ndep  = [len(d) for d in deps]
        for g, d in enumerate(deps):
            for h in d:
                users[h].append(g)
        order, todo = [], [g for g in range(len(groups)) if ndep[g] == 0]
        while todo:
            g = todo.pop()
            order.append(g)
            for u in users[g]:
                ndep[u] -= 1
                if ndep[u] == 0:
                    todo.append(u)
        assert len(order) == len(groups), "combinational loop"
        out = ["def comb(v):", " pass"]
        for g in order:
            tg, rd, sl = groups[g]
            for t in sorted(tg):
                out.append(" t%d = %d" % (t, self.sigs[t].reset.value))
            self.stmts(sl, out, " ")
            for t in sorted(tg):
                out.append(" v[%d] = t%d" % (t, t))
        return "\n".join(out)

    def _sync_src(self, sync):
        tg = sorted(set(self.i(t) for t in list_targets(sync)))
        self.sync_targets = set(tg)
        out = ["def sync(v):"]
        for t in tg:
            out.append(" t%d = v[%d]" % (t, t))
        self.stmts(sync, out, " ")
        for t in tg:
            out.append(" v[%d] = t%d" % (t, t))
        return "\n".join(out)

    # Testbench interface: set inputs, settle, look at outputs, tick.
    def set(self, s, value):
        k = self.i(s)
        assert k not in self.comb_targets, "testbench drives a comb signal"
        self.v[k] = value & (2**s.nbits - 1)

    def get(self, s):
        return self.v[self.i(s)]

    def settle(self):
        self._comb(self.v)

    def tick(self):
        self._comb(self.v)
        self._sync(self.v)     # RHS read v[], targets are written back at the end only.
        self._comb(self.v)

# Verbatim copy of the unmodified litedram/frontend/ecc.py (reference) -----------------------------------

class RefECCW(Module):
    def __init__(self, data_width_from, data_width_to, burst_cycles=8):
        self.sink     = sink   = Endpoint(wdata_description(data_width_from))
        self.source   = source = Endpoint(wdata_description(data_width_to))
        self.we_error = Signal()

        # # #

        # Control (ECC encoding is combinatorial).
        self.comb += sink.connect(source, omit={"data", "we"}),

        # Data Path.
        for i in range(burst_cycles):
            ecc_width_from = data_width_from // burst_cycles
            ecc_width_to   = data_width_to   // burst_cycles

            # Encoder.
            self.submodules.encoder = encoder = ECCEncoder(ecc_width_from)
            self.comb += [
                # Input.
                encoder.i.eq(sink.data[i*ecc_width_from:(i+1)*ecc_width_from]),
                # Output.
                # We always have to store the full ECC-Word so byte enable is not supported within
                # an ECC word. If any of the byte enable is set, the full ECC-Word is written.
                If(sink.we[i*ecc_width_from//8:(i+1)*ecc_width_from//8] != 0,
                    source.we[i*ecc_width_to//8:(i+1)*ecc_width_to//8].eq(2**ecc_width_to//8-1)
                ),
                source.data[i*ecc_width_to:(i+1)*ecc_width_to].eq(encoder.o),
                # Byte enable granularity  error detection.
                If(sink.valid & (sink.we[i*ecc_width_from//8:(i+1)*ecc_width_from//8] != (2**(ecc_width_from//8)-1)),
                    self.we_error.eq(1)
                )
            ]


class RefECCR(Module):
    def __init__(self, data_width_from, data_width_to, burst_cycles=8):
        self.sink   = sink   = Endpoint(rdata_description(data_width_to))
        self.source = source = Endpoint(rdata_description(data_width_from))
        self.enable = Signal()
        self.sec    = Signal(burst_cycles)
        self.ded    = Signal(burst_cycles)

        # # #

        # Control Path (ECC decoding is combinatorial).
        self.comb +=  sink.connect(source, omit={"data"})

        # Data Path.
        for i in range(burst_cycles):
            ecc_width_to   = data_width_to   // burst_cycles
            ecc_width_from = data_width_from // burst_cycles

            # Decoder.
            self.submodules.decoder = decoder = ECCDecoder(ecc_width_from)
            self.comb += [
                # Enable.
                decoder.enable.eq(self.enable),
                # Input.
                decoder.i.eq(sink.data[i*ecc_width_to:(i+1)*ecc_width_to]),
                # Output.
                source.data[i*ecc_width_from:(i+1)*ecc_width_from].eq(decoder.o),
                # Bitflip/Error reporting.
                If(source.valid,
                    self.sec[i].eq(decoder.sec),
                    self.ded[i].eq(decoder.ded)
                )
            ]


class RefECC(Module, AutoCSR):
    def __init__(self, port_from, port_to, burst_cycles=8, with_error_injection=False, with_we_error_detection=False):
        _ , n = compute_m_n(port_from.data_width//burst_cycles)
        assert port_to.data_width >= (n + 1)*burst_cycles

        self.enable     = CSRStorage(reset=1)
        self.clear      = CSR()
        self.sec_errors = CSRStatus(32)
        self.ded_errors = CSRStatus(32)
        self.sec_detected = sec_detected = Signal()
        self.ded_detected = ded_detected = Signal()
        if with_error_injection:
            self.flip = CSRStorage(8)
        if with_we_error_detection:
            self.we_errors = CSRStatus(32)

        # # #

        # Cmd --------------------------------------------------------------------------------------
        self.comb += port_from.cmd.connect(port_to.cmd)

        # Wdata (ECC) encoding) --------------------------------------------------------------------
        ecc_wdata = RefECCW(port_from.data_width, port_to.data_width, burst_cycles)
        ecc_wdata = BufferizeEndpoints({"source": DIR_SOURCE})(ecc_wdata)
        self.submodules += ecc_wdata
        self.comb += [
            port_from.wdata.connect(ecc_wdata.sink),
            ecc_wdata.source.connect(port_to.wdata)
        ]
        if with_error_injection:
            self.comb += port_to.wdata.data[:8].eq(self.flip.storage ^ ecc_wdata.source.data[:8])

        # Rdata (ECC decoding) ---------------------------------------------------------------------
        sec = Signal()
        ded = Signal()
        ecc_rdata = RefECCR(port_from.data_width, port_to.data_width, burst_cycles)
        ecc_rdata = BufferizeEndpoints({"source": DIR_SOURCE})(ecc_rdata)
        self.submodules += ecc_rdata
        self.ecc_rdata = ecc_rdata          # (handle for the check script, not in the original)
        self.comb += [
            ecc_rdata.enable.eq(self.enable.storage),
            port_to.rdata.connect(ecc_rdata.sink),
            ecc_rdata.source.connect(port_from.rdata)
        ]

        # Errors count -----------------------------------------------------------------------------
        sec_errors = self.sec_errors.status
        ded_errors = self.ded_errors.status
        self.sync += [
            If(self.clear.wr_stb,
                sec_errors.eq(0),
                ded_errors.eq(0),
                sec_detected.eq(0),
                ded_detected.eq(0),
            ).Else(
                If(sec_errors != (2**len(sec_errors) - 1),
                    If(ecc_rdata.sec != 0,
                        sec_detected.eq(1),
                        sec_errors.eq(sec_errors + 1)
                    )
                ),
                If(ded_errors != (2**len(ded_errors) - 1),
                    If(ecc_rdata.ded != 0,
                        ded_detected.eq(1),
                        ded_errors.eq(ded_errors + 1)
                    )
                )
            )
        ]
        if with_we_error_detection:
            we_errors = self.we_errors.status
            self.sync += [
                If(self.clear.wr_stb,
                    we_errors.eq(0),
                ).Else(
                    If(we_errors != (2**len(we_errors) - 1),
                        If(ecc_wdata.we_error,
                            we_errors.eq(we_errors + 1)
                        )
                    )
                )
            ]

# Independent software SECDED model (extended Hamming code, stored word = parity, position 1, 2, ... n) ------

def sw_layout(k):
    m = 1
    while 2**m < m + k + 1:
        m += 1
    n = m + k
    dpos = [p for p in range(1, n + 1) if p & (p - 1)]       # not a power of two
    assert len(dpos) == k
    return m, n, dpos

def sw_encode(k, data):
    m, n, dpos = sw_layout(k)
    word = 0                                                   # bit p = codeword position p (bit 0 = parity)
    for j, p in enumerate(dpos):
        if (data >> j) & 1:
            word |= 1 << p
    for b in range(m):
        par = 0
        for p in range(1, n + 1):
            if (p >> b) & 1 and (word >> p) & 1:
                par ^= 1
        word |= par << (1 << b)
    word |= bin(word).count("1") & 1
    return word

def sw_raw(k, word):
    m, n, dpos = sw_layout(k)
    return sum(((word >> p) & 1) << j for j, p in enumerate(dpos))

def lanes_of(value, width, lanes=8):
    return [(value >> (i*width)) & (2**width - 1) for i in range(lanes)]

def pack(lanes, width):
    return sum((x & (2**width - 1)) << (i*width) for i, x in enumerate(lanes))

def interesting_words(k, nrandom):
    r = [0, 2**k - 1, int("55"*(k//8), 16), int("aa"*(k//8), 16), 1, 1 << (k - 1)]
    r += [rng.getrandbits(k) for _ in range(nrandom)]
    return r

# 0. NetSim against migen.sim -------------------------------------------------------------------------

class Chain(Module):
    """real ECCW -> stored word ^ flip -> real ECCR (all combinatorial unless the ECCW is buffered)."""
    def __init__(self, k, w, eccw=None, eccr=None):
        self.submodules.w = (eccw or LiteDRAMNativePortECCW)(k*8, w*8)
        self.submodules.r = (eccr or LiteDRAMNativePortECCR)(k*8, w*8)
        self.flip = Signal(w*8)
        self.comb += [
            self.w.source.ready.eq(self.r.sink.ready),
            self.r.sink.valid.eq(self.w.source.valid),
            self.r.sink.data.eq(self.w.source.data ^ self.flip),
        ]

def port_pair_io(p):
    pf, pt, e = p
    ins  = [pf.cmd.valid, pf.cmd.we, pf.cmd.addr, pf.wdata.valid, pf.wdata.data, pf.wdata.we, pf.rdata.ready,
            pt.cmd.ready, pt.wdata.ready, pt.rdata.valid, pt.rdata.data,
            e.enable.storage, e.clear.re, e.flip.storage]
    outs = [pf.cmd.ready, pf.wdata.ready, pf.rdata.valid, pf.rdata.data,
            pt.cmd.valid, pt.cmd.we, pt.cmd.addr, pt.wdata.valid, pt.wdata.data, pt.wdata.we, pt.rdata.ready,
            e.sec_errors.status, e.ded_errors.status, e.we_errors.status, e.sec_detected, e.ded_detected]
    return ins, outs

class Top(Module):
    def __init__(self, k, w, cls):
        self.pf = LiteDRAMNativePort("both", 24, k*8)
        self.pt = LiteDRAMNativePort("both", 24, w*8)
        self.submodules.ecc = cls(self.pf, self.pt, with_error_injection=True, with_we_error_detection=True)
        self.io = port_pair_io((self.pf, self.pt, self.ecc))

def random_top_inputs(k, w, ins, stored_pool, p_flip=0.5):
    """one cycle of random port level stimulus (values in the order of port_pair_io()[0])."""
    n1 = sw_layout(k)[1] + 1
    word = rng.choice(stored_pool)
    lanes = lanes_of(word, w)
    for i in range(8):
        if rng.random() < p_flip:
            for _ in range(rng.choice((1, 1, 2))):
                lanes[i] ^= 1 << rng.randrange(n1)
    we_kind = rng.random()
    if we_kind < 0.5:
        we = 2**(k) - 1
    elif we_kind < 0.6:
        we = 0
    else:
        we = rng.getrandbits(k) | (rng.getrandbits(k) if rng.random() < 0.5 else 0)
    return [rng.random() < 0.5, rng.getrandbits(1), rng.getrandbits(24),
            rng.random() < 0.7, rng.getrandbits(k*8), we, rng.random() < 0.7,
            rng.getrandbits(1), rng.random() < 0.7, rng.random() < 0.6, pack(lanes, w),
            rng.random() < 0.9, rng.random() < 0.02, rng.choice((0, 0, 0, 4, 12, rng.getrandbits(8)))]

def stored_pool_for(k, w, count=8):
    return [pack([sw_encode(k, rng.getrandbits(k)) for _ in range(8)], w) for _ in range(count)]

def crosscheck_netsim():
    k, w, cycles = 8, 13, (40 if FAST else 120)
    pool = stored_pool_for(k, w)
    a, b = Top(k, w, LiteDRAMNativePortECC), Top(k, w, LiteDRAMNativePortECC)
    stim = [[int(x) for x in random_top_inputs(k, w, a.io[0], pool)] for _ in range(cycles)]
    seen_m = []
    def gen():
        for t in range(cycles):
            for s, x in zip(a.io[0], stim[t]):
                yield s.eq(x)
            yield
            row = []
            for s in a.io[1]:
                row.append((yield s))
            seen_m.append(row)
    run_simulation(a, gen())
    sim = NetSim(b)
    sim.tick()
    for t in range(cycles):
        for s, x in zip(b.io[0], stim[t]):
            sim.set(s, x)
        sim.settle()
        seen = [sim.get(s) for s in b.io[1]]
        check(seen == seen_m[t], "NetSim differs from migen.sim at cycle", t, seen, seen_m[t])
        sim.tick()
    check(any(r[11] for r in seen_m) and any(r[12] for r in seen_m), "cross-check saw no error at all")
    print("0. NetSim == migen.sim on %d random cycles of the complete port (8-bit lanes)" % cycles)

# 2. SECDED on the real lanes ----------------------------------------------------------------------------

LANE_CONFIGS = [(8, 13), (16, 22), (24, 30), (32, 39), (40, 47), (48, 55), (56, 63), (64, 72), (8, 16), (32, 40)]

def flip_patterns(n1):
    pats = [()] + [(p,) for p in range(n1)] + list(itertools.combinations(range(n1), 2))
    return pats

def check_secded(k, w, nwords, label, eccw=None):
    m, n, dpos = sw_layout(k)
    check(w >= n + 1, "bad config")
    dut = Chain(k, w, eccw=eccw)
    sim = NetSim(dut)
    sim.set(dut.w.sink.valid, 1)
    sim.set(dut.w.sink.we, 2**k - 1)
    sim.set(dut.r.source.ready, 1)
    sim.set(dut.r.enable, 1)
    pats  = flip_patterns(n + 1)
    words = interesting_words(k, nwords)
    total = 0
    buffered = dut.w.source.valid in [sim.sigs[t] for t in sim.sync_targets]
    for base in range(0, len(pats), 8):
        group = pats[base:base + 8]
        group = group + [()]*(8 - len(group))
        lanes = [words[(base + i) % len(words)] if rng.random() < 0.5 else rng.getrandbits(k) for i in range(8)]
        sim.set(dut.w.sink.data, pack(lanes, k))
        sim.set(dut.flip, pack([sum(1 << p for p in g) for g in group], w))
        sim.settle()
        if buffered:
            sim.tick()
        check(sim.get(dut.r.source.valid) == 1, label, "no word at the decoder")
        stored = lanes_of(sim.get(dut.w.source.data), w)
        out    = lanes_of(sim.get(dut.r.source.data), k)
        sec, ded = sim.get(dut.r.sec), sim.get(dut.r.ded)
        check(sim.get(dut.w.we_error) == 0, label, "full write reported as granularity error")
        for i, g in enumerate(group):
            s, d = (sec >> i) & 1, (ded >> i) & 1
            ctx = (label, "k=%d w=%d lane=%d data=%#x flips=%s" % (k, w, i, lanes[i], g))
            check(stored[i] == sw_encode(k, lanes[i]), *ctx, "stored word is not the SECDED code word")
            if len(g) == 0:
                check(out[i] == lanes[i] and not s and not d, *ctx, "clean word", hex(out[i]), s, d)
            elif len(g) == 1:
                check(out[i] == lanes[i], *ctx, "single flip not corrected", hex(out[i]))
                check(not d, *ctx, "single flip reported as uncorrectable")
                check(s == (g[0] != 0), *ctx, "single flip: sec flag", s)
            else:
                check(d and not s, *ctx, "double flip: sec/ded", s, d)
                if CHANGE == 2:
                    check(out[i] == sw_raw(k, stored[i] ^ sum(1 << p for p in g)), *ctx, "double flip: not the raw data")
            total += 1
    return total

def run_secded():
    total = 0
    for k, w in LANE_CONFIGS:
        if FAST and k not in (8, 32):
            continue
        reps = 1 if k >= 40 else 2
        for r in range(reps):
            total += check_secded(k, w, 8, "secded")
        if CHANGE == 3 and k in (8, 32, 64):
            total += check_secded(k, w, 8, "secded (registered ECCW)", functools.partial(LiteDRAMNativePortECCW, with_buffer=True))
    print("2. SECDED on the real ECCW -> flips -> ECCR chain: %d (lane, data, flip pattern) cases, every single and"
          " double flip of every stored position, lanes %s" % (total, sorted(set(k for k, w in LANE_CONFIGS))))

# 3. complete port in lock-step with the unmodified one ------------------------------------------------------

def run_lockstep_top(configs, cycles, data_may_differ_on_ded=False):
    for (k, w), (near_sat, stall_profile) in itertools.product(configs, ((True, "none"), (False, "random"))):
        pool = stored_pool_for(k, w)
        class Pair(Module):
            def __init__(self):
                self.submodules.a = Top(k, w, LiteDRAMNativePortECC)
                self.submodules.b = Top(k, w, RefECC)
        dut = Pair()
        sim = NetSim(dut)
        (ia, oa), (ib, ob) = dut.a.io, dut.b.io
        names = ["pf.cmd.ready", "pf.wdata.ready", "pf.rdata.valid", "pf.rdata.data", "pt.cmd.valid", "pt.cmd.we",
                 "pt.cmd.addr", "pt.wdata.valid", "pt.wdata.data", "pt.wdata.we", "pt.rdata.ready", "sec_errors",
                 "ded_errors", "we_errors", "sec_detected", "ded_detected"]
        events = collections.Counter()
        if near_sat:
            for top in (dut.a, dut.b):
                sim.set(top.ecc.sec_errors.status, 2**32 - 4)
                sim.set(top.ecc.ded_errors.status, 2**32 - 3)
                sim.set(top.ecc.we_errors.status,  2**32 - 5)
                sim.set(top.ecc.sec_detected, 1)
                sim.set(top.ecc.ded_detected, 1)
        ded_mask = 0      # uncorrectable lanes of the word in the reference's read buffer
        for t in range(cycles):
            stim = random_top_inputs(k, w, ia, pool)
            if near_sat and t < cycles//2:
                stim[12] = 0                       # no clear until the counters have saturated
            if stall_profile == "none":
                stim[6] = stim[8] = 1
            for s, x in zip(ia, stim):
                sim.set(s, int(x))
            for s, x in zip(ib, stim):
                sim.set(s, int(x))
            sim.settle()
            va, vb = [sim.get(s) for s in oa], [sim.get(s) for s in ob]
            for j, name in enumerate(names):
                if name == "pf.rdata.data" and data_may_differ_on_ded:
                    # only defined while valid; lanes flagged uncorrectable are not constrained by the property.
                    if vb[2]:
                        for i, (x, y) in enumerate(zip(lanes_of(va[j], k), lanes_of(vb[j], k))):
                            check(x == y or (ded_mask >> i) & 1, "lock-step k=%d w=%d cycle %d: read data lane %d differs" % (k, w, t, i))
                            events["ded lanes differing"] += x != y
                    continue
                check(va[j] == vb[j], "lock-step k=%d w=%d cycle %d: %s differs: %#x / %#x" % (k, w, t, name, va[j], vb[j]))
            if vb[2] and stim[6]: events["read beats"] += 1
            if vb[7] and stim[8]: events["write beats"] += 1
            if not vb[2] or stim[6]:
                ded_mask = sim.get(dut.b.ecc.ecc_rdata.ded)
            sim.tick()
        fa = [sim.get(s) for s in oa]
        events["sec"], events["ded"], events["we"] = fa[11], fa[12], fa[13]
        check(events["read beats"] > cycles//10 and events["write beats"] > cycles//10, "lock-step: too little traffic", events)
        print("   lock-step k=%2d w=%2d %5d cycles (%s stalls%s): %s" % (k, w, cycles, stall_profile,
              ", near saturation" if near_sat else "", dict(events)))

# 4. complete port against an independent model -------------------------------------------------------------

def run_e2e(k, w, nwords, stalls):
    m, n, dpos = sw_layout(k)
    n1  = n + 1
    dut = Top(k, w, LiteDRAMNativePortECC)
    sim = NetSim(dut)
    pf, pt, e = dut.pf, dut.pt, dut.ecc
    sim.set(e.enable.storage, 1)
    label = "e2e k=%d w=%d stalls=%s" % (k, w, stalls)
    full = 2**k - 1

    def counters():
        return (sim.get(e.sec_errors.status), sim.get(e.ded_errors.status), sim.get(e.we_errors.status),
                sim.get(e.sec_detected), sim.get(e.ded_detected))

    def idle(ncycles=2):
        sim.set(pf.wdata.valid, 0)
        sim.set(pt.rdata.valid, 0)
        for _ in range(ncycles):
            sim.set(pt.wdata.ready, 1)
            sim.set(pf.rdata.ready, 1)
            sim.tick()

    def write(data, we):
        """one user write; returns the stored (data, we) beat."""
        sim.set(pf.wdata.valid, 1); sim.set(pf.wdata.data, data); sim.set(pf.wdata.we, we)
        got, sent = None, False
        for t in range(200):
            sim.set(pt.wdata.ready, 1 if not stalls else rng.random() < 0.5)
            sim.settle()
            if sim.get(pt.wdata.valid) and sim.get(pt.wdata.ready):
                check(got is None, label, "a write beat was duplicated")
                got = (sim.get(pt.wdata.data), sim.get(pt.wdata.we))
            if not sent and sim.get(pf.wdata.ready):
                sent = True
                sim.tick()
                sim.set(pf.wdata.valid, 0)
                continue
            sim.tick()
            if sent and got is not None:
                break
        check(got is not None and sent, label, "write beat lost")
        return got

    def read(word):
        """one DRAM read beat; returns the user beat."""
        sim.set(pt.rdata.valid, 1); sim.set(pt.rdata.data, word)
        got, sent = None, False
        for t in range(200):
            sim.set(pf.rdata.ready, 1 if not stalls else rng.random() < 0.5)
            sim.settle()
            if sim.get(pf.rdata.valid) and sim.get(pf.rdata.ready):
                check(got is None, label, "a read beat was duplicated")
                got = sim.get(pf.rdata.data)
            if not sent and sim.get(pt.rdata.ready):
                sent = True
                sim.tick()
                sim.set(pt.rdata.valid, 0)
                continue
            sim.tick()
            if sent and got is not None:
                break
        check(got is not None and sent, label, "read beat lost")
        idle(2)
        return got

    # Writes: stored format and granularity errors.
    mem = []
    for j in range(nwords):
        data = pack([rng.choice(interesting_words(k, 4)) for _ in range(8)], k)
        kind = rng.random()
        if kind < 0.5:
            we, partial = 2**(k) - 1, False
        else:
            lane_we = []
            for i in range(8):
                c = rng.random()
                lane_we.append(2**(k//8) - 1 if c < 0.5 else (0 if c < 0.6 else rng.getrandbits(k//8)))
            we = pack(lane_we, k//8)
            partial = we != 2**k - 1
        before = counters()
        sdata, swe = write(data, we)
        idle(2)
        after = counters()
        check(lanes_of(sdata, w) == [sw_encode(k, x) for x in lanes_of(data, k)], label, "stored data is not the code word")
        if partial:
            check(after[2] > before[2], label, "partial write %#x not reported as granularity error" % we)
        else:
            check(after[2] == before[2], label, "full write reported as granularity error")
            check(swe == 2**len(pt.wdata.we) - 1, label, "full write does not enable all stored bytes", hex(swe))
        if not stalls and partial:
            check(after[2] == before[2] + 1, label, "granularity error not counted once", before, after)
        check(after[:2] == before[:2] and after[3:] == before[3:], label, "a write changed the read counters")
        mem.append((data, sdata))

    # Reads with stored bit flips.
    sim.set(e.clear.re, 1); idle(1); sim.set(e.clear.re, 0); idle(1)
    check(counters() == (0, 0, 0, 0, 0), label, "clear")
    exp_sec = exp_ded = 0
    for j, (data, sdata) in enumerate(mem * 3):
        lanes = lanes_of(sdata, w)
        kinds = []
        for i in range(8):
            c = rng.random()
            if c < 0.55:   g = ()
            elif c < 0.8:  g = (rng.randrange(n1),)
            elif c < 0.85: g = (0,)
            else:          g = tuple(rng.sample(range(n1), 2))
            kinds.append(g)
            for p in g:
                lanes[i] ^= 1 << p
        before = counters()
        got = lanes_of(read(pack(lanes, w)), k)
        after = counters()
        want = lanes_of(data, k)
        for i, g in enumerate(kinds):
            if len(g) < 2:
                check(got[i] == want[i], label, "lane %d flips %s: data %#x instead of %#x" % (i, g, got[i], want[i]))
            elif CHANGE == 2:
                check(got[i] == sw_raw(k, lanes[i]), label, "lane %d flips %s: not the raw data" % (i, g))
        has_sec = any(len(g) == 1 and g[0] != 0 for g in kinds)
        has_ded = any(len(g) == 2 for g in kinds)
        if not stalls:
            check(after[0] == before[0] + has_sec and after[1] == before[1] + has_ded, label, "counters", kinds, before, after)
        else:
            check((after[0] > before[0]) == has_sec and (after[1] > before[1]) == has_ded, label, "counters", kinds, before, after)
        exp_sec |= has_sec; exp_ded |= has_ded
        check(after[3] == exp_sec and after[4] == exp_ded, label, "sticky flags", after)
        check(after[2] == 0, label, "a read changed the granularity counter")
    check(exp_sec and exp_ded, label, "weak run")

    # Saturation, then clear.
    sim.set(e.sec_errors.status, 2**32 - 2)
    sim.set(e.ded_errors.status, 2**32 - 2)
    data, sdata = mem[0]
    for r in range(4):
        lanes = lanes_of(sdata, w)
        lanes[r] ^= 0b100            # corrected
        lanes[7 - r] ^= 0b1010       # uncorrectable
        got = lanes_of(read(pack(lanes, w)), k)
        check(got[r] == lanes_of(data, k)[r], label, "saturation: data")
        c = counters()
        check(c[0] == min(2**32 - 1, 2**32 - 2 + r + 1) or stalls and c[0] >= 2**32 - 1, label, "sec saturation", c)
        check(c[1] == min(2**32 - 1, 2**32 - 2 + r + 1) or stalls and c[1] >= 2**32 - 1, label, "ded saturation", c)
        check(c[0] <= 2**32 - 1 and c[1] <= 2**32 - 1 and c[3] and c[4], label, "saturation", c)
    sim.set(e.clear.re, 1); idle(1); sim.set(e.clear.re, 0); idle(1)
    check(counters() == (0, 0, 0, 0, 0), label, "clear after saturation")
    # Decoder disabled: nothing is counted, raw data comes back.
    sim.set(e.enable.storage, 0)
    lanes = lanes_of(sdata, w)
    lanes[3] ^= 0b1000
    got = lanes_of(read(pack(lanes, w)), k)
    check(got == [sw_raw(k, x) for x in lanes] and counters() == (0, 0, 0, 0, 0), label, "disabled decoder")
    sim.set(e.enable.storage, 1)

def run_e2e_all():
    cfgs = [(8, 13), (32, 39)] if FAST else [(8, 13), (16, 22), (32, 39), (64, 72), (32, 40)]
    for k, w in cfgs:
        for stalls in (False, True):
            run_e2e(k, w, 6 if k >= 32 else 12, stalls)
    print("4. complete port against the independent model (data, counters, sticky flags, clear, saturation, granularity"
          " errors): %s x {no stalls, random stalls}" % cfgs)

# 1. change 3: output register of the write path inside ECCW (with_buffer) instead of a BufferizeEndpoints wrapper --

class PairW(Module):
    def __init__(self, k, w, buffered):
        self.submodules.a = LiteDRAMNativePortECCW(k*8, w*8, with_buffer=buffered)
        b = RefECCW(k*8, w*8)
        if buffered:
            b = BufferizeEndpoints({"source": DIR_SOURCE})(b)
        self.submodules.b = b

def eccw_outputs(x):
    return [x.source.valid, x.source.first, x.source.last, x.source.data, x.source.we, x.sink.ready, x.we_error]

def run_specific():
    total = 0
    for k, w in LANE_CONFIGS:
        if FAST and k not in (8, 32):
            continue
        for buffered in (False, True):
            dut = PairW(k, w, buffered)
            sim = NetSim(dut)
            if buffered:
                check(dut.a.source.valid in [sim.sigs[t] for t in sim.sync_targets], "with_buffer=True does not register the output")
            beats = 0
            profile = None
            for t in range(150 if FAST else 600):
                if t % 100 == 0:
                    profile = rng.choice(((0.5, 0.5), (0.9, 0.2), (0.2, 0.9), (1.0, 1.0)))
                c = rng.random()
                we = 2**k - 1 if c < 0.5 else (0 if c < 0.6 else rng.getrandbits(k))
                stim = [rng.getrandbits(8*k), we, int(rng.random() < profile[0]), rng.getrandbits(1), rng.getrandbits(1),
                        int(rng.random() < profile[1])]
                for x in (dut.a, dut.b):
                    for s, v in zip([x.sink.data, x.sink.we, x.sink.valid, x.sink.first, x.sink.last, x.source.ready], stim):
                        sim.set(s, v)
                sim.settle()
                va, vb = [sim.get(s) for s in eccw_outputs(dut.a)], [sim.get(s) for s in eccw_outputs(dut.b)]
                check(va == vb, "ECCW(with_buffer=%s) differs from the original at cycle %d (k=%d)" % (buffered, t, k), va, vb)
                beats += va[0] & stim[5]
                sim.tick()
                total += 1
            check(beats > 20, "too little traffic")
    print("1. real ECCW (with_buffer False / True) in lock-step with the verbatim original ECCW (bare / wrapped in"
          " BufferizeEndpoints): %d cycles, all outputs identical every cycle" % total)


if __name__ == "__main__":
    crosscheck_netsim()
    run_specific()
    run_secded()
    cfgs = [(8, 13), (32, 39)] if FAST else [(8, 13), (16, 22), (32, 39), (64, 72), (8, 16)]
    print("3. complete port in lock-step with the unmodified port:")
    for c in cfgs:
        run_lockstep_top([c], 300 if FAST else (1000 if c[0] <= 32 else 400), data_may_differ_on_ded=(CHANGE == 2))
    run_e2e_all()
    print("keep_%d: OK" % CHANGE)
