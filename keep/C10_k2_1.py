#!/usr/bin/env python3
# Check for change 1: in the narrow-bus path of LiteDRAMWishbone2Native the one-word read cache is
# only invalidated by a write that targets the cached native word.
#
# Random Wishbone traffic (classic + incrementing-burst cycles, random addresses / sel / we / CTI in a
# small window so that writes and reads collide on the same wide words, idle gaps with and without
# cyc, aborts at random cycles) is driven into the REAL LiteDRAMWishbone2Native in front of an in-order
# native memory model with random cmd / wdata / rdata timing.  A byte-accurate reference model checks:
#   - every non-aborted access is acknowledged (within a bound) and ack is never seen without cyc&stb,
#   - every acknowledged read returns the bytes most recently written (never stale cache / merge data),
#   - after the final flush the memory holds exactly the acknowledged writes (selected bytes only),
#   - aborted accesses have no effect.
# It also checks that the optimisation is effective (read served from the cache after a write to
# another native word, i.e. fewer native reads than Wishbone read misses would otherwise need).

import os
import sys
import random

sys.path.insert(0, os.getcwd())

from migen import *
from litex.gen.sim import run_simulation
from litex.soc.interconnect import wishbone

from litedram.common import LiteDRAMNativePort
from litedram.frontend.wishbone import LiteDRAMWishbone2Native

CTI_CLASSIC = 0b000
CTI_INC     = 0b010
CTI_END     = 0b111


class NativeMemory:
    """In-order native-port memory with random handshake timing."""
    def __init__(self, port, prng, p_cmd, p_wdata, p_rdata):
        self.port   = port
        self.prng   = prng
        self.p      = (p_cmd, p_wdata, p_rdata)
        self.mem    = {}
        self.nbytes = port.data_width//8
        self.ops    = []      # in-order: ["w", addr, data/None, we] or ["r", addr]
        self.rq     = []      # read data waiting to be returned
        self.n_rd   = 0
        self.n_wr   = 0
        self.errors = []

    def read(self, addr):
        return self.mem.get(addr, 0)

    def write(self, addr, data, we):
        v = self.read(addr)
        for b in range(self.nbytes):
            if (we >> b) & 1:
                v = (v & ~(0xff << (8*b))) | (data & (0xff << (8*b)))
        self.mem[addr] = v

    def _drain(self):
        while self.ops:
            op = self.ops[0]
            if op[0] == "w":
                if op[2] is None:
                    break
                self.write(op[1], op[2], op[3])
            else:
                self.rq.append(self.read(op[1]))
            self.ops.pop(0)

    @passive
    def handler(self):
        port, prng = self.port, self.prng
        p_cmd, p_wdata, p_rdata = self.p
        cmd_ready = wdata_ready = rdata_valid = 0
        while True:
            # Sample this cycle.
            if cmd_ready and (yield port.cmd.valid):
                addr = (yield port.cmd.addr)
                if (yield port.cmd.we):
                    self.ops.append(["w", addr, None, 0])
                    self.n_wr += 1
                else:
                    self.ops.append(["r", addr])
                    self.n_rd += 1
            if wdata_ready and (yield port.wdata.valid):
                for op in self.ops:
                    if op[0] == "w" and op[2] is None:
                        op[2] = (yield port.wdata.data)
                        op[3] = (yield port.wdata.we)
                        break
                else:
                    self.errors.append("wdata without command")
            if rdata_valid and (yield port.rdata.ready):
                self.rq.pop(0)
            self._drain()
            # Drive next cycle.
            cmd_ready   = int(prng.random() < p_cmd)
            wdata_ready = int(any(op[0] == "w" and op[2] is None for op in self.ops)
                              and prng.random() < p_wdata)
            rdata_valid = int(bool(self.rq) and prng.random() < p_rdata)
            yield port.cmd.ready.eq(cmd_ready)
            yield port.wdata.ready.eq(wdata_ready)
            yield port.rdata.valid.eq(rdata_valid)
            yield port.rdata.data.eq(self.rq[0] if rdata_valid else prng.getrandbits(port.data_width))
            yield


class Master:
    def __init__(self, wb, prng, n_access, adr_base, adr_span, p_abort, p_inc, tag):
        self.wb, self.prng = wb, prng
        self.n_access = n_access
        self.adr_base, self.adr_span = adr_base, adr_span
        self.p_abort, self.p_inc = p_abort, p_inc
        self.tag     = tag
        self.ref     = {}     # byte address (relative) -> value
        self.errors  = []
        self.expect  = False  # an access is presented in the current cycle
        self.n_acked = self.n_abort = self.n_rd_ok = 0
        self.done    = False

    def ref_read(self, adr, nbytes):
        return sum(self.ref.get(adr*nbytes + b, 0) << (8*b) for b in range(nbytes))

    def gen(self):
        wb, prng = self.wb, self.prng
        nbytes = len(wb.sel)
        dw     = len(wb.dat_w)
        cyc    = 0
        last_adr = 0
        for n in range(self.n_access):
            # Optional idle gap, with or without cyc.
            r = prng.random()
            if r < 0.25:
                cyc = 0 if prng.random() < 0.6 else cyc
                yield wb.cyc.eq(cyc)
                yield wb.stb.eq(0)
                yield wb.we.eq(prng.getrandbits(1))
                yield wb.adr.eq(self.adr_base + prng.randrange(self.adr_span))
                self.expect = False
                for _ in range(prng.choice([1, 1, 2, 3, 8])):
                    yield
                    if (yield wb.ack):
                        self.errors.append("%s: ack while idle (access %d)" % (self.tag, n))
            # New access.
            we  = prng.random() < 0.45
            if prng.random() < 0.5:
                adr = (last_adr + 1) % self.adr_span
            else:
                adr = prng.randrange(self.adr_span)
            last_adr = adr
            sel = prng.choice([2**nbytes - 1, 2**nbytes - 1, prng.getrandbits(nbytes)])
            dat = prng.getrandbits(dw)
            cti = CTI_INC if prng.random() < self.p_inc else prng.choice([CTI_CLASSIC, CTI_END])
            cyc = 1
            yield wb.cyc.eq(1)
            yield wb.stb.eq(1)
            yield wb.we.eq(int(we))
            yield wb.adr.eq(self.adr_base + adr)
            yield wb.sel.eq(sel)
            yield wb.dat_w.eq(dat)
            yield wb.cti.eq(cti)
            abort_at = prng.randrange(1, 12) if prng.random() < self.p_abort else None
            waited   = 0
            while True:
                yield
                waited += 1
                if (yield wb.ack):
                    self.n_acked += 1
                    if we:
                        for b in range(nbytes):
                            if (sel >> b) & 1:
                                self.ref[adr*nbytes + b] = (dat >> (8*b)) & 0xff
                    else:
                        got, exp = (yield wb.dat_r), self.ref_read(adr, nbytes)
                        if got != exp:
                            self.errors.append("%s: access %d read adr %d got %x expected %x" % (
                                self.tag, n, adr, got, exp))
                        else:
                            self.n_rd_ok += 1
                    break
                if abort_at is not None and waited >= abort_at:
                    # Drop the cycle before the acknowledge.
                    self.n_abort += 1
                    cyc = 0
                    yield wb.cyc.eq(0)
                    yield wb.stb.eq(0)
                    for _ in range(prng.choice([1, 1, 2, 5])):
                        yield
                        if (yield wb.ack):
                            self.errors.append("%s: ack after abort (access %d)" % (self.tag, n))
                    break
                if waited > 2000:
                    self.errors.append("%s: access %d never acknowledged" % (self.tag, n))
                    self.done = True
                    return
        # End: release the bus and let pending writes drain.
        yield wb.cyc.eq(0)
        yield wb.stb.eq(0)
        for _ in range(300):
            yield
            if (yield wb.ack):
                self.errors.append("%s: ack after the end" % self.tag)
        self.done = True


def run_one(wb_dw, port_dw, base_address, seed, n_access=250, p_abort=0.12, p_inc=0.6,
            timing=(0.6, 0.6, 0.5), words=3):
    prng  = random.Random(seed)
    ratio = max(port_dw//wb_dw, 1)
    wb    = wishbone.Interface(adr_width=30, data_width=wb_dw, addressing="word")
    port  = LiteDRAMNativePort("both", address_width=30, data_width=port_dw)
    dut   = Module()
    dut.submodules.bridge = LiteDRAMWishbone2Native(wb, port, base_address=base_address)
    tag   = "wb%d->port%d base=0x%x seed=%d" % (wb_dw, port_dw, base_address, seed)
    mem   = NativeMemory(port, prng, *timing)
    # Small window that straddles several wide words (start not aligned to a wide word on purpose).
    win0   = prng.randrange(4*ratio)
    master = Master(wb, prng, n_access, base_address//(wb_dw//8) + win0, words*ratio, p_abort, p_inc, tag)
    run_simulation(dut, [master.gen(), mem.handler()])
    errors = master.errors + mem.errors
    if not master.done:
        errors.append("%s: master did not finish" % tag)
    if mem.ops or mem.rq:
        errors.append("%s: memory left with pending operations" % tag)
    # Memory == acknowledged writes, byte exact.
    nb  = wb_dw//8
    pnb = port_dw//8
    exp = {}
    for badr, v in master.ref.items():
        byte = win0*nb + badr
        exp.setdefault(byte//pnb, {})[byte % pnb] = v
    for wadr in set(exp) | set(mem.mem):
        got = mem.read(wadr)
        for b in range(pnb):
            e = exp.get(wadr, {}).get(b, 0)
            if (got >> (8*b)) & 0xff != e:
                errors.append("%s: memory word %d byte %d = %02x, expected %02x" % (
                    tag, wadr, b, (got >> (8*b)) & 0xff, e))
                break
    return errors, master, mem


def directed_cache_kept():
    """Read word A lane 0 (burst), write word B, read word A lane 1: must be correct and must not need
    a second native read; then write word A and read it again: must see the new data."""
    wb   = wishbone.Interface(adr_width=30, data_width=32, addressing="word")
    port = LiteDRAMNativePort("both", address_width=30, data_width=128)
    dut  = Module()
    dut.submodules.bridge = LiteDRAMWishbone2Native(wb, port)
    prng = random.Random(1)
    mem  = NativeMemory(port, prng, 1.0, 1.0, 1.0)
    mem.mem[0] = 0x44444444333333332222222211111111
    mem.mem[1] = 0x88888888777777776666666655555555
    res = []

    def access(we, adr, dat, cti):
        yield wb.cyc.eq(1)
        yield wb.stb.eq(1)
        yield wb.we.eq(we)
        yield wb.adr.eq(adr)
        yield wb.sel.eq(0xf)
        yield wb.dat_w.eq(dat)
        yield wb.cti.eq(cti)
        yield
        while not (yield wb.ack):
            yield
        res.append((yield wb.dat_r))

    def gen():
        yield from access(0, 0, 0, CTI_INC)           # A lane 0 : native read
        yield from access(1, 5, 0xdeadbeef, CTI_INC)  # B lane 1 : merge buffer
        n0 = mem.n_rd
        yield from access(0, 1, 0, CTI_INC)           # A lane 1 : from the cache (after B is drained)
        res.append(("native reads", n0, mem.n_rd))
        yield from access(1, 2, 0xcafef00d, CTI_INC)  # A lane 2 : invalidates
        yield from access(0, 2, 0, CTI_INC)           # A lane 2 : must be the new data
        yield from access(0, 5, 0, CTI_END)           # B lane 1
        yield wb.cyc.eq(0)
        yield wb.stb.eq(0)
        for _ in range(20):
            yield

    run_simulation(dut, [gen(), mem.handler()])
    errors = []
    if res[0] != 0x11111111:              errors.append("directed: first read %x" % res[0])
    if res[2] != 0x22222222:              errors.append("directed: cached read %x" % res[2])
    if res[3] != ("native reads", 1, 1):  errors.append("directed: cache not kept %r" % (res[3],))
    if res[5] != 0xcafef00d:              errors.append("directed: stale read after write %x" % res[5])
    if res[6] != 0xdeadbeef:              errors.append("directed: other word %x" % res[6])
    if mem.mem[0] != 0x44444444cafef00d2222222211111111: errors.append("directed: word 0 %x" % mem.mem[0])
    if mem.mem[1] != 0x8888888877777777deadbeef55555555: errors.append("directed: word 1 %x" % mem.mem[1])
    return errors


def main():
    quick  = "--long" not in sys.argv
    errors = directed_cache_kept()
    configs = [(8, 16), (8, 32), (8, 64), (16, 128), (32, 64), (32, 128), (32, 256), (64, 128)]
    bases   = [0x00000000, 0x10000000, 0x04000040]
    timings = [(1.0, 1.0, 1.0), (0.6, 0.6, 0.5), (0.25, 0.3, 0.2), (1.0, 0.2, 1.0)]
    n_acc = n_abort = n_rd = n_runs = 0
    seed = 0
    for wb_dw, port_dw in configs:
        for base in bases:
            for timing in timings:
                for p_abort, p_inc in [(0.0, 0.85), (0.15, 0.6)]:
                    for rep in range(1 if quick else 2):
                        seed += 1
                        errs, master, mem = run_one(wb_dw, port_dw, base, seed,
                            n_access=120 if quick else 260, p_abort=p_abort, p_inc=p_inc, timing=timing)
                        errors += errs
                        n_runs  += 1
                        n_acc   += master.n_acked
                        n_abort += master.n_abort
                        n_rd    += master.n_rd_ok
                        if errs:
                            print("\n".join(errs[:5]))
    print("runs=%d acknowledged=%d (reads checked=%d) aborted=%d errors=%d" % (
        n_runs, n_acc, n_rd, n_abort, len(errors)))
    if errors:
        print("\n".join(errors[:20]))
        print("FAIL")
        sys.exit(1)
    print("OK")

if __name__ == "__main__":
    main()
