#!/usr/bin/env python3
"""Check for change 1 (litedram/frontend/fifo.py: _LiteDRAMFIFOCtrl keeps its produce/consume pointers
as absolute DRAM word addresses in [base, base + depth), used directly by the Writer/Reader instead
of base + relative pointer).

Run from the root of a tree with the change applied. Exit code 0 = property C13 still holds.

 1) _LiteDRAMFIFOCtrl alone, in lockstep with an embedded verbatim copy of the unmodified class, for
    63 base/depth combinations: level, flags and relative pointers identical, absolute pointers
    equal base + relative pointer, follow a reference model and stay in range.
 2) The whole LiteDRAMFIFO with randomised producer / consumer / DRAM timing (command-ordered DRAM
    model that flags overwritten unread locations, reads of empty locations, addresses out of range),
    stream compared with the input (lossless / ordered / complete / nothing extra), level <= depth,
    and cycle-exact comparison of streams and DRAM port activity with the unmodified FIFO.
"""

# ---- common harness (copied verbatim into every keep_k.py) ---------------------------------------
import os, sys, random
sys.path.insert(0, os.getcwd())

from migen import *
from litedram.common import LiteDRAMNativeWritePort, LiteDRAMNativeReadPort


class Violation(Exception):
    pass


class DUT(Module):
    def __init__(self, fifo_cls, data_width, ratio, base_words, depth_words, with_bypass, **kw):
        pdw = data_width*ratio
        self.write_port = LiteDRAMNativeWritePort(address_width=32, data_width=pdw)
        self.read_port  = LiteDRAMNativeReadPort(address_width=32,  data_width=pdw)
        self.base  = base_words
        self.depth = depth_words
        self.submodules.fifo = fifo_cls(
            data_width  = data_width,
            base        = base_words*(pdw//8),
            depth       = depth_words*(pdw//8),
            write_port  = self.write_port,
            read_port   = self.read_port,
            with_bypass = with_bypass, **kw)


class Bench:
    """Random producer / consumer / DRAM model around a LiteDRAMFIFO.

    The DRAM model is command ordered (like the real controller): a read returns the memory content
    as of all the write commands accepted before it. It checks that no live (written, not yet read)
    location is overwritten, that no dead location is read and that all addresses are in range.
    """
    def __init__(self, dut, seed, n_words, max_cycles, profile, trace=None, stallable_rdata=True):
        self.dut    = dut
        self.prng   = random.Random(seed)
        self.n      = n_words
        self.max_cycles = max_cycles
        self.profile = profile
        self.sent   = []
        self.recv   = []
        self.done   = False
        self.trace  = trace
        self.max_live = 0
        self.mode_switches = 0   # returns to BYPASS mode
        # False: read data is presented for exactly one cycle whatever rdata.ready (what the real
        # controller does); a word presented while rdata.ready is low is reported.
        self.stallable_rdata = stallable_rdata

    # producer -------------------------------------------------------------------------------------
    @passive
    def producer(self):
        sink = self.dut.fifo.sink
        prng = random.Random(self.prng.random())
        mask = 2**len(sink.data) - 1
        i = 0
        p = 1.0
        phase = 0
        valid = 0
        while i < self.n:
            if phase == 0:
                p     = prng.choice(self.profile["p_w"])
                phase = prng.randrange(1, self.profile["phase"])
            phase -= 1
            if valid and (yield sink.ready):
                self.sent.append(data)
                i += 1
                valid = 0
            if not valid and i < self.n and prng.random() < p:
                valid = 1
                data  = ((i + 1)*0x9e3779b1 >> 7) & mask
                yield sink.data.eq(data)
            yield sink.valid.eq(valid)
            yield
        yield sink.valid.eq(0)
        yield

    # consumer -------------------------------------------------------------------------------------
    @passive
    def consumer(self):
        source = self.dut.fifo.source
        prng = random.Random(self.prng.random())
        ready = 0
        phase = 0
        while True:
            if phase == 0:
                p     = prng.choice(self.profile["p_r"])
                phase = prng.randrange(1, self.profile["phase"])
            phase -= 1
            if ready and (yield source.valid):
                self.recv.append((yield source.data))
            ready = int(prng.random() < p)
            yield source.ready.eq(ready)
            yield

    # DRAM -----------------------------------------------------------------------------------------
    @passive
    def dram(self):
        wp, rp = self.dut.write_port, self.dut.read_port
        prng = random.Random(self.prng.random())
        pr   = self.profile
        mem  = {}
        live = set()
        wq   = []          # accepted write commands waiting for their data
        rq   = []          # accepted reads: [addr, n_wcmd_before, data or None, earliest_cycle]
        n_wcmd = 0
        n_wdone = 0
        cycle = 0
        w_cmd_ready = r_cmd_ready = w_dat_ready = r_dat_valid = 0
        while True:
            # events of the cycle that just ended
            if w_cmd_ready and (yield wp.cmd.valid):
                a = (yield wp.cmd.addr)
                if not (yield wp.cmd.we):
                    raise Violation("read command on write port")
                if not (self.dut.base <= a < self.dut.base + self.dut.depth):
                    raise Violation("write address out of range: %d" % a)
                if a in live:
                    raise Violation("unread location %d overwritten" % a)
                live.add(a)
                self.max_live = max(self.max_live, len(live))
                wq.append(a)
                n_wcmd += 1
            if w_dat_ready and (yield wp.wdata.valid):
                mem[wq.pop(0)] = (yield wp.wdata.data)
                n_wdone += 1
            if r_dat_valid and not self.stallable_rdata and not (yield rp.rdata.ready):
                raise Violation("read data dropped: rdata.valid while the reader is not ready")
            if r_dat_valid and (yield rp.rdata.ready):
                rq.pop(0)
                r_dat_valid = 0
            if r_cmd_ready and (yield rp.cmd.valid):
                a = (yield rp.cmd.addr)
                if (yield rp.cmd.we):
                    raise Violation("write command on read port")
                if a not in live:
                    raise Violation("location %d read while not holding data" % a)
                live.discard(a)
                rq.append([a, n_wcmd, None, cycle + prng.randrange(1, pr["lat"] + 1)])
            for r in rq:
                if r[2] is None and n_wdone >= r[1]:
                    r[2] = mem[r[0]]
            # drive next cycle
            w_cmd_ready = int(len(wq) < 4 and prng.random() < pr["p_cmd"])
            r_cmd_ready = int(len(rq) < 8 and prng.random() < pr["p_cmd"])
            w_dat_ready = int(len(wq) > 0 and prng.random() < pr["p_dat"])
            if not r_dat_valid and rq and rq[0][2] is not None and cycle >= rq[0][3]:
                r_dat_valid = 1
                yield rp.rdata.data.eq(rq[0][2])
            yield wp.cmd.ready.eq(w_cmd_ready)
            yield rp.cmd.ready.eq(r_cmd_ready)
            yield wp.wdata.ready.eq(w_dat_ready)
            yield rp.rdata.valid.eq(r_dat_valid)
            cycle += 1
            yield

    # monitor --------------------------------------------------------------------------------------
    def monitor(self):
        fifo = self.dut.fifo
        ctrl = fifo.dram_fifo.ctrl
        idle = 0
        fsm_state = 0
        for cycle in range(self.max_cycles):
            if hasattr(fifo, "fsm"):
                s = (yield fifo.fsm.state)
                if s == 0 and fsm_state != 0:  # BYPASS is the reset state (encoded 0)
                    self.mode_switches += 1
                fsm_state = s
            if (yield ctrl.level) > ctrl.depth:
                raise Violation("level above depth")
            if self.trace is not None:
                self.trace.append((
                    (yield fifo.sink.ready), (yield fifo.source.valid),
                    (yield fifo.source.data) if (yield fifo.source.valid) else 0,
                    (yield self.dut.write_port.cmd.valid), (yield self.dut.write_port.cmd.addr),
                    (yield self.dut.read_port.cmd.valid),  (yield self.dut.read_port.cmd.addr),
                    (yield self.dut.write_port.wdata.valid), (yield self.dut.read_port.rdata.ready),
                    (yield ctrl.level),
                ))
            if len(self.sent) == self.n and len(self.recv) >= self.n:
                idle += 1
                if idle > 64:  # also look for spurious extra words
                    self.done = True
                    return
            yield

    def run(self):
        run_simulation(self.dut, [self.producer(), self.consumer(), self.dram(), self.monitor()])
        if self.recv != self.sent[:len(self.recv)]:
            k = [a == b for a, b in zip(self.recv, self.sent)].index(False) \
                if len(self.recv) <= len(self.sent) else len(self.sent)
            raise Violation("output differs from input at word %d" % k)
        if not self.done or len(self.recv) != self.n:
            raise Violation("stream incomplete: sent %d received %d" % (len(self.sent), len(self.recv)))


PROFILES = {
    "fast_w":  dict(p_w=[1.0, 0.9], p_r=[0.1, 0.3, 0.0, 1.0], phase=200, p_cmd=0.8, p_dat=0.8, lat=3),
    "fast_r":  dict(p_w=[0.1, 0.3, 0.0, 1.0], p_r=[1.0, 0.9], phase=200, p_cmd=0.8, p_dat=0.8, lat=3),
    "mixed":   dict(p_w=[0.0, 0.2, 0.6, 1.0], p_r=[0.0, 0.2, 0.6, 1.0], phase=120, p_cmd=0.5, p_dat=0.5, lat=8),
    "slowmem": dict(p_w=[0.0, 0.5, 1.0], p_r=[0.0, 0.5, 1.0], phase=80, p_cmd=0.15, p_dat=0.2, lat=20),
    "ideal":   dict(p_w=[0.0, 0.5, 1.0], p_r=[0.0, 0.5, 1.0], phase=60, p_cmd=1.0, p_dat=1.0, lat=1),
}
# ---- end of common harness -----------------------------------------------------------------------


def load_module(name, source, **overrides):
    """Build a module object from source text (used for the embedded copy of the unmodified code)."""
    import types
    m = types.ModuleType(name)
    m.__dict__["__name__"] = name
    exec(compile(source, "<" + name + ">", "exec"), m.__dict__)
    m.__dict__.update(overrides)
    return m


def run_one(fifo_cls, cfg, profile, seed, n_words, max_cycles, stallable_rdata=True):
    dut   = DUT(fifo_cls, **cfg)
    trace = []
    bench = Bench(dut, seed, n_words, max_cycles, PROFILES[profile], trace=trace, stallable_rdata=stallable_rdata)
    try:
        bench.run()
        verdict = "ok"
    except Violation as e:
        verdict = "VIOLATION: " + str(e)
    return verdict, trace, bench


def lockstep(new_cls, orig_cls, cfg, profile, seed, n_words=250, max_cycles=6000, mask=None, stallable_rdata=True):
    """Same stimulus on the modified and on the unmodified FIFO: the cycle by cycle behaviour at the
    streams and at the DRAM ports must be identical. Where the unmodified FIFO is known to satisfy
    the property (no bypass, or bypass without width conversion) it must hold outright."""
    v_new, t_new, b_new = run_one(new_cls,  cfg, profile, seed, n_words, max_cycles, stallable_rdata)
    v_org, t_org, b_org = run_one(orig_cls, cfg, profile, seed, n_words, max_cycles, stallable_rdata)
    if mask is not None:
        t_new = [mask(t) for t in t_new]
        t_org = [mask(t) for t in t_org]
    same = (t_new == t_org) and (b_new.sent == b_org.sent) and (b_new.recv == b_org.recv) and (v_new == v_org)
    must_hold = (not cfg["with_bypass"]) or cfg["ratio"] == 1
    if not must_hold:
        # The unmodified FIFO itself can lose / duplicate words when it leaves DRAM mode with a
        # partially filled converter (data-width ratio > 1, pre-existing): there only the identity
        # with the unmodified behaviour is required.
        pass
    ok = same and (v_new == "ok" or not must_hold)
    print("%-8s seed=%-3d %s -> %s | cycles=%d max_live=%d returns_to_bypass=%d identical_to_unmodified=%s : %s" % (
        profile, seed, cfg, v_new, len(t_new), b_new.max_live, b_new.mode_switches, same, "PASS" if ok else "FAIL"), flush=True)
    return ok

# Verbatim copy of the unmodified litedram/frontend/fifo.py (reference for the lockstep comparison).
ORIG_FIFO_SRC = r'''#
# This file is part of LiteDRAM.
#
# Copyright (c) 2018-2021 Florent Kermarrec <florent@enjoy-digital.fr>
# Copyright (c) 2020 Antmicro <www.antmicro.com>
# SPDX-License-Identifier: BSD-2-Clause

import math

from migen import *

from litex.soc.interconnect import stream

from litedram.common import LiteDRAMNativePort
from litedram.frontend import dma

# Helpers ------------------------------------------------------------------------------------------

def _inc(signal, modulo):
    if modulo == 2**len(signal):
        return signal.eq(signal + 1)
    else:
        return If(signal == (modulo - 1),
            signal.eq(0)
        ).Else(
            signal.eq(signal + 1)
        )

# LiteDRAMFIFOCtrl ---------------------------------------------------------------------------------

class _LiteDRAMFIFOCtrl(Module):
    def __init__(self, base, depth):
        self.base  = base
        self.depth = depth
        self.level = Signal(max=depth+1)

        # # #

        # To write buffer
        self.writable      = Signal()
        self.write_address = Signal(max=depth)

        # From write buffer
        self.write = Signal()

        # To read buffer
        self.readable     = Signal()
        self.read_address = Signal(max=depth)

        # From read buffer
        self.read = Signal()

        # # #

        produce = self.write_address
        consume = self.read_address

        self.sync += [
            If(self.write,
                _inc(produce, depth)
            ),
            If(self.read,
                _inc(consume, depth)
            ),
            self.level.eq(self.level + self.write - self.read),
        ]

        self.comb += [
            self.writable.eq(self.level < depth),
            self.readable.eq(self.level > 0)
        ]

# LiteDRAMFIFOWriter -------------------------------------------------------------------------------

class _LiteDRAMFIFOWriter(Module):
    def __init__(self, data_width, port, ctrl, fifo_depth=16):
        self.sink = sink = stream.Endpoint([("data", data_width)])

        # # #

        self.submodules.writer = writer = dma.LiteDRAMDMAWriter(port, fifo_depth=fifo_depth)
        self.comb += [
            writer.sink.valid.eq(sink.valid & ctrl.writable),
            writer.sink.address.eq(ctrl.base + ctrl.write_address),
            writer.sink.data.eq(sink.data),
            If(writer.sink.valid & writer.sink.ready,
                sink.ready.eq(1),
                ctrl.write.eq(1)
            ),
        ]

# LiteDRAMFIFOReader -------------------------------------------------------------------------------

class _LiteDRAMFIFOReader(Module):
    def __init__(self, data_width, port, ctrl, fifo_depth=16):
        self.source = source = stream.Endpoint([("data", data_width)])

        # # #

        self.submodules.reader = reader = dma.LiteDRAMDMAReader(port, fifo_depth=fifo_depth)
        self.comb += [
            reader.sink.valid.eq(ctrl.readable),
            reader.sink.address.eq(ctrl.base + ctrl.read_address),
            If(reader.sink.valid & reader.sink.ready,
                ctrl.read.eq(1)
            )
        ]
        self.comb += reader.source.connect(source)

# _LiteDRAMFIFO ------------------------------------------------------------------------------------

class _LiteDRAMFIFO(Module):
    """LiteDRAM frontend that allows to use DRAM as a FIFO"""
    def __init__(self, data_width, base, depth, write_port, read_port,
        writer_fifo_depth = 16,
        reader_fifo_depth = 16):
        assert isinstance(write_port, LiteDRAMNativePort)
        assert isinstance(read_port,  LiteDRAMNativePort)
        self.sink   = stream.Endpoint([("data", data_width)])
        self.source = stream.Endpoint([("data", data_width)])

        # # #

        self.submodules.ctrl   = _LiteDRAMFIFOCtrl(base, depth)
        self.submodules.writer = _LiteDRAMFIFOWriter(data_width, write_port, self.ctrl, writer_fifo_depth)
        self.submodules.reader = _LiteDRAMFIFOReader(data_width, read_port,  self.ctrl, reader_fifo_depth)
        self.comb += [
            self.sink.connect(self.writer.sink),
            self.reader.source.connect(self.source)
        ]

# LiteDRAMFIFO -------------------------------------------------------------------------------------

class LiteDRAMFIFO(Module):
    """LiteDRAM FIFO with optional/automatic Bypass.


       Description
       -----------

                             ┌──────────┐        ┌──────────┐
                        Sink │   Pre-   │ Bypass │   Post-  │ Source
                    ─────────►   FIFO   ├────────►   FIFO   ├───────►
                             └────┬─────┘        └─────▲────┘
                                  │                    │
                             ┌────▼─────┐        ┌─────┴────┐
                             │   Pre-   │        │   Post-  │
                             │Converter │        │Converter │
                             └────┬─────┘        └─────▲────┘
                                  │                    │
                                  │  ┌─────────────┐   │
                                  │  │    DRAM     │   │
                                  └──►    FIFO     ├───┘
                                     └──────┬──────┘
                                            │
                                            ▼
                                          DRAM

       The DRAM FIFO allows creation of very large FIFO with storage in DRAM. The data-width of the
       input/output streams is automatically adapted to the DRAM's data-width with the Pre/Post con-
       verters and the module switches seamlessly between 2 modes:
       - 1) Bypass mode.
       - 2) DRAM mode.

       1) The module is initialized in Bypass mode, connecting the its Sink to its Source.
       Backpressure from the Source is propagated from the Source to the Post-FIFO, Pre-FIFO
       and the Sink.

                              ┌──────────┐        ┌──────────┐
                         Sink │   Pre-   │ Bypass │   Post-  │ Source
                     ─────────►   FIFO   ├────────►   FIFO   ├───────►
                              └──────────┘        └──────────┘
                                       Backpressure
                                  ◄─────────────────────

        Once the Post-FIFO is full and the Pre-FIFO has enough data to form a DRAM Word, the module
        switches to DRAM mode.

        2) In DRAM mode, the Bypass connection is disabled and Pre-FIFO's Source is redirected to
        Pre-Converter's Sink. Once Pre-Converter has a full DRAM word, the word can be written to the
        DRAM FIFO's Sink


                             ┌──────────┐        ┌──────────┐
                        Sink │   Pre-   │        │   Post-  │ Source
                    ─────────►   FIFO   │        │   FIFO   ├───────►
                             └────┬─────┘        └─────▲────┘
                                  │                    │
                             ┌────▼─────┐        ┌─────┴────┐
                             │   Pre-   │        │   Post-  │
                             │Converter │        │Converter │
                             └────┬─────┘        └─────▲────┘
                                  │                    │
                                  │  ┌─────────────┐   │
                                  │  │    DRAM     │   │
                                  └──►    FIFO     ├───┘
                                     └──────┬──────┘
                                            │
                                            ▼
                                          DRAM

        This data from DRAM FIFO will be generated back on the DRAM FIFO's Source and connected to
        the Post-Converter to re-generate the data with the correct data-width. Data will then be
        generated on the Source.

        Once we no longer have data in the Pre-Converter/DRAM FIFO/Post-Converter path and Pre-FIFO's
        level is below threshold, the modules switches back to Bypass mode.

    Parameters
    ----------
    data_width : int, in
        FIFO data-width.
    base : int, in
        FIFO base address in DRAM (bytes).
    depth: in, in
        FIFO depth (bytes).
    write_port: LiteDRAMNativePort
        DRAM Write port.
    read_port: LiteDRAMNativePort
        DRAM Read port.
    with_bypass: bool, in
        Automatic Bypass Mode Enable.
    """
    def __init__(self, data_width, base, depth, write_port, read_port, with_bypass=False,
        pre_fifo_depth  = 16,
        post_fifo_depth = 16):
        assert isinstance(write_port, LiteDRAMNativePort)
        assert isinstance(read_port,  LiteDRAMNativePort)
        self.sink   = stream.Endpoint([("data", data_width)])
        self.source = stream.Endpoint([("data", data_width)])

        # # #

        # Parameters.
        # -----------
        assert write_port.data_width == read_port.data_width
        port_data_width    = write_port.data_width
        port_address_width = write_port.address_width
        assert data_width <= port_data_width
        data_width_ratio = port_data_width//data_width
        if not with_bypass:
            assert data_width_ratio == 1
        fifo_base       = int(base/(port_data_width/8))
        fifo_depth      = int(depth/(port_data_width/8))
        pre_fifo_depth  = max( pre_fifo_depth, 2*data_width_ratio)
        post_fifo_depth = max(post_fifo_depth, 2*data_width_ratio)

        # Submodules.
        # -----------
        # Pre-FIFO.
        self.submodules.pre_fifo = pre_fifo = stream.SyncFIFO([("data", data_width)], pre_fifo_depth)

        # Pre-Converter.
        self.submodules.pre_converter = pre_converter = stream.Converter(data_width, port_data_width)

        # DRAM-FIFO.
        self.submodules.dram_fifo = dram_fifo = _LiteDRAMFIFO(
            data_width = port_data_width,
            base       = fifo_base,
            depth      = fifo_depth,
            write_port = write_port,
            read_port  = read_port,
        )

        # Post-Converter.
        self.submodules.post_converter = post_converter = stream.Converter(port_data_width, data_width)

        # Post-FIFO.
        self.submodules.post_fifo = post_fifo = stream.SyncFIFO([("data", data_width)], post_fifo_depth)

        # Data-Flow.
        # ----------
        dram_bypass          = Signal()
        dram_store           = Signal()
        dram_store_threshold = Signal()
        self.comb += [
            # Sink --> Pre-FIFO.
            self.sink.connect(pre_fifo.sink),

            # DRAM Threshold. We can only enable path to DRAM when we have enough data for a full
            # DRAM word.
            dram_store_threshold.eq(pre_fifo.level >= data_width_ratio),

            # Bypass / DRAM.
            If(with_bypass & dram_bypass,
                # Pre-FIFO --> Post-FIFO.
                pre_fifo.source.connect(post_fifo.sink),
            ).Else(
                # Pre-FIFO --> Pre-Converter.
                If(dram_store | (not with_bypass),
                    pre_fifo.source.connect(pre_converter.sink),
                ),
                # Post-Converter --> Post-FIFO.
                post_converter.source.connect(post_fifo.sink)
            ),

            # Pre-Converter --> DRAM-FIFO.
            pre_converter.source.connect(dram_fifo.sink),

            # DRAM-FIFO --> Post-Converter.
            dram_fifo.source.connect(post_converter.sink),

            # Post-FIFO --> Source.
            post_fifo.source.connect(self.source)
        ]

        # FSM.
        # ----
        if with_bypass:
            dram_first   = Signal()
            dram_inc     = Signal()
            dram_dec     = Signal()
            dram_cnt     = Signal(port_address_width)
            dram_inc_mod = Signal(max(int(math.log2(data_width_ratio)), 1))
            dram_dec_mod = Signal(max(int(math.log2(data_width_ratio)), 1))

            self.submodules.fsm = fsm = FSM(reset_state="BYPASS")
            fsm.act("BYPASS",
                dram_bypass.eq(1),
                # Switch to DRAM mode when enough data to store a DRAM word.
                If(dram_store_threshold,
                    NextValue(dram_first, 1),
                    NextValue(dram_cnt,   0),
                    NextState("DRAM")
                )
            )
            fsm.act("DRAM",
                # Store in DRAM.
                dram_store.eq(1),

                # Increment DRAM Word Count on Pre-Converter's Source cycle.
                If(pre_converter.source.valid & pre_converter.source.ready,
                    dram_inc.eq(1),
                    NextValue(dram_first, 0),
                ),
                If(pre_converter.sink.valid & pre_converter.sink.ready,
                    If(data_width_ratio > 1,
                        NextValue(dram_inc_mod, dram_inc_mod + 1),
                    )
                ),

                # Decrement DRAM Word Count on Post-Converter's Sink cycle.
                If(post_converter.sink.valid & post_converter.sink.ready,
                    dram_dec.eq(1),
                ),
                If(post_converter.source.valid & post_converter.source.ready,
                    If(data_width_ratio > 1,
                        NextValue(dram_dec_mod, dram_dec_mod + 1),
                    )
                ),

                # Maintain DRAM Word Count.
                NextValue(dram_cnt, dram_cnt + dram_inc - dram_dec),

                # Switch back to Bypass mode when no remaining DRAM word.
                If((dram_first == 0) & (dram_cnt == 0),
                    dram_store.eq(0),
                    If((dram_dec_mod == 0) & (dram_inc_mod == 0), 
                        NextState("BYPASS")
                    ).Else(
                        NextState("PUMP_PRECONVERTER"),
                        NextValue(dram_dec_mod, dram_inc_mod),
                    )
                )
            )
            fsm.act("PUMP_PRECONVERTER",
                pre_converter.source.connect(post_converter.sink),
                If(dram_inc_mod == 0,
                    NextState("DRAIN_POSTCONVERTER")
                ).Else(
                    pre_converter.sink.valid.eq(1),
                    If(pre_converter.source.valid & pre_converter.source.ready,
                        NextValue(dram_inc_mod, dram_inc_mod + 1),
                    )
                )
            )
            fsm.act("DRAIN_POSTCONVERTER",
                pre_converter.source.connect(post_converter.sink),
                If(dram_dec_mod == 0,
                    If(dram_inc_mod == 0,
                        NextState("BYPASS"),
                    ).Else(
                        NextState("PUMP_PRECONVERTER"),
                        NextValue(dram_dec_mod, dram_inc_mod),
                    ),
                ).Else(
                    If(post_converter.source.valid & post_converter.source.ready,
                        NextValue(dram_dec_mod, dram_dec_mod + 1),
                    )
                )
            )
'''

# ---- change 1: the FIFO controller keeps absolute DRAM address pointers --------------------------
import litedram.frontend.fifo as new_fifo

orig_fifo = load_module("orig_fifo", ORIG_FIFO_SRC)


def ctrl_lockstep(base, depth, seed, cycles=600):
    """_LiteDRAMFIFOCtrl alone, modified and unmodified in the same simulation, random legal
    write/read pulses: same level/flags/relative pointers, and the new absolute pointers equal the
    address the unmodified Writer/Reader compute (base + relative pointer), always inside
    [base, base + depth)."""
    class Pair(Module):
        def __init__(self):
            self.submodules.n = new_fifo._LiteDRAMFIFOCtrl(base, depth)
            self.submodules.o = orig_fifo._LiteDRAMFIFOCtrl(base, depth)
    dut  = Pair()
    prng = random.Random(seed)
    errors = []
    def gen():
        wr_ref = rd_ref = 0
        w = r = 0
        p_w, p_r = prng.choice([(0.9, 0.2), (0.2, 0.9), (0.5, 0.5), (1.0, 1.0)])
        for cycle in range(cycles):
            if cycle % 150 == 0:
                p_w, p_r = prng.choice([(0.9, 0.2), (0.2, 0.9), (0.5, 0.5), (1.0, 1.0)])
            n, o = dut.n, dut.o
            got = ((yield n.level), (yield n.writable), (yield n.readable),
                   (yield n.write_address), (yield n.read_address))
            exp = ((yield o.level), (yield o.writable), (yield o.readable),
                   (yield o.write_address), (yield o.read_address))
            wa, ra = (yield n.write_dram_address), (yield n.read_dram_address)
            if got != exp:
                errors.append("cycle %d: %r != %r" % (cycle, got, exp))
            if wa != base + exp[3] or ra != base + exp[4]:
                errors.append("cycle %d: absolute pointers %d/%d, expected %d/%d" % (
                    cycle, wa, ra, base + exp[3], base + exp[4]))
            if wa != base + wr_ref % depth or ra != base + rd_ref % depth:
                errors.append("cycle %d: pointers do not follow the reference model" % cycle)
            if not (base <= wa < base + depth and base <= ra < base + depth):
                errors.append("cycle %d: pointer out of range" % cycle)
            # Next pulses, legal as the Writer/Reader generate them: write only when writable, read
            # only when readable. The pulses are registered by the simulator, so the level they will
            # meet is the one seen now corrected by the pulses currently applied.
            level_next = got[0] + w - r
            wr_ref += w
            rd_ref += r
            w = int(level_next < depth and prng.random() < p_w)
            r = int(level_next > 0     and prng.random() < p_r)
            for c in (n, o):
                yield c.write.eq(w)
                yield c.read.eq(r)
            yield
    run_simulation(dut, gen())
    return errors


def main():
    ok = True

    # 1) Controller alone: many base/depth combinations (power of two or not, base 0 or not, base
    #    aligned or not; depth 1 is not constructible in the unmodified code either).
    n = 0
    for base in [0, 1, 3, 8, 16, 21, 100]:
        for depth in [2, 3, 4, 5, 7, 8, 12, 16, 31]:
            errors = ctrl_lockstep(base, depth, seed=base*100 + depth)
            n += 1
            if errors:
                ok = False
                print("ctrl base=%d depth=%d FAIL: %s" % (base, depth, errors[0]))
    print("controller lockstep: %d base/depth combinations checked" % n, flush=True)

    # 2) Full FIFO against the unmodified implementation and against the property.
    runs = [
        (dict(data_width=32, ratio=1, base_words=3,  depth_words=5,  with_bypass=False), "mixed"),
        (dict(data_width=32, ratio=1, base_words=0,  depth_words=4,  with_bypass=False), "fast_w"),
        (dict(data_width=16, ratio=1, base_words=7,  depth_words=2,  with_bypass=False), "ideal"),
        (dict(data_width=8,  ratio=1, base_words=16, depth_words=16, with_bypass=False), "slowmem"),
        (dict(data_width=16, ratio=1, base_words=5,  depth_words=8,  with_bypass=True),  "mixed"),
        (dict(data_width=16, ratio=1, base_words=0,  depth_words=3,  with_bypass=True),  "fast_w"),
        (dict(data_width=32, ratio=1, base_words=9,  depth_words=6,  with_bypass=True),  "fast_r"),
        (dict(data_width=8,  ratio=4, base_words=16, depth_words=6,  with_bypass=True),  "mixed"),
        (dict(data_width=8,  ratio=4, base_words=2,  depth_words=4,  with_bypass=True),  "fast_w"),
        (dict(data_width=16, ratio=2, base_words=1,  depth_words=3,  with_bypass=True),  "slowmem"),
    ]
    for i, (cfg, profile) in enumerate(runs):
        ok &= lockstep(new_fifo.LiteDRAMFIFO, orig_fifo.LiteDRAMFIFO, cfg, profile, seed=100 + i)

    print("RESULT:", "PASS" if ok else "FAIL")
    sys.exit(0 if ok else 1)


if __name__ == "__main__":
    main()
