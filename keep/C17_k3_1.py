#!/usr/bin/env python3
# Check for change 1: DDR4 clam-shell bottom-side address mirroring done by a table-driven helper
# (clam_shell_mirror / mirror_bits) instead of a hand-unrolled swap_bit() chain in the C emitter.
import os, re, sys, itertools, random
sys.path.insert(0, os.getcwd())

from litedram import init
from litedram.common import PhySettings, TimingSettings, GeomSettings
from litedram.init import (get_sdram_phy_init_sequence, get_sdram_phy_c_header,
    get_sdram_phy_py_header, cmds)

# Independent reference of the mirroring: pin permutation as a plain list of bits.
A_PERM  = {3: 4, 4: 3, 5: 6, 6: 5, 7: 8, 8: 7, 11: 13, 13: 11}
BA_PERM = {0: 1, 1: 0}
def ref_mirror(v, perm, nbits=20):
    r = 0
    for i in range(nbits):
        if (v >> i) & 1:
            r |= 1 << perm.get(i, i)
    return r

def ref_swap_chain(a, ba):
    # the original implementation
    a = init.swap_bit(a, 3, 4); a = init.swap_bit(a, 5, 6)
    a = init.swap_bit(a, 7, 8); a = init.swap_bit(a, 11, 13)
    return a, init.swap_bit(ba, 0, 1)

# 1) helper: exhaustive over 16-bit addresses x 4-bit bank addresses.
assert hasattr(init, "clam_shell_mirror"), "change 1 not applied"
for a in range(1 << 16):
    ba = a & 0xf
    m = init.clam_shell_mirror(a, ba)
    assert m == (ref_mirror(a, A_PERM), ref_mirror(ba, BA_PERM)), (a, ba, m)
    assert m == ref_swap_chain(a, ba)
    assert init.clam_shell_mirror(*m) == (a, ba)          # involution
    assert bin(m[0]).count("1") == bin(a).count("1")      # permutation

# 2) emitted headers over DDR4 configurations.
ddr4_cl_cwl = [(9, 9), (11, 9), (13, 10), (15, 11), (16, 12), (18, 14)]
CL_DEC = {0:9,1:10,2:11,3:12,4:13,5:14,6:15,7:16,8:18,9:20,10:22,11:24,12:23,13:17,14:19,15:21}
CWL_DEC = {0:9,1:10,2:11,3:12,4:14,5:16,6:18,7:20}
WR_DEC = {0:10,1:12,2:14,3:16,4:18,5:20,6:24,7:22,8:26,9:28}

def mk(cl, cwl, nphases, clam, rdimm, elec):
    ps = PhySettings(phytype="USDDRPHY", memtype="DDR4", databits=64, dfi_databits=128,
        nphases=nphases, rdphase=1, wrphase=2, cl=cl, cwl=cwl, read_latency=8, write_latency=2,
        is_clam_shell=clam, write_leveling=True, read_leveling=True, bitslips=8, delays=512)
    if elec:
        ps.add_electrical_settings(rtt_nom=elec[0], rtt_wr=elec[1], ron=elec[2])
    if rdimm:
        ps.set_rdimm(tck=2/(2*4*200e6), rcd_pll_bypass=False, rcd_ca_cs_drive=0x5,
            rcd_odt_cke_drive=0x5, rcd_clk_drive=0x5)
    return ps

def parse_c(h):
    body = h[h.index("static inline void init_sequence(void)"):]
    out = []
    for m in re.finditer(r"/\* (.*?) \*/\n\s*sdram_dfii_pi0_address_write\((0x[0-9a-f]+|0)\);\n"
                         r"\s*sdram_dfii_pi0_baddress_write\((\d+)\);\n\s*(\w+)\((.*?)\);\n(?:\s*cdelay\((\d+)\);)?", body):
        c, a, ba, fn, cmd, d = m.groups()
        out.append((c, int(a, 16), int(ba), fn, cmd, int(d) if d else 0))
    return out

geom = GeomSettings(bankbits=4, rowbits=15, colbits=10)
n = 0
for (cl, cwl), nphases, twtr, rdimm, elec, fine in itertools.product(
        ddr4_cl_cwl, [4], [1, 3, 4, 5], [False, True],
        [None, ("34ohm", "80ohm", "48ohm"), ("disabled", "disabled", "34ohm"), ("240ohm", "high-z", "34ohm")],
        ["1x", "2x", "4x"]):
    ts = TimingSettings(tRP=4, tRCD=4, tWR=4, tWTR=twtr, tREFI=780, tRFC=70, tFAW=6, tCCD=4,
        tRRD=2, tRC=12, tRAS=9, tZQCS=16)
    ts.fine_refresh_mode = fine
    ps_flat = mk(cl, cwl, nphases, False, rdimm, elec)
    ps_clam = mk(cl, cwl, nphases, True,  rdimm, elec)
    seq, mr = get_sdram_phy_init_sequence(ps_clam, ts)
    seq_flat, _ = get_sdram_phy_init_sequence(ps_flat, ts)
    assert seq == seq_flat

    # expected issued commands (A side / B side for RDIMM)
    issued = []
    for c, a, ba, cmd, d in seq:
        issued.append((c, a, ba, cmd, d))
        if rdimm and ba != 7:
            issued.append((c, a ^ 0b10101111111000, ba ^ 0b1111, cmd, d))

    flat = parse_c(get_sdram_phy_c_header(ps_flat, ts, geom))
    clam = parse_c(get_sdram_phy_c_header(ps_clam, ts, geom))
    assert len(flat) == len(issued)
    for (c, a, ba, fn, cmd, d), e in zip(flat, issued):
        assert (c, a, ba, cmd, d) == e, ((c, a, ba, cmd, d), e)

    it = iter(clam)
    for c, a, ba, cmd, d in issued:
        if cmd == cmds["MODE_REGISTER"]:
            top = next(it); bot = next(it)
            assert top == (c + " for top", a, ba, "command_p0", cmd + "|DFII_COMMAND_CS_TOP", d), top
            assert bot[0] == c + " for bottom" and bot[3:] == ("command_p0", cmd + "|DFII_COMMAND_CS_BOTTOM", d), bot
            # what the bottom chip sees on its own pins after the board mirroring == what the top chip sees
            assert (ref_mirror(bot[1], A_PERM), ref_mirror(bot[2], BA_PERM)) == (a, ba), (bot, a, ba)
            assert (bot[1], bot[2]) == ref_swap_chain(a, ba)
        else:
            x = next(it)
            assert x[:3] == (c, a, ba) and x[4] == cmd and x[5] == d, (x, c)
    assert next(it, None) is None

    # python header lists the same issued sequence
    env = {}
    exec(get_sdram_phy_py_header(ps_clam, ts), env)
    assert [(c, a, ba, d) for c, a, ba, _, d in env["init_sequence"]] == [(c, a, ba, d) for c, a, ba, _, d in issued]
    assert env["ddrx_mr1"] == mr[1]

    # JEDEC decode of the registers as seen by the (un-mirrored) bottom chip
    regs = {}
    for c, a, ba, cmd, d in seq:
        if cmd == cmds["MODE_REGISTER"] and ba != 7:
            ma, mba = init.clam_shell_mirror(a, ba)
            regs[ref_mirror(mba, BA_PERM)] = ref_mirror(ma, A_PERM)
    mr0, mr2 = regs[0], regs[2]
    assert mr0 & 3 == 0  # BL8
    assert CL_DEC[((mr0 >> 2) & 1) | (((mr0 >> 4) & 7) << 1) | (((mr0 >> 12) & 1) << 4)] == cl
    assert CWL_DEC[(mr2 >> 3) & 7] == cwl
    wr = WR_DEC[((mr0 >> 9) & 7) | (((mr0 >> 13) & 1) << 3)]
    assert wr == max(twtr*nphases, 10)
    n += 1

print("keep_1 OK:", n, "configurations")
