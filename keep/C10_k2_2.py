#!/usr/bin/env python3
# Check for change 2: LiteDRAMNativePortDownConverter (wider-Wishbone path of LiteDRAMWishbone2Native)
# keeps a running port_to address register + a down-counter instead of `cmd_addr*ratio + cmd_count`.
#
# 1. Lock-step equivalence: the REAL (modified) down-converter and an embedded copy of the original
#    one receive exactly the same random stimulus on all their inputs; every output is compared on
#    every cycle (ratios 2, 3, 4, 8; address widths with and without truncation on port_to).
# 2. End to end: random Wishbone traffic on a wide Wishbone bus (ratios 2, 4, 8; classic and burst CTI,
#    base addresses, random memory timing, aborted reads) through the REAL LiteDRAMWishbone2Native
#    against an in-order narrow native memory model and a byte-accurate reference model.
# 3. Exhaustive address check for small widths: each port_from command produces exactly `ratio`
#    port_to commands addr*ratio .. addr*ratio + ratio - 1, in order, with the right we.

import os
import sys
import random

sys.path.insert(0, os.getcwd())

from migen import *
from litex.gen.sim import run_simulation
from litex.soc.interconnect import wishbone

from litedram.common import LiteDRAMNativePort
from litedram.frontend.wishbone import LiteDRAMWishbone2Native
from litedram.frontend.adapter  import LiteDRAMNativePortDownConverter
from litex.soc.interconnect import stream

CTI_CLASSIC = 0b000
CTI_INC     = 0b010
CTI_END     = 0b111


class NativeMemory:
    """In-order native-port memory with random handshake timing."""
    def __init__(self, port, prng, p_cmd, p_wdata, p_rdata):
        self.port   = port
        self.prng   = prng
        self.p      = (p_cmd, p_wdata, p_rdata)
        self.mem    = {}
        self.nbytes = port.data_width//8
        self.ops    = []      # in-order: ["w", addr, data/None, we] or ["r", addr]
        self.rq     = []      # read data waiting to be returned
        self.n_rd   = 0
        self.n_wr   = 0
        self.errors = []

    def read(self, addr):
        return self.mem.get(addr, 0)

    def write(self, addr, data, we):
        v = self.read(addr)
        for b in range(self.nbytes):
            if (we >> b) & 1:
                v = (v & ~(0xff << (8*b))) | (data & (0xff << (8*b)))
        self.mem[addr] = v

    def _drain(self):
        while self.ops:
            op = self.ops[0]
            if op[0] == "w":
                if op[2] is None:
                    break
                self.write(op[1], op[2], op[3])
            else:
                self.rq.append(self.read(op[1]))
            self.ops.pop(0)

    @passive
    def handler(self):
        port, prng = self.port, self.prng
        p_cmd, p_wdata, p_rdata = self.p
        cmd_ready = wdata_ready = rdata_valid = 0
        while True:
            # Sample this cycle.
            if cmd_ready and (yield port.cmd.valid):
                addr = (yield port.cmd.addr)
                if (yield port.cmd.we):
                    self.ops.append(["w", addr, None, 0])
                    self.n_wr += 1
                else:
                    self.ops.append(["r", addr])
                    self.n_rd += 1
            if wdata_ready and (yield port.wdata.valid):
                for op in self.ops:
                    if op[0] == "w" and op[2] is None:
                        op[2] = (yield port.wdata.data)
                        op[3] = (yield port.wdata.we)
                        break
                else:
                    self.errors.append("wdata without command")
            if rdata_valid and (yield port.rdata.ready):
                self.rq.pop(0)
            self._drain()
            # Drive next cycle.
            cmd_ready   = int(prng.random() < p_cmd)
            wdata_ready = int(any(op[0] == "w" and op[2] is None for op in self.ops)
                              and prng.random() < p_wdata)
            rdata_valid = int(bool(self.rq) and prng.random() < p_rdata)
            yield port.cmd.ready.eq(cmd_ready)
            yield port.wdata.ready.eq(wdata_ready)
            yield port.rdata.valid.eq(rdata_valid)
            yield port.rdata.data.eq(self.rq[0] if rdata_valid else prng.getrandbits(port.data_width))
            yield


class Master:
    def __init__(self, wb, prng, n_access, adr_base, adr_span, p_abort, p_inc, tag):
        self.wb, self.prng = wb, prng
        self.n_access = n_access
        self.adr_base, self.adr_span = adr_base, adr_span
        self.p_abort, self.p_inc = p_abort, p_inc
        self.tag     = tag
        self.ref     = {}     # byte address (relative) -> value
        self.errors  = []
        self.expect  = False  # an access is presented in the current cycle
        self.n_acked = self.n_abort = self.n_rd_ok = 0
        self.done    = False

    def ref_read(self, adr, nbytes):
        return sum(self.ref.get(adr*nbytes + b, 0) << (8*b) for b in range(nbytes))

    def gen(self):
        wb, prng = self.wb, self.prng
        nbytes = len(wb.sel)
        dw     = len(wb.dat_w)
        cyc    = 0
        last_adr = 0
        for n in range(self.n_access):
            # Optional idle gap, with or without cyc.
            r = prng.random()
            if r < 0.25:
                cyc = 0 if prng.random() < 0.6 else cyc
                yield wb.cyc.eq(cyc)
                yield wb.stb.eq(0)
                yield wb.we.eq(prng.getrandbits(1))
                yield wb.adr.eq(self.adr_base + prng.randrange(self.adr_span))
                self.expect = False
                for _ in range(prng.choice([1, 1, 2, 3, 8])):
                    yield
                    if (yield wb.ack):
                        self.errors.append("%s: ack while idle (access %d)" % (self.tag, n))
            # New access.
            we  = prng.random() < 0.45
            if prng.random() < 0.5:
                adr = (last_adr + 1) % self.adr_span
            else:
                adr = prng.randrange(self.adr_span)
            last_adr = adr
            sel = prng.choice([2**nbytes - 1, 2**nbytes - 1, prng.getrandbits(nbytes)])
            dat = prng.getrandbits(dw)
            cti = CTI_INC if prng.random() < self.p_inc else prng.choice([CTI_CLASSIC, CTI_END])
            cyc = 1
            yield wb.cyc.eq(1)
            yield wb.stb.eq(1)
            yield wb.we.eq(int(we))
            yield wb.adr.eq(self.adr_base + adr)
            yield wb.sel.eq(sel)
            yield wb.dat_w.eq(dat)
            yield wb.cti.eq(cti)
            abort_at = prng.randrange(1, 12) if (not we and prng.random() < self.p_abort) else None  # reads only
            waited   = 0
            while True:
                yield
                waited += 1
                if (yield wb.ack):
                    self.n_acked += 1
                    if we:
                        for b in range(nbytes):
                            if (sel >> b) & 1:
                                self.ref[adr*nbytes + b] = (dat >> (8*b)) & 0xff
                    else:
                        got, exp = (yield wb.dat_r), self.ref_read(adr, nbytes)
                        if got != exp:
                            self.errors.append("%s: access %d read adr %d got %x expected %x" % (
                                self.tag, n, adr, got, exp))
                        else:
                            self.n_rd_ok += 1
                    break
                if abort_at is not None and waited >= abort_at:
                    # Drop the cycle before the acknowledge.
                    self.n_abort += 1
                    cyc = 0
                    yield wb.cyc.eq(0)
                    yield wb.stb.eq(0)
                    for _ in range(prng.choice([1, 1, 2, 5])):
                        yield
                        if (yield wb.ack):
                            self.errors.append("%s: ack after abort (access %d)" % (self.tag, n))
                    break
                if waited > 2000:
                    self.errors.append("%s: access %d never acknowledged" % (self.tag, n))
                    self.done = True
                    return
        # End: release the bus and let pending writes drain.
        yield wb.cyc.eq(0)
        yield wb.stb.eq(0)
        for _ in range(300):
            yield
            if (yield wb.ack):
                self.errors.append("%s: ack after the end" % self.tag)
        self.done = True


def run_one(wb_dw, port_dw, base_address, seed, n_access=250, p_abort=0.12, p_inc=0.6,
            timing=(0.6, 0.6, 0.5), words=3):
    prng  = random.Random(seed)
    ratio = max(port_dw//wb_dw, 1)
    wb    = wishbone.Interface(adr_width=30, data_width=wb_dw, addressing="word")
    port  = LiteDRAMNativePort("both", address_width=30, data_width=port_dw)
    dut   = Module()
    dut.submodules.bridge = LiteDRAMWishbone2Native(wb, port, base_address=base_address)
    tag   = "wb%d->port%d base=0x%x seed=%d" % (wb_dw, port_dw, base_address, seed)
    mem   = NativeMemory(port, prng, *timing)
    # Small window that straddles several wide words (start not aligned to a wide word on purpose).
    win0   = prng.randrange(4*ratio)
    master = Master(wb, prng, n_access, base_address//(wb_dw//8) + win0, words*ratio, p_abort, p_inc, tag)
    run_simulation(dut, [master.gen(), mem.handler()])
    errors = master.errors + mem.errors
    if not master.done:
        errors.append("%s: master did not finish" % tag)
    if mem.ops or mem.rq:
        errors.append("%s: memory left with pending operations" % tag)
    # Memory == acknowledged writes, byte exact.
    nb  = wb_dw//8
    pnb = port_dw//8
    exp = {}
    for badr, v in master.ref.items():
        byte = win0*nb + badr
        exp.setdefault(byte//pnb, {})[byte % pnb] = v
    for wadr in set(exp) | set(mem.mem):
        got = mem.read(wadr)
        for b in range(pnb):
            e = exp.get(wadr, {}).get(b, 0)
            if (got >> (8*b)) & 0xff != e:
                errors.append("%s: memory word %d byte %d = %02x, expected %02x" % (
                    tag, wadr, b, (got >> (8*b)) & 0xff, e))
                break
    return errors, master, mem



# Embedded copy of the ORIGINAL down-converter (reference for the lock-step comparison) ------------

class RefDownConverter(Module):
    def __init__(self, port_from, port_to, reverse=False):
        ratio = port_from.data_width//port_to.data_width
        mode  = port_from.mode

        cmd_count = Signal(max=ratio)
        cmd_addr  = Signal(len(port_from.cmd.addr))
        cmd_we    = Signal()

        self.submodules.fsm = fsm = FSM(reset_state="IDLE")
        fsm.act("IDLE",
            port_from.cmd.ready.eq(1),
            If(port_from.cmd.valid,
                NextValue(cmd_count, 0),
                NextValue(cmd_addr,  port_from.cmd.addr),
                NextValue(cmd_we,    port_from.cmd.we),
                NextState("CONVERT")
            )
        )
        fsm.act("CONVERT",
            port_to.cmd.valid.eq(1),
            port_to.cmd.we.eq(cmd_we),
            port_to.cmd.addr.eq(cmd_addr*ratio + cmd_count),
            If(port_to.cmd.ready,
                NextValue(cmd_count, cmd_count + 1),
                If(cmd_count == (ratio - 1),
                    NextState("IDLE")
                )
            )
        )

        wdata_converter = stream.StrideConverter(
            description_from = port_from.wdata.description,
            description_to   = port_to.wdata.description,
            reverse          = reverse)
        self.submodules += wdata_converter
        self.submodules += stream.Pipeline(port_from.wdata, wdata_converter, port_to.wdata)

        rdata_converter = stream.StrideConverter(
            description_from = port_to.rdata.description,
            description_to   = port_from.rdata.description,
            reverse          = reverse)
        self.submodules += rdata_converter
        self.submodules += stream.Pipeline(port_to.rdata, rdata_converter, port_from.rdata)


def lockstep(from_dw, to_dw, from_aw, to_aw, seed, cycles, p):
    prng = random.Random(seed)
    tag  = "lockstep %d->%d aw %d->%d seed %d" % (from_dw, to_dw, from_aw, to_aw, seed)
    pf = [LiteDRAMNativePort("both", address_width=from_aw, data_width=from_dw) for _ in range(2)]
    pt = [LiteDRAMNativePort("both", address_width=to_aw,   data_width=to_dw)   for _ in range(2)]
    dut = Module()
    dut.submodules.new = LiteDRAMNativePortDownConverter(pf[0], pt[0])
    dut.submodules.ref = RefDownConverter(pf[1], pt[1])
    errors = []
    stats  = {"cmds": 0}

    def outputs(i):
        return [
            ("from.cmd.ready",   pf[i].cmd.ready),
            ("to.cmd.valid",     pt[i].cmd.valid),
            ("to.cmd.we",        pt[i].cmd.we),
            ("to.cmd.addr",      pt[i].cmd.addr),
            ("to.cmd.last",      pt[i].cmd.last),
            ("from.wdata.ready", pf[i].wdata.ready),
            ("to.wdata.valid",   pt[i].wdata.valid),
            ("to.wdata.data",    pt[i].wdata.data),
            ("to.wdata.we",      pt[i].wdata.we),
            ("to.rdata.ready",   pt[i].rdata.ready),
            ("from.rdata.valid", pf[i].rdata.valid),
            ("from.rdata.data",  pf[i].rdata.data),
        ]

    def gen():
        cmd_valid = 0
        for cycle in range(cycles):
            # Compare all outputs of this cycle.
            a = outputs(0)
            b = outputs(1)
            for (name, sa), (_, sb) in zip(a, b):
                va, vb = (yield sa), (yield sb)
                if va != vb:
                    errors.append("%s: cycle %d %s new=%x ref=%x" % (tag, cycle, name, va, vb))
            if errors:
                return
            accepted = cmd_valid and (yield pf[0].cmd.ready)
            if (yield pt[0].cmd.valid) and (yield pt[0].cmd.ready):
                stats["cmds"] += 1
            # Same random stimulus on both.
            if not cmd_valid or accepted or prng.random() < 0.05:
                cmd_valid = int(prng.random() < p)
                cmd_we    = prng.getrandbits(1)
                cmd_addr  = prng.choice([prng.getrandbits(from_aw), 2**from_aw - 1, 0,
                                         prng.getrandbits(from_aw)])
                for i in range(2):
                    yield pf[i].cmd.valid.eq(cmd_valid)
                    yield pf[i].cmd.we.eq(cmd_we)
                    yield pf[i].cmd.addr.eq(cmd_addr)
            vals = [
                ("fw_valid", int(prng.random() < p)), ("fw_data", prng.getrandbits(from_dw)),
                ("fw_we", prng.getrandbits(from_dw//8)), ("fr_ready", int(prng.random() < 0.8)),
                ("tc_ready", int(prng.random() < p)), ("tw_ready", int(prng.random() < p)),
                ("tr_valid", int(prng.random() < p)), ("tr_data", prng.getrandbits(to_dw)),
            ]
            v = dict(vals)
            for i in range(2):
                yield pf[i].wdata.valid.eq(v["fw_valid"])
                yield pf[i].wdata.data.eq(v["fw_data"])
                yield pf[i].wdata.we.eq(v["fw_we"])
                yield pf[i].rdata.ready.eq(v["fr_ready"])
                yield pt[i].cmd.ready.eq(v["tc_ready"])
                yield pt[i].wdata.ready.eq(v["tw_ready"])
                yield pt[i].rdata.valid.eq(v["tr_valid"])
                yield pt[i].rdata.data.eq(v["tr_data"])
            yield

    run_simulation(dut, [gen()])
    if stats["cmds"] < cycles//8:
        errors.append("%s: too few commands (%d)" % (tag, stats["cmds"]))
    return errors, stats["cmds"]


def exhaustive_addresses(from_dw, to_dw, from_aw, to_aw):
    """Every port_from address, read and write: exactly `ratio` ordered port_to commands."""
    ratio = from_dw//to_dw
    tag   = "exhaustive %d->%d aw %d->%d" % (from_dw, to_dw, from_aw, to_aw)
    pf  = LiteDRAMNativePort("both", address_width=from_aw, data_width=from_dw)
    pt  = LiteDRAMNativePort("both", address_width=to_aw,   data_width=to_dw)
    dut = LiteDRAMNativePortDownConverter(pf, pt)
    prng   = random.Random(from_dw*1000 + to_aw)
    seen   = []
    errors = []
    state  = {"done": False}

    @passive
    def sink():
        ready = 0
        while True:
            if ready and (yield pt.cmd.valid):
                seen.append(((yield pt.cmd.we), (yield pt.cmd.addr)))
            ready = int(prng.random() < 0.6)
            yield pt.cmd.ready.eq(ready)
            yield

    def source():
        expected = []
        for addr in range(2**from_aw):
            for we in (0, 1):
                yield pf.cmd.valid.eq(1)
                yield pf.cmd.addr.eq(addr)
                yield pf.cmd.we.eq(we)
                yield
                while not (yield pf.cmd.ready):
                    yield
                expected += [(we, (addr*ratio + k) % 2**to_aw) for k in range(ratio)]
                if prng.random() < 0.3:
                    yield pf.cmd.valid.eq(0)
                    for _ in range(prng.randrange(1, 4)):
                        yield
        yield pf.cmd.valid.eq(0)
        for _ in range(8*ratio + 20):
            yield
        if seen != expected:
            k = next((i for i, (x, y) in enumerate(zip(seen, expected)) if x != y), min(len(seen), len(expected)))
            errors.append("%s: command stream differs at %d (%d seen / %d expected)" % (
                tag, k, len(seen), len(expected)))

    run_simulation(dut, [source(), sink()])
    return errors, len(seen)


def main():
    long   = "--long" in sys.argv
    errors = []
    # 1. lock-step equivalence.
    n_cmds = 0
    seed   = 0
    for from_dw, to_dw in [(16, 8), (24, 8), (32, 8), (128, 32), (64, 8)]:
        ratio = from_dw//to_dw
        for from_aw, to_aw, p in [(6, 6 + (ratio - 1).bit_length(), 0.9), (28, 32, 0.5), (10, 8, 0.7), (3, 3, 0.9)]:
            seed += 1
            errs, n = lockstep(from_dw, to_dw, from_aw, to_aw, seed, 6000 if long else 1500, p)
            errors += errs
            n_cmds += n
    print("lock-step: %d port_to commands compared, errors=%d" % (n_cmds, len(errors)))
    # 3. exhaustive addresses.
    n_seen = 0
    for from_dw, to_dw, from_aw, to_aw in [(16, 8, 7, 8), (32, 8, 6, 8), (64, 8, 5, 8), (24, 8, 6, 8),
                                           (32, 8, 7, 8), (64, 32, 8, 8), (64, 8, 6, 32)]:
        errs, n = exhaustive_addresses(from_dw, to_dw, from_aw, to_aw)
        errors += errs
        n_seen += n
    print("exhaustive: %d port_to commands checked, errors=%d" % (n_seen, len(errors)))
    # 2. end to end through LiteDRAMWishbone2Native.
    configs = [(16, 8), (32, 8), (64, 8), (64, 32), (128, 32), (64, 16)]
    bases   = [0x00000000, 0x10000000, 0x04000040]
    timings = [(1.0, 1.0, 1.0), (0.6, 0.6, 0.5), (0.25, 0.3, 0.2)]
    n_acc = n_abort = n_rd = n_runs = 0
    for wb_dw, port_dw in configs:
        for base in bases:
            for timing in timings:
                for p_abort in ([0.0, 0.15] if long else [0.1]):
                    seed += 1
                    errs, master, mem = run_one(wb_dw, port_dw, base, seed,
                        n_access=200 if long else 80, p_abort=p_abort, p_inc=0.4, timing=timing, words=6)
                    errors += errs
                    n_runs  += 1
                    n_acc   += master.n_acked
                    n_abort += master.n_abort
                    n_rd    += master.n_rd_ok
                    if errs:
                        print("\n".join(errs[:5]))
    print("end-to-end: runs=%d acknowledged=%d (reads checked=%d) aborted reads=%d errors=%d" % (
        n_runs, n_acc, n_rd, n_abort, len(errors)))
    if errors:
        print("\n".join(errors[:20]))
        print("FAIL")
        sys.exit(1)
    print("OK")

if __name__ == "__main__":
    main()
