"""keep_1 check (multiplexer: anti-starvation budget only runs while the opposite direction is waiting).

Run from the root of a tree with keep_1.diff applied. Drives the REAL code:
 * Multiplexer alone with persistent request stubs (requests held until accepted, like the bank
   machines): floods of one direction against isolated requests of the other, and random mixes, for
   nphases 1/2/4 and several read_time/write_time; every read/write request must be accepted within
   a bound that only depends on the configuration (the isolated request within budget + turnaround).
 * full system (crossbar + controller with the real bank machines, refresher, multiplexer) on a
   behavioural DFI DRAM model: adversarial / random port traffic, private-bank scenarios must keep
   offer->accept and accept->data latencies under configuration-only bounds, read data is checked,
   the DRAM model checks ACT/PRE/REF legality, and a monitor on the real direction FSM checks that
   READ (WRITE) is never kept longer than read_time (write_time) while a write (read) is waiting.
Exit status 0 = all good.
"""
# ---- shared harness (inlined in every keep_k.py) ---------------------------------------------------
# Full system: real LiteDRAMCrossbar + real LiteDRAMController (BankMachines, Multiplexer, Refresher)
# on top of a behavioural DFI memory model written as a simulation generator.
import os, sys, random, hashlib, math
sys.path.insert(0, os.getcwd())

from migen import *
from migen.sim import run_simulation

from litedram.common import PhySettings, GeomSettings, TimingSettings, burst_lengths
from litedram.core.controller import ControllerSettings, LiteDRAMController
from litedram.core.crossbar import LiteDRAMCrossbar


class System(Module):
    def __init__(self, nports, nphases=2, memtype="DDR2", depth=4, buffered=False, read_time=16,
                 write_time=8, auto_precharge=True, tccd=1, tfaw=None, read_latency=4,
                 write_latency=1, with_refresh=True, bankbits=2):
        rdphase, wrphase = (0, 0) if nphases == 1 else (nphases - 1, nphases - 2)
        phy = PhySettings(phytype="model", memtype=memtype, databits=8, dfi_databits=16,
            nphases=nphases, rdphase=rdphase, wrphase=wrphase, cl=2, cwl=2,
            read_latency=read_latency, write_latency=write_latency)
        geom   = GeomSettings(bankbits=bankbits, rowbits=13, colbits=10)
        timing = TimingSettings(tRP=2, tRCD=2, tWR=2, tWTR=2, tREFI=128, tRFC=5, tFAW=tfaw,
            tCCD=tccd, tRRD=2, tRC=6, tRAS=4, tZQCS=None)
        cs = ControllerSettings(cmd_buffer_depth=depth, cmd_buffer_buffered=buffered,
            read_time=read_time, write_time=write_time, with_auto_precharge=auto_precharge,
            with_refresh=with_refresh)
        self.phy, self.geom, self.timing, self.cs = phy, geom, timing, cs
        self.submodules.controller = LiteDRAMController(phy, geom, timing, 100e6, cs)
        self.submodules.crossbar   = LiteDRAMCrossbar(self.controller.interface)
        self.ports   = [self.crossbar.get_port() for _ in range(nports)]
        self.align   = int(math.log2(1 if memtype == "SDR" else burst_lengths[memtype])) \
                       if memtype != "SDR" else int(math.log2(nphases))
        self.colbits_p = geom.colbits - self.align
        self.bankbits  = bankbits
        self.dw        = phy.dfi_databits*nphases

    def addr(self, bank, row, col):
        return (row << (self.colbits_p + self.bankbits)) | (bank << self.colbits_p) | col


def default_data(key, dw):
    h = hashlib.md5(repr(key).encode()).digest()
    return int.from_bytes(h, "little") & (2**dw - 1)


def dfi_model(dut, log, ncycles):
    """Behavioural DRAM behind the DFI: open-row tracking + data storage."""
    dfi   = dut.controller.dfi
    phy   = dut.phy
    mem   = {}
    rows  = {}
    wr_q  = {}   # cycle -> key
    rd_q  = {}   # cycle -> key
    nph   = len(dfi.phases)
    dwp   = phy.dfi_databits
    rdv   = False
    for cyc in range(ncycles):
        # 1. capture the write data that is due this cycle
        if cyc in wr_q:
            key  = wr_q.pop(cyc)
            data = 0
            mask = 0
            for i, p in enumerate(dfi.phases):
                data |= (yield p.wrdata) << (i*dwp)
                mask |= (yield p.wrdata_mask) << (i*dwp//8)
            old = mem.get(key, default_data(key, dut.dw))
            new = 0
            for b in range(dut.dw//8):
                src = old if (mask >> b) & 1 else data
                new |= src & (0xff << (8*b))
            mem[key] = new
        # 2. decode commands
        ncas = 0
        for i, p in enumerate(dfi.phases):
            cas = not (yield p.cas_n)
            ras = not (yield p.ras_n)
            if not (cas or ras):
                continue
            we  = not (yield p.we_n)
            if (yield p.cs_n):
                continue
            a   = (yield p.address)
            ba  = (yield p.bank)
            if ras and not cas and not we:      # ACTIVATE
                assert rows.get(ba) is None, "cycle %d: ACTIVATE of bank %d with an open row" % (cyc, ba)
                rows[ba] = a
                log["act"] += 1
            elif ras and not cas and we:        # PRECHARGE
                if a & (1 << 10):
                    rows.clear()
                else:
                    rows.pop(ba, None)
            elif ras and cas and not we:        # REFRESH
                assert not rows, "cycle %d: REFRESH with open rows" % cyc
                log["refresh"] += 1
            elif cas and not ras:               # READ / WRITE
                ncas += 1
                assert rows.get(ba) is not None, "cycle %d: CAS to closed bank %d" % (cyc, ba)
                key = (ba, rows[ba], a & ~(1 << 10))
                if we:
                    assert (yield p.wrdata_en)
                    assert i == phy.wrphase
                    assert (cyc + phy.write_latency) not in wr_q
                    wr_q[cyc + phy.write_latency] = key
                else:
                    assert (yield p.rddata_en)
                    assert i == phy.rdphase
                    rd_q[cyc + phy.read_latency - 1] = key
                if a & (1 << 10):
                    rows.pop(ba, None)
        assert ncas <= 1
        # 3. drive read data (visible next cycle)
        if cyc in rd_q:
            key  = rd_q.pop(cyc)
            data = mem.get(key, default_data(key, dut.dw))
            log["reads"] += 1
            for i, p in enumerate(dfi.phases):
                yield p.rddata.eq((data >> (i*dwp)) & (2**dwp - 1))
                yield p.rddata_valid.eq(1)
            rdv = True
        elif rdv:
            for p in dfi.phases:
                yield p.rddata_valid.eq(0)
            rdv = False
        yield


def wdata_of(pid, seq, dw):
    return default_data(("w", pid, seq), dw)


class PortAgent:
    """Drives one native port from a schedule generator and records per-command timing."""
    def __init__(self, dut, pid, schedule):
        self.dut, self.pid, self.port = dut, pid, dut.ports[pid]
        self.schedule  = schedule      # iterator of (we, addr, gap_before)
        self.shadow    = {}
        self.offer_lat = []            # cycles from first valid to accept
        self.data_lat  = []            # cycles from accept to wdata.ready / rdata.valid
        self.wr_acc    = []            # accept cycle of writes not strobed yet
        self.rd_acc    = []            # (accept cycle, expected data)
        self.events    = []            # (cycle, kind) for the golden digest
        self.pending_since = None
        self.n_done    = 0

    def driver(self, ncycles):
        port, dut = self.port, self.dut
        cyc   = 0
        wseq  = 0      # writes accepted
        sseq  = 0      # strobes seen
        cur   = None
        nxt   = None
        wait  = 0
        exhausted = False
        yield port.wdata.valid.eq(1)
        yield port.wdata.we.eq(2**(dut.dw//8) - 1)
        yield port.wdata.data.eq(wdata_of(self.pid, 0, dut.dw))
        yield port.rdata.ready.eq(1)
        presented = False
        while cyc < ncycles:
            # ---- observe (values of this cycle)
            if presented and (yield port.cmd.ready):
                we, addr = cur
                self.offer_lat.append(cyc - self.pending_since)
                self.events.append((cyc, "A", we, addr))
                if we:
                    self.shadow[addr] = wdata_of(self.pid, wseq, dut.dw)
                    wseq += 1
                    self.wr_acc.append(cyc)
                else:
                    exp = self.shadow.get(addr)
                    self.rd_acc.append((cyc, addr, exp))
                cur, presented, self.pending_since = None, False, None
            if (yield port.wdata.ready):
                assert self.wr_acc, "port %d: wdata.ready without an accepted write (cycle %d)" % (self.pid, cyc)
                t = self.wr_acc.pop(0)
                self.data_lat.append(cyc - t)
                self.events.append((cyc, "W"))
                sseq += 1
                self.n_done += 1
                yield port.wdata.data.eq(wdata_of(self.pid, sseq, dut.dw))
            if (yield port.rdata.valid):
                assert self.rd_acc, "port %d: rdata.valid without an accepted read (cycle %d)" % (self.pid, cyc)
                t, addr, exp = self.rd_acc.pop(0)
                got = (yield port.rdata.data)
                if exp is None:
                    # never written by this port: the model default (address regions are private)
                    pass
                else:
                    assert got == exp, "port %d: read of %x returned %x, expected %x (cycle %d)" % (
                        self.pid, addr, got, exp, cyc)
                self.data_lat.append(cyc - t)
                self.events.append((cyc, "R", got))
                self.n_done += 1
            # ---- drive (takes effect next cycle)
            if cur is None:
                if nxt is None and not exhausted:
                    nxt = next(self.schedule, None)
                    if nxt is None:
                        exhausted = True
                    else:
                        wait = nxt[2]
                if nxt is not None:
                    if wait == 0:
                        cur, nxt = (nxt[0], nxt[1]), None
                    else:
                        wait -= 1
                if cur is not None:
                    yield port.cmd.valid.eq(1)
                    yield port.cmd.we.eq(cur[0])
                    yield port.cmd.addr.eq(cur[1])
                    presented = True
                    self.pending_since = cyc + 1
                else:
                    yield port.cmd.valid.eq(0)
            yield
            cyc += 1
        self.end_cycle = cyc
# ---- traffic schedules + runner (inlined in every keep_k.py) --------------------------------------
def sched(dut, pid, kind, rng, n):
    """Adversarial / random schedules. Every port owns a private set of columns (col % 8 == pid), so
    that the data a port reads back only depends on its own program order."""
    nb = 2**dut.bankbits
    def col():
        return (rng.randrange(8) << 3) | pid
    own = pid % nb
    if kind == "own_w":           # continuous writes to the port's private bank, one row
        for _ in range(n):
            yield 1, dut.addr(own, 1, col()), 0
    elif kind == "own_r":
        for _ in range(n):
            yield 0, dut.addr(own, 1, col()), 0
    elif kind == "own_altrows_w": # continuous writes to the private bank, alternating rows
        for i in range(n):
            yield 1, dut.addr(own, 2 + (i & 1), col()), 0
    elif kind == "own_altrows_r":
        for i in range(n):
            yield 0, dut.addr(own, 2 + (i & 1), col()), 0
    elif kind == "own_random":    # random direction / row / gaps, private bank
        for _ in range(n):
            gap = rng.choice([0, 0, 0, 0, 1, 2, 5, 17])
            yield int(rng.random() < 0.5), dut.addr(own, rng.randrange(3), col()), gap
    elif kind == "own_sparse_r":  # isolated reads on the private bank
        for _ in range(n):
            yield 0, dut.addr(own, rng.randrange(2), col()), rng.randrange(0, 30)
    elif kind == "own_sparse_w":
        for _ in range(n):
            yield 1, dut.addr(own, rng.randrange(2), col()), rng.randrange(0, 30)
    elif kind == "hammer_w":        # continuous writes, one bank, one row
        for _ in range(n):
            yield 1, dut.addr(0, 1, col()), 0
    elif kind == "hammer_r":      # continuous reads, one bank, one row
        for _ in range(n):
            yield 0, dut.addr(0, 1, col()), 0
    elif kind == "altrows_w":     # continuous writes, one bank, alternating rows
        for i in range(n):
            yield 1, dut.addr(0, 2 + (i & 1), col()), 0
    elif kind == "altrows_r":
        for i in range(n):
            yield 0, dut.addr(0, 2 + (i & 1), col()), 0
    elif kind == "sweep_w":       # continuous writes walking over the banks
        for i in range(n):
            yield 1, dut.addr(i % nb, 1, col()), 0
    elif kind == "sweep_r":
        for i in range(n):
            yield 0, dut.addr(i % nb, 1, col()), 0
    elif kind == "bursty":        # bursts to one bank, then a pause that lets the bank drain
        i = 0
        while i < n:
            b, r, we = rng.randrange(nb), rng.randrange(3), rng.random() < 0.5
            ln = rng.randrange(1, 9)
            for k in range(ln):
                yield int(we), dut.addr(b, r, col()), (rng.randrange(0, 40) if k == 0 else 0)
            i += ln
    elif kind == "random":
        for _ in range(n):
            gap = rng.choice([0, 0, 0, 1, 2, 5, 17])
            yield int(rng.random() < 0.5), dut.addr(rng.randrange(nb), rng.randrange(3), col()), gap
    elif kind == "victim_r":      # sparse single reads on its own bank
        for _ in range(n):
            yield 0, dut.addr(nb - 1, rng.randrange(2), col()), rng.randrange(0, 12)
    elif kind == "victim_w":
        for _ in range(n):
            yield 1, dut.addr(nb - 1, rng.randrange(2), col()), rng.randrange(0, 12)
    elif kind == "victim_rw":     # write then read back, own bank
        for _ in range(n):
            a = dut.addr(nb - 1, rng.randrange(2), col())
            yield 1, a, rng.randrange(0, 12)
            yield 0, a, rng.randrange(0, 3)
    else:
        raise ValueError(kind)


def run(cfg, kinds, seed, ncycles, extra_generators=None, n=10**9):
    rng    = random.Random(seed)
    dut    = System(nports=len(kinds), **cfg)
    log    = {"act": 0, "refresh": 0, "reads": 0}
    agents = [PortAgent(dut, i, sched(dut, i, k, random.Random(rng.random()), n)) for i, k in enumerate(kinds)]
    gens   = [dfi_model(dut, log, ncycles)] + [a.driver(ncycles) for a in agents]
    for g in (extra_generators or []):
        gens.append(g(dut, ncycles))
    run_simulation(dut, gens)
    return dut, agents, log


def digest(agents):
    h = hashlib.sha256()
    for a in agents:
        h.update(repr(a.events).encode())
    return h.hexdigest()[:16]
# ---- scenarios -------------------------------------------------------------------------------------
SDR  = dict(nphases=1, memtype="SDR")
DDR3 = dict(nphases=4, memtype="DDR3", buffered=True, tccd=2, tfaw=10)

# (name, cfg, kinds, seed, ncycles, private_banks)
SCENARIOS = [
    ("P1", dict(),                                ["own_w", "own_r", "own_altrows_w", "own_sparse_r"], 11, 1000, True),
    ("P2", dict(SDR, depth=2),                    ["own_r", "own_r", "own_sparse_w"],                  12, 1000, True),
    ("P3", dict(DDR3),                            ["own_altrows_r", "own_w", "own_random"],            13, 1000, True),
    ("P4", dict(depth=1, read_time=4, write_time=4), ["own_random", "own_random", "own_random"],       14, 1000, True),
    ("P5", dict(auto_precharge=False, read_time=8, write_time=24), ["own_w", "own_w", "own_sparse_r"], 15, 1000, True),
    ("P6", dict(DDR3, depth=8, auto_precharge=False), ["own_r", "own_altrows_w", "own_sparse_w", "own_random"], 16, 1000, True),
    ("S1", dict(),                                ["random", "random", "random"],                      21, 1000, False),
    ("S2", dict(buffered=True),                   ["hammer_w", "victim_r", "bursty"],                  22, 1000, False),
    ("S3", dict(SDR),                             ["hammer_r", "victim_w", "bursty"],                  23, 1000, False),
    ("S4", dict(DDR3),                            ["altrows_w", "altrows_r", "random"],                24, 1000, False),
    ("S5", dict(depth=2),                         ["sweep_w", "sweep_r", "victim_rw"],                 25, 1000, False),
    ("S6", dict(depth=0),                         ["random", "bursty", "sweep_r"],                     26, 1000, False),
]


def stats(agents, ncycles):
    offer, data = 0, 0
    for a in agents:
        offer = max([offer] + a.offer_lat)
        data  = max([data] + a.data_lat)
        if a.pending_since is not None:
            offer = max(offer, ncycles - a.pending_since)
        for t in a.wr_acc[:1]:
            data = max(data, ncycles - t)
        for t in a.rd_acc[:1]:
            data = max(data, ncycles - t[0])
    return offer, data, sum(a.n_done for a in agents)
# ---- keep_1 specific: stub-level Multiplexer liveness + direction-FSM monitor -------------------------
from litex.soc.interconnect import stream
from litedram.common import cmd_request_rw_layout, LiteDRAMInterface
from litedram.phy import dfi as dfi_mod
from litedram.core.multiplexer import Multiplexer
from litedram.core.bankmachine import BankMachine


class _BMStub:
    def __init__(self, a, ba):
        self.cmd = stream.Endpoint(cmd_request_rw_layout(a=a, ba=ba))
        self.refresh_req = Signal()
        self.refresh_gnt = Signal()


class _RefStub:
    def __init__(self, a, ba):
        self.cmd = stream.Endpoint(cmd_request_rw_layout(a=a, ba=ba))


class MuxDUT(Module):
    def __init__(self, nphases, read_time, write_time, tccd, bankbits=2, read_latency=5):
        rdphase, wrphase = (0, 0) if nphases == 1 else (nphases - 1, nphases - 2)
        phy = PhySettings(phytype="model", memtype="DDR2", databits=8, dfi_databits=16,
            nphases=nphases, rdphase=rdphase, wrphase=wrphase, cl=2, cwl=2,
            read_latency=read_latency, write_latency=1)
        geom   = GeomSettings(bankbits=bankbits, rowbits=13, colbits=10)
        timing = TimingSettings(tRP=2, tRCD=2, tWR=2, tWTR=2, tREFI=128, tRFC=5, tFAW=None,
            tCCD=tccd, tRRD=2, tRC=6, tRAS=4, tZQCS=None)
        cs = ControllerSettings(read_time=read_time, write_time=write_time)
        cs.phy, cs.geom, cs.timing = phy, geom, timing
        self.settings = cs
        self.bms  = [_BMStub(geom.addressbits, bankbits) for _ in range(2**bankbits)]
        self.ref  = _RefStub(geom.addressbits, bankbits)
        self.dfi  = dfi_mod.Interface(geom.addressbits, bankbits, 1, 16, nphases)
        self.itf  = LiteDRAMInterface(2, cs)
        self.submodules.multiplexer = Multiplexer(cs, self.bms, self.ref, self.dfi, self.itf)


KIND = {  # cas ras we is_cmd is_read is_write
    "r": (1, 0, 0, 0, 1, 0),
    "w": (1, 0, 1, 0, 0, 1),
    "a": (0, 1, 0, 1, 0, 0),
    "p": (0, 1, 1, 1, 0, 0),
}


def mux_traffic(dut, policy, rng, ncycles, waits):
    """Persistent requests (valid held until accepted, like the real bank machines)."""
    n       = len(dut.bms)
    pending = [None]*n      # kind
    since   = [0]*n
    idle    = [0]*n
    for cyc in range(ncycles):
        for i, bm in enumerate(dut.bms):
            if pending[i] is not None and (yield bm.cmd.ready):
                waits[pending[i]].append((cyc - since[i], i, cyc))
                pending[i] = None
                idle[i]    = policy(i, n, rng, "gap")
                yield bm.cmd.valid.eq(0)
                for f in ["cas", "ras", "we", "is_cmd", "is_read", "is_write"]:
                    yield getattr(bm.cmd, f).eq(0)
        for i, bm in enumerate(dut.bms):
            if pending[i] is None:
                if idle[i] > 0:
                    idle[i] -= 1
                    continue
                k = policy(i, n, rng, "kind")
                if k is None:
                    continue
                pending[i], since[i] = k, cyc + 1
                yield bm.cmd.valid.eq(1)
                for f, v in zip(["cas", "ras", "we", "is_cmd", "is_read", "is_write"], KIND[k]):
                    yield getattr(bm.cmd, f).eq(v)
        yield
    for i in range(n):
        if pending[i] is not None:
            waits[pending[i]].append((ncycles - since[i], i, ncycles))


def pol_flood(flood, lone):
    # every bank but the last floods `flood`, the last one issues isolated `lone` requests
    def policy(i, n, rng, what):
        if what == "gap":
            return 0 if i != n - 1 else rng.randrange(0, 60)
        return flood if i != n - 1 else lone
    return policy


def pol_flood_same(flood, lone):
    # all banks flood `flood`; bank 0 sometimes wants `lone` instead
    def policy(i, n, rng, what):
        if what == "gap":
            return 0
        if i == 0 and rng.random() < 0.3:
            return lone
        return flood
    return policy


def pol_random(i, n, rng, what):
    if what == "gap":
        return rng.choice([0, 0, 0, 1, 3, 9])
    return rng.choice("rrrwwwap")


def mux_case(args):
    nphases, rt, wt, tccd, polname, seed, ncycles = args
    pol = {"rflood_w": pol_flood("r", "w"), "wflood_r": pol_flood("w", "r"),
           "rflood_same": pol_flood_same("r", "w"), "wflood_same": pol_flood_same("w", "r"),
           "random": pol_random}[polname]
    dut   = MuxDUT(nphases, rt, wt, tccd)
    waits = {"r": [], "w": [], "a": [], "p": []}
    run_simulation(dut, [mux_traffic(dut, pol, random.Random(seed), ncycles, waits)])
    nb    = len(dut.bms)
    twtr  = 2 + math.ceil(2/nphases) + tccd   # tWTR + ceil(cwl/nphases) + tCCD as in the multiplexer
    rl    = dut.settings.phy.read_latency
    # Budgets are chosen >= one full round of the chooser (nb*tCCD). A request that just missed its
    # turn waits at most: rest of its own window + turnaround + the opposite window + turnaround +
    # one round of the round-robin chooser.
    assert min(rt, wt) >= nb*tccd + 2
    bound_w = bound_r = rt + wt + rl + twtr + nb*tccd + 8
    mw = max([w[0] for w in waits["w"]] or [0])
    mr = max([w[0] for w in waits["r"]] or [0])
    mc = max([w[0] for w in waits["a"] + waits["p"]] or [0])
    ok = mw <= bound_w and mr <= bound_r and mc <= 4*nb + 8
    ok = ok and len(waits["w"]) > 5 and len(waits["r"]) > 5
    # the isolated request facing a flood of the opposite direction: served within the flood's budget
    # (counted from the cycle it became available) + the turnaround
    if polname == "rflood_w":
        ok = ok and mw <= rt + rl + 6
    if polname == "wflood_r":
        ok = ok and mr <= wt + twtr + 6
    return ok, "mux nph=%d rt=%d wt=%d tccd=%d %-11s: max wait w=%d (<=%d, n=%d) r=%d (<=%d, n=%d) cmd=%d" % (
        nphases, rt, wt, tccd, polname, mw, bound_w, len(waits["w"]), mr, bound_r, len(waits["r"]), mc)


def fsm_monitor(dut, ncycles):
    """Real system: a direction is never kept for more than its time budget while the opposite
    direction has a request waiting at the multiplexer."""
    mux   = dut.controller.multiplexer
    bms   = [m for _, m in dut.controller._submodules if isinstance(m, BankMachine)]
    assert len(bms) == 2**dut.bankbits
    dec   = mux.fsm.decoding
    run_r = run_w = 0
    worst = dut.fsm_worst = [0, 0]
    for cyc in range(ncycles):
        st = dec[(yield mux.fsm.state)]
        wa = ra = 0
        for bm in bms:
            wa |= (yield bm.cmd.is_write) & (yield bm.cmd.valid)
            ra |= (yield bm.cmd.is_read) & (yield bm.cmd.valid)
        run_r = run_r + 1 if (st == "READ" and wa) else 0
        run_w = run_w + 1 if (st == "WRITE" and ra) else 0
        worst[0], worst[1] = max(worst[0], run_r), max(worst[1], run_w)
        assert run_r <= dut.cs.read_time, "cycle %d: READ kept %d cycles with a write waiting" % (cyc, run_r)
        assert run_w <= dut.cs.write_time, "cycle %d: WRITE kept %d cycles with a read waiting" % (cyc, run_w)
        yield
# ---- main ------------------------------------------------------------------------------------------
import multiprocessing, time, traceback

MUX = []
_seed = 100
for _nph, _tccd in [(1, 1), (2, 2), (4, 1)]:
    for _rt, _wt in [(16, 12), (12, 24), (10, 10)]:
        for _pol in ["rflood_w", "wflood_r", "rflood_same", "wflood_same", "random"]:
            _seed += 1
            MUX.append((_nph, _rt, _wt, _tccd, _pol, _seed, 1500))

FSM_MONITORED = {"P1", "P4", "P5", "S1", "S4"}


def system_case(sc):
    name, cfg, kinds, seed, n, private = sc
    try:
        extra = [fsm_monitor] if name in FSM_MONITORED else []
        dut, agents, log = run(cfg, kinds, seed, n, extra_generators=extra)
    except Exception:
        return False, "system %s: %s" % (name, traceback.format_exc())
    offer, data, done = stats(agents, n)
    per = dut.cs.read_time + dut.cs.write_time + 40
    data_bound  = (dut.cs.cmd_buffer_depth + 3)*per
    offer_bound = 2*per
    ok = data <= data_bound and done > 50 and log["refresh"] >= 5
    if private:
        # with private banks nothing but the multiplexer can delay a port: both latencies are bounded
        ok = ok and offer <= offer_bound and all(a.n_done > 8 for a in agents)
    msg = "system %s: done=%d max offer->accept=%d%s max accept->data=%d (<=%d) refreshes=%d" % (
        name, done, offer, " (<=%d)" % offer_bound if private else " (shared banks: not bounded upstream either)",
        data, data_bound, log["refresh"])
    if name in FSM_MONITORED:
        msg += " longest READ/WRITE run with opposite direction waiting=%d/%d (<=%d/%d)" % (
            dut.fsm_worst[0], dut.fsm_worst[1], dut.cs.read_time, dut.cs.write_time)
    return ok, msg


def _dispatch(job):
    return mux_case(job[1]) if job[0] == "mux" else system_case(job[1])


if __name__ == "__main__":
    t0   = time.time()
    jobs = [("sys", sc) for sc in SCENARIOS] + [("mux", m) for m in MUX]
    bad  = 0
    with multiprocessing.Pool(min(8, os.cpu_count() or 2)) as pool:
        for ok, msg in pool.imap(_dispatch, jobs):
            print("ok  " if ok else "FAIL", msg, flush=True)
            bad += not ok
    print("%d jobs, %d failed, %.0f s" % (len(jobs), bad, time.time() - t0))
    sys.exit(1 if bad else 0)
