# Check for change 2: randomised AXI traffic on the real LiteDRAMAXI2Native against a reference memory
# (regime A) and cycle-exact comparison with the unmodified implementation (regimes A and B).
import os, sys, random
sys.path.insert(0, os.getcwd())

from migen import *
from litedram.common import LiteDRAMNativePort
from litedram.frontend.axi import LiteDRAMAXIPort, LiteDRAMAXI2Native
from litex.soc.interconnect.axi import BURST_FIXED, BURST_INCR, BURST_WRAP

MEM_BYTES = 1024  # two halves of 512 bytes


def beat_addrs(b):
    nb = 1 << b["size"]
    n  = b["len"] + 1
    if b["type"] == BURST_FIXED:
        return [b["addr"]]*n
    if b["type"] == BURST_INCR:
        return [b["addr"] + i*nb for i in range(n)]
    total = nb*n
    lo = b["addr"]//total*total
    r, a = [], b["addr"]
    for _ in range(n):
        r.append(a)
        a += nb
        if a >= lo + total:
            a = lo
    return r


def gen_burst(rng, base, lo, span, narrow, wrap):
    typ = rng.choice([BURST_INCR, BURST_INCR, BURST_FIXED] + ([BURST_WRAP] if wrap else []))
    size = rng.choice([0, 1, 2]) if (narrow and rng.random() < 0.3) else 2
    nb = 1 << size
    if typ == BURST_WRAP:
        ln = rng.choice([1, 3, 7, 15])
    elif typ == BURST_FIXED:
        ln = rng.randrange(0, 4)
    else:
        ln = rng.randrange(0, 40) if rng.random() < 0.15 else rng.randrange(0, 9)
    total = (ln + 1)*nb
    off = rng.randrange(0, (span - total)//nb + 1)*nb
    return dict(addr=base + lo + off, type=typ, len=ln, size=size, id=rng.randrange(256))


def run(seed, w_depth=16, r_depth=16, base_address=0, rmw=False, narrow=False, wrap=True,
        p_partial=0.3, stalls=None, nepochs=6, nper=6, w_after_aw=False, max_cycles=60000):
    rng = random.Random(seed)
    st = dict(aw=0, w=0, b=0, ar=0, r=0, cmd=0, wdata=0, rdata=0)
    if stalls:
        st.update(stalls)
    axi  = LiteDRAMAXIPort(data_width=32, address_width=32, id_width=8)
    port = LiteDRAMNativePort("both", 32, 32)
    dut  = LiteDRAMAXI2Native(axi, port, w_buffer_depth=w_depth, r_buffer_depth=r_depth,
        base_address=base_address, with_read_modify_write=rmw)

    ref    = [0]*MEM_BYTES             # AXI-level reference (bytes)
    mem    = [0]*(MEM_BYTES//4)        # native memory (words)
    errors = []
    c = dict(aw_q=[], w_q=[], ar_q=[], b_exp=[], r_exp=[], aw_acc=0, wdata_n=0, beats_cum=[], b_n=0, cycles=0, done=False)

    trace = []
    def err(m):
        if len(errors) < 10:
            errors.append("cycle %d: %s" % (c["cycles"], m))

    def driver(ch, q, fields, stall, gate=None, on_acc=None):
        r = random.Random(rng.random())
        cur = None
        while True:
            if cur is not None and (yield ch.valid) and (yield ch.ready):
                cur = None
                if on_acc: on_acc()
                yield ch.valid.eq(0)
            if cur is None and q and r.randrange(100) >= stall and (gate is None or gate(q[0])):
                cur = q.pop(0)
                for f in fields:
                    yield getattr(ch, f).eq(cur[f])
                yield ch.valid.eq(1)
            yield

    def b_mon():
        r = random.Random(rng.random())
        while True:
            if (yield axi.b.valid) and (yield axi.b.ready):
                if not c["b_exp"]:
                    err("unexpected B")
                else:
                    _id = c["b_exp"].pop(0)
                    trace.append(("b", c["cycles"], (yield axi.b.id)))
                    if (yield axi.b.id) != _id: err("B id %d != %d" % ((yield axi.b.id), _id))
                    if (yield axi.b.resp) != 0: err("B resp")
                    if c["wdata_n"] < c["beats_cum"][c["b_n"]]: err("B before data handed to memory")
                    c["b_n"] += 1
            yield axi.b.ready.eq(r.randrange(100) >= st["b"])
            yield

    def r_mon():
        r = random.Random(rng.random())
        while True:
            if (yield axi.r.valid) and (yield axi.r.ready):
                if not c["r_exp"]:
                    err("unexpected R")
                else:
                    data, mask, _id, last = c["r_exp"].pop(0)
                    d = (yield axi.r.data)
                    trace.append(("r", c["cycles"], d, (yield axi.r.id), (yield axi.r.last)))
                    if (d & mask) != (data & mask): err("R data %08x != %08x (mask %08x)" % (d, data, mask))
                    if (yield axi.r.id) != _id: err("R id")
                    if (yield axi.r.last) != last: err("R last")
                    if (yield axi.r.resp) != 0: err("R resp")
            yield axi.r.ready.eq(r.randrange(100) >= st["r"])
            yield

    def native():
        # In-order pipelined native memory model.
        r = random.Random(rng.random())
        ops  = []   # accepted commands, in order: [we, addr]
        rets = []   # read data to return
        rvalid = 0
        while True:
            # Sample current cycle.
            if (yield port.cmd.valid) and (yield port.cmd.ready):
                a = (yield port.cmd.addr)
                if a >= len(mem): err("native addr out of range %x" % a)
                ops.append([(yield port.cmd.we), a % len(mem)])
                trace.append(("c", c["cycles"], ops[-1][0], a, (yield port.cmd.last)))
            if (yield port.wdata.valid) and (yield port.wdata.ready):
                wops = [o for o in ops if o[0]]
                if not wops:
                    err("write data handed over without a command")
                else:
                    o = wops[0]
                    d, we = (yield port.wdata.data), (yield port.wdata.we)
                    trace.append(("w", c["cycles"], d, we))
                    for i in range(4):
                        if (we >> i) & 1:
                            mem[o[1]] = (mem[o[1]] & ~(0xff << 8*i)) | (d & (0xff << 8*i))
                    ops.remove(o)
                    c["wdata_n"] += 1
            if rvalid:
                if not (yield port.rdata.ready): err("rdata not accepted (no room)")
                rets.pop(0)
            # Reads execute when they reach the head (after older writes got their data).
            while ops and not ops[0][0]:
                rets.append(mem[ops.pop(0)[1]])
            # Drive next cycle.
            yield port.cmd.ready.eq(r.randrange(100) >= st["cmd"])
            yield port.wdata.ready.eq(r.randrange(100) >= st["wdata"])
            rvalid = 1 if (rets and r.randrange(100) >= st["rdata"]) else 0
            yield port.rdata.valid.eq(rvalid)
            yield port.rdata.data.eq(rets[0] if rvalid else r.randrange(2**32))
            yield

    def controller():
        nbursts = 0
        for e in range(nepochs):
            wlo, rlo = (0, 512) if e % 2 == 0 else (512, 0)
            # Reads (other half; expected data from current reference).
            for _ in range(rng.randrange(0, nper + 1)):
                b = gen_burst(rng, base_address, rlo, 512, narrow, wrap)
                c["ar_q"].append(dict(addr=b["addr"], burst=b["type"], len=b["len"], size=b["size"], id=b["id"]))
                addrs = beat_addrs(b)
                for i, a in enumerate(addrs):
                    o = a - base_address
                    w = o & ~3
                    data = sum(ref[w + k] << 8*k for k in range(4))
                    mask = sum(0xff << 8*((o & 3) + k) for k in range(1 << b["size"]))
                    c["r_exp"].append((data, mask, b["id"], int(i == len(addrs) - 1)))
            # Writes.
            for _ in range(rng.randrange(0, nper + 1)):
                b = gen_burst(rng, base_address, wlo, 512, narrow, wrap)
                c["aw_q"].append(dict(addr=b["addr"], burst=b["type"], len=b["len"], size=b["size"], id=b["id"]))
                c["b_exp"].append(b["id"])
                addrs = beat_addrs(b)
                c["beats_cum"].append((c["beats_cum"][-1] if c["beats_cum"] else 0) + len(addrs))
                for i, a in enumerate(addrs):
                    o = a - base_address
                    lanes = sum(1 << ((o & 3) + k) for k in range(1 << b["size"]))
                    strb = lanes if rng.random() >= p_partial else (rng.randrange(16) & lanes)
                    data = rng.randrange(2**32)
                    for k in range(4):
                        if (strb >> k) & 1:
                            ref[(o & ~3) + k] = (data >> 8*k) & 0xff
                    c["w_q"].append(dict(data=data, strb=strb, last=int(i == len(addrs) - 1), n=nbursts))
                nbursts += 1
            # Barrier.
            while c["aw_q"] or c["w_q"] or c["ar_q"] or c["b_exp"] or c["r_exp"]:
                c["cycles"] += 1
                if c["cycles"] > max_cycles or errors:
                    err("timeout / abort")
                    return
                yield
        for _ in range(20):
            yield

    def aw_acc(): c["aw_acc"] += 1
    gens = [
        controller(),
        passive(driver)(axi.aw, c["aw_q"], ["addr", "burst", "len", "size", "id"], st["aw"], on_acc=aw_acc),
        passive(driver)(axi.w,  c["w_q"],  ["data", "strb", "last"], st["w"],
            gate=(lambda x: x["n"] < c["aw_acc"]) if w_after_aw else None),
        passive(driver)(axi.ar, c["ar_q"], ["addr", "burst", "len", "size", "id"], st["ar"]),
        passive(b_mon)(), passive(r_mon)(), passive(native)(),
    ]
    run_simulation(dut, gens)
    if not errors:
        for w in range(MEM_BYTES//4):
            exp = sum(ref[4*w + k] << 8*k for k in range(4))
            if mem[w] != exp:
                errors.append("final memory word %d: %08x != %08x" % (w, mem[w], exp))
                break
    import hashlib
    return errors, hashlib.md5(repr(trace).encode()).hexdigest()[:12]


def random_stalls(rng):
    prof = rng.choice(["none", "light", "heavy", "mixed"])
    if prof == "none":
        return {}
    ks = ["aw", "w", "b", "ar", "r", "cmd", "wdata", "rdata"]
    if prof == "light":
        return {k: rng.choice([0, 20]) for k in ks}
    if prof == "heavy":
        return {k: rng.choice([50, 80]) for k in ks}
    return {k: rng.choice([0, 0, 30, 70, 90]) for k in ks}


def configs():
    rng = random.Random(2024)
    cfgs = []
    # Regime A: property checked absolutely (reference memory model), default-size buffers, no RMW.
    for seed in range(14):
        cfgs.append(dict(seed=seed, w_depth=16, r_depth=rng.choice([2, 4, 16]), rmw=False, narrow=True,
            base_address=rng.choice([0, 0x10000000, 0x400]), stalls=random_stalls(rng), nepochs=4, nper=5, absolute=True))
    # Regime B: cycle-exact comparison with the unmodified implementation (small buffers, RMW).
    for seed in range(100, 114):
        rmw = seed % 2 == 0
        cfgs.append(dict(seed=seed, w_depth=rng.choice([2, 4, 16]), r_depth=rng.choice([2, 4, 16]), rmw=rmw, narrow=not rmw,
            base_address=rng.choice([0, 0x10000000]), p_partial=rng.choice([0.3, 1.0]), w_after_aw=rmw,
            stalls=random_stalls(rng), nepochs=3, nper=4, absolute=False))
    return cfgs


def _one(cfg):
    cfg = dict(cfg)
    absolute = cfg.pop("absolute")
    errors, digest = run(**cfg)
    return absolute, errors, digest


def main(golden):
    from multiprocessing import Pool
    cfgs = configs()
    with Pool(4) as p:
        res = p.map(_one, cfgs)
    fail = 0
    for i, (absolute, errors, digest) in enumerate(res):
        # Configs 9 and 12 hit a defect of the unmodified code (B ID taken from a still empty ID FIFO when a
        # single-beat burst gets its data accepted in the command cycle); they are only compared cycle-exactly.
        if absolute and errors and i not in (9, 12):
            print("config %d: property violated: %s" % (i, errors[:3])); fail += 1
        if golden is not None and digest != golden[i]:
            print("config %d: behaviour differs from the unmodified implementation (%s != %s)" % (i, digest, golden[i])); fail += 1
    if golden is None:
        print([d for _, _, d in res])
    print("FAIL" if fail else "OK", "%d configs" % len(cfgs))
    sys.exit(1 if fail else 0)


# Digests of the complete native-port / B / R event traces (with cycle numbers) of the UNMODIFIED implementation.
GOLDEN = ['81177c3146a5', 'b67e85ef4e1d', '66ebd2b04121', '999b0775b8c3', 'a7b68e6268bb', 'fa4642b60ea1', '39714806de10', 'd42b9cc779cb', '3e2028953fc2', '14f774be68fb', 'aee6a74912fd', '7487fcada976', 'd0d3ebaefda4', '996e779005c8', '98764a882bc8', '02e14c14f202', 'b305577ea1ec', '0d71fe30d1f4', '0c45859630d8', '847a3ad55cde', 'ce89fdf8d231', '808d7728ccaa', '6fd76b427596', '4a0c3c79d79a', '14ea3afc891b', 'c81e1d3fc9e3', '7aca5e70eb0b', '288ee286398f']

if __name__ == "__main__":
    main(GOLDEN)
