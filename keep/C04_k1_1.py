# --- common harness (copied verbatim into every keep_k.py) ---------------------------------------
import os, sys, random
sys.path.insert(0, os.getcwd())

from migen import *

from litedram.common import PhySettings, GeomSettings, TimingSettings
from litedram.core.controller import LiteDRAMController, ControllerSettings
from litedram.core.refresher import Refresher


def make_controller(trefi, trp, trfc, postponing, tzqcs, zqcs_period, nphases=1, bankbits=2,
                    auto_precharge=True, with_refresh=True):
    memtype = {1: "SDR", 2: "DDR2", 4: "DDR3"}[nphases]
    phy = PhySettings(
        phytype="SIM", memtype=memtype, databits=8, dfi_databits=16, nphases=nphases,
        rdphase=0, wrphase=nphases - 1, cl=2, cwl=2 if nphases > 1 else None,
        read_latency=4, write_latency=1)
    if nphases > 1:
        phy.rdcmdphase = (phy.rdphase - 1) % nphases
        phy.wrcmdphase = (phy.wrphase - 1) % nphases
    geom = GeomSettings(bankbits=bankbits, rowbits=11, colbits=6)
    timing = TimingSettings(tRP=trp, tRCD=2, tWR=2, tWTR=2, tREFI=trefi, tRFC=trfc,
        tFAW=None if nphases == 1 else 8, tCCD=1, tRRD=None if nphases == 1 else 2,
        tRC=trp + 4, tRAS=4, tZQCS=tzqcs)
    cs = ControllerSettings(cmd_buffer_depth=4, refresh_postponing=postponing,
        with_auto_precharge=auto_precharge, with_refresh=with_refresh,
        refresh_zqcs_freq=1.0)
    # zqcs timer period = int(clk_freq/zqcs_freq) cycles
    clk_freq = float(zqcs_period if zqcs_period else 1e6)
    dut = LiteDRAMController(phy, geom, timing, clk_freq, controller_settings=cs)
    dut.nbanks = 2**bankbits
    return dut


TRAFFIC = ["random", "saturate", "single_bank", "all_write", "all_read", "row_thrash", "idle"]


def traffic_gen(dut, mode, seed):
    """Drives every bank command port of the controller interface, and acks the data phase."""
    prng = random.Random(seed)
    ports = [getattr(dut.interface, "bank%d" % n) for n in range(dut.nbanks)]
    amax = 2**len(ports[0].addr)
    pending = [None]*len(ports)
    while True:
        for n, p in enumerate(ports):
            if pending[n] is not None and (yield p.ready):
                pending[n] = None
            if pending[n] is None:
                if mode == "idle":
                    issue = False
                elif mode == "random":
                    issue = prng.random() < 0.6
                elif mode == "single_bank":
                    issue = (n == 0)
                else:
                    issue = True
                if issue:
                    if mode == "all_write":
                        we = 1
                    elif mode == "all_read":
                        we = 0
                    else:
                        we = prng.getrandbits(1)
                    if mode == "row_thrash":
                        addr = prng.randrange(amax)
                    elif mode in ("saturate", "all_write", "all_read"):
                        addr = prng.randrange(amax) if prng.random() < 0.15 else prng.randrange(16)
                    else:
                        addr = prng.randrange(amax) if prng.random() < 0.4 else prng.randrange(16)
                    pending[n] = (we, addr)
                    yield p.valid.eq(1)
                    yield p.we.eq(we)
                    yield p.addr.eq(addr)
                else:
                    yield p.valid.eq(0)
        yield


class Trace:
    def __init__(self):
        self.ref = []      # cycle of every REF command on DFI
        self.events = []   # (cycle, kind) for REF / PREA / ZQCS / other commands
        self.errors = []
        self.served = 0


def dfi_monitor(dut, trace, ncycles):
    phases = dut.dfi.phases
    for cycle in range(ncycles):
        for ph, p in enumerate(phases):
            if (yield p.cs_n) != 0:
                continue
            cas = 1 - (yield p.cas_n)
            ras = 1 - (yield p.ras_n)
            we  = 1 - (yield p.we_n)
            a   = (yield p.address)
            if (cas, ras, we) == (0, 0, 0):
                continue
            if (cas, ras, we) == (1, 1, 0):
                trace.ref.append(cycle)
                kind = "REF"
            elif (cas, ras, we) == (0, 1, 1):
                kind = "PREA" if (a & (1 << 10)) else "PRE"
            elif (cas, ras, we) == (0, 0, 1):
                kind = "ZQCS"
            elif (cas, ras, we) == (0, 1, 0):
                kind = "ACT"
            elif cas and not ras:
                kind = "WR" if we else "RD"
                trace.served += 1
            else:
                kind = "?"
            trace.events.append((cycle, kind))
        yield


def run_controller(mode, seed, ncycles, **cfg):
    dut = make_controller(**cfg)
    trace = Trace()
    gens = [dfi_monitor(dut, trace, ncycles), passive(traffic_gen)(dut, mode, seed)]
    run_simulation(dut, gens)
    return trace


def check_trace(trace, ncycles, trefi, trp, trfc, postponing, tzqcs, zqcs_period, tag, **_):
    """The C04 property on a DFI trace."""
    errors = []
    P = postponing
    # fixed service latency: drain bank machines + turnarounds + P refresh sequences (+ a ZQCS)
    L = P*(trp + trfc) + (trp + (tzqcs or 0)) + 96
    ref = trace.ref
    # 1) deadline of the k-th refresh (k = 1..) and nothing owed beyond P at the end
    for k, t in enumerate(ref, start=1):
        if t > (k + P)*trefi + L:
            errors.append("%s: refresh #%d at %d later than (k+P)*tREFI+L = %d" % (tag, k, t, (k + P)*trefi + L))
            break
    k_end = len(ref) + 1
    if ncycles > (k_end + P)*trefi + L:
        errors.append("%s: refresh #%d still missing at cycle %d (deadline %d)" % (tag, k_end, ncycles, (k_end + P)*trefi + L))
    # 2) never more refreshes than timer ticks (no spurious refresh)
    for k, t in enumerate(ref, start=1):
        if k > (t + 1)//trefi:
            errors.append("%s: refresh #%d at %d is ahead of the timer" % (tag, k, t))
            break
    # 3) every REF is preceded by a PREA with exactly tRP in between and nothing else since;
    #    nothing but REF/PREA/ZQCS is issued until tRFC after a REF
    ev = trace.events
    for i, (t, kind) in enumerate(ev):
        if kind == "REF":
            if i == 0 or ev[i-1] != (t - trp, "PREA"):
                errors.append("%s: REF at %d not preceded by PREA at %d (prev %r)" % (tag, t, t - trp, ev[i-1] if i else None))
                break
            if i + 1 < len(ev) and ev[i+1][0] < t + trfc:
                errors.append("%s: command %r within tRFC of REF at %d" % (tag, ev[i+1], t))
                break
        if kind == "ZQCS":
            if i == 0 or ev[i-1] != (t - trp, "PREA"):
                errors.append("%s: ZQCS at %d not preceded by PREA" % (tag, t))
                break
            if i + 1 < len(ev) and ev[i+1][0] < t + tzqcs:
                errors.append("%s: command %r within tZQCS of ZQCS at %d" % (tag, ev[i+1], t))
                break
    # 4) ZQCS recurs at its period (the timer restarts when a calibration completes)
    if tzqcs is not None:
        zq = [t for t, kind in ev if kind == "ZQCS"]
        bound = zqcs_period + P*trefi + L
        prev = 0
        for t in zq + [ncycles]:
            if t - prev > bound + (trp + tzqcs):
                errors.append("%s: no ZQCS between %d and %d (period %d)" % (tag, prev, t, zqcs_period))
                break
            prev = t
    else:
        if any(kind == "ZQCS" for _, kind in ev):
            errors.append("%s: unexpected ZQCS" % tag)
    # 5) no drift: refreshes come in bursts of P; burst j (j = 1..) starts within a fixed drain window after
    #    the j-th postponer request, which is at j*P*tREFI (+6+tRP pipeline cycles down to the REF on DFI,
    #    one less is tolerated for implementations saving a cycle), and completes back-to-back.
    trace.lateness = 0
    for j in range(1, len(ref)//P + 1):
        burst = ref[(j-1)*P:j*P]
        base = j*P*trefi + 5 + trp
        late = burst[0] - base
        trace.lateness = max(trace.lateness, late)
        if late < -1 or late > DRAIN_WINDOW:
            errors.append("%s: burst %d starts at %d, request instant %d (lateness %d)" % (tag, j, burst[0], base, late))
            break
        if burst[-1] - burst[0] > (P - 1)*(trp + trfc + 2):
            errors.append("%s: burst %d not back-to-back: %r" % (tag, j, burst))
            break
    if len(ref) % P and ncycles - ref[-1] > (P*(trp + trfc + 2)):
        errors.append("%s: incomplete burst at the end: %r" % (tag, ref[-(len(ref) % P):]))
    return errors


DRAIN_WINDOW = 40


def traffic_resumes(trace, mode, tag):
    """Between two refresh bursts some read/write must be served when traffic is offered."""
    if mode == "idle":
        return []
    ev = trace.events
    errors = []
    last_ref = None
    served_since = 0
    bursts = 0
    for t, kind in ev:
        if kind == "REF":
            if last_ref is not None and t - last_ref > 60 and served_since == 0:
                errors.append("%s: no traffic served between refresh at %d and %d" % (tag, last_ref, t))
                break
            last_ref = t
            served_since = 0
        elif kind in ("RD", "WR"):
            served_since += 1
    return errors


def _one_run(args):
    mode, seed, ncycles, cfg = args
    tag = "%s/seed%d/%r" % (mode, seed, sorted(cfg.items()))
    trace = run_controller(mode, seed, ncycles, **cfg)
    errors  = check_trace(trace, ncycles, tag=tag, **cfg)
    errors += traffic_resumes(trace, mode, tag)
    return tag, len(trace.ref), trace.served, errors, trace.ref, trace.lateness, trace.events


def default_campaign(seed0, ncycles=2200):
    base = dict(trefi=100, trp=2, trfc=6, postponing=1, tzqcs=None, zqcs_period=None)
    runs = []
    cfgs = [
        dict(base),
        dict(base, postponing=2, tzqcs=5, zqcs_period=450),
        dict(base, postponing=8, trfc=4, trefi=101),
        dict(base, postponing=4, trp=3, trfc=9, tzqcs=7, zqcs_period=333, nphases=2),
        dict(base, postponing=3, trefi=117, trp=1, trfc=3, tzqcs=4, zqcs_period=1000, auto_precharge=False),
        dict(base, postponing=1, trefi=128, nphases=4, bankbits=1, tzqcs=6, zqcs_period=300),
    ]
    prng = random.Random(seed0)
    for i, cfg in enumerate(cfgs):
        modes = prng.sample(TRAFFIC[:-1], 2)
        for mode in modes:
            n = ncycles if cfg["postponing"] < 8 else max(ncycles, 2600)
            runs.append((mode, prng.randrange(1 << 16), n, cfg))
    runs.append(("idle", 0, 1200, cfgs[1]))
    return runs


def run_campaign(runs, nproc=6):
    import multiprocessing
    with multiprocessing.Pool(nproc) as pool:
        results = pool.map(_one_run, runs, chunksize=1)
    errors = []
    for tag, nref, served, errs, ref, lateness, events in results:
        print("  %-100s refreshes=%3d served=%5d max drain=%2d %s" % (tag[:100], nref, served, lateness, "FAIL" if errs else "ok"))
        errors += errs
    return errors, results

# --- end of common harness -----------------------------------------------------------------------

# --- change 1: RefreshTimer counts elapsed cycles up instead of remaining cycles down ----------------

from litedram.core.refresher import RefreshTimer


class ReferenceRefreshTimer(Module):
    """Verbatim copy of the timer of the unmodified tree (down counter)."""
    def __init__(self, trefi):
        self.wait  = Signal()
        self.done  = Signal()
        self.count = Signal(bits_for(trefi))
        done  = Signal()
        count = Signal(bits_for(trefi), reset=trefi-1)
        self.sync += [
            If(self.wait & ~self.done,
                count.eq(count - 1)
            ).Else(
                count.eq(count.reset)
            )
        ]
        self.comb += [
            done.eq(count == 0),
            self.done.eq(done),
            self.count.eq(count)
        ]


def timer_equivalence(trefi, seed, ncycles, wait_mode):
    """Lock-step comparison of done/count for an arbitrary `wait` input."""
    class DUT(Module):
        def __init__(self):
            self.submodules.new = RefreshTimer(trefi)
            self.submodules.ref = ReferenceRefreshTimer(trefi)
            self.wait = Signal()
            if wait_mode == "free":      # as used for tREFI: wait = ~done
                self.comb += [self.new.wait.eq(~self.new.done), self.ref.wait.eq(~self.ref.done)]
            else:
                self.comb += [self.new.wait.eq(self.wait), self.ref.wait.eq(self.wait)]
    dut = DUT()
    errors = []
    prng = random.Random(seed)
    def gen():
        pulses = 0
        last = None
        for cycle in range(ncycles):
            if wait_mode == "random":
                yield dut.wait.eq(prng.random() < 0.9)
            elif wait_mode == "zqcs":    # as used for ZQCS: wait = ~executer.done (rare low pulses)
                yield dut.wait.eq(prng.random() < 0.99)
            yield
            a = ((yield dut.new.done), (yield dut.new.count))
            b = ((yield dut.ref.done), (yield dut.ref.count))
            if a != b and len(errors) < 3:
                errors.append("timer trefi=%d %s cycle %d: new %r != reference %r" % (trefi, wait_mode, cycle, a, b))
            if wait_mode == "free" and a[0]:
                if last is not None and cycle - last != trefi:
                    errors.append("timer trefi=%d: period %d" % (trefi, cycle - last))
                last = cycle
                pulses += 1
        if wait_mode == "free" and pulses < (ncycles // trefi) - 1:
            errors.append("timer trefi=%d: only %d pulses in %d cycles" % (trefi, pulses, ncycles))
    run_simulation(dut, gen())
    return errors


def refresher_request_times(postponing, trefi, ncycles):
    """Stand-alone Refresher, cmd.ready tied high: cycles at which cmd.valid rises."""
    class Obj: pass
    settings = Obj()
    settings.with_refresh = True
    settings.timing = Obj()
    settings.timing.tREFI, settings.timing.tRP, settings.timing.tRFC, settings.timing.tZQCS = trefi, 1, 2, None
    settings.geom = Obj(); settings.geom.addressbits = 13; settings.geom.bankbits = 2
    settings.phy = Obj(); settings.phy.nranks = 1
    dut = Refresher(settings, clk_freq=1e6, postponing=postponing)
    rises = []
    def gen():
        yield dut.cmd.ready.eq(1)
        prev = 0
        for cycle in range(ncycles):
            v = (yield dut.cmd.valid)
            if v and not prev:
                rises.append(cycle)
            prev = v
            yield
    run_simulation(dut, gen())
    return rises


def main():
    errors = []
    # A) exact equivalence of the timer with the original down counter, every small period + large ones
    for trefi in list(range(1, 41)) + [100, 127, 128, 129, 255, 256, 257, 781, 1000]:
        n = max(300, 3*trefi + 50)
        for wait_mode in ["free", "random", "zqcs"]:
            errors += timer_equivalence(trefi, 1000 + trefi, n, wait_mode)
    print("timer equivalence: %d errors" % len(errors))
    # B) the request instants of the stand-alone refresher are exactly those of the original:
    #    the j-th request rises at j*P*tREFI + 1 (timer pulse at j*P*tREFI - 1, postponer reg, fsm reg)
    for P in [1, 2, 3, 8]:
        for trefi in [100, 128, 131]:
            rises = refresher_request_times(P, trefi, 5*P*trefi + 20)
            expect = [j*P*trefi + 1 for j in range(1, 6)]
            if rises != expect:
                errors.append("refresher P=%d tREFI=%d: requests at %r, expected %r" % (P, trefi, rises, expect))
    print("refresher request instants: %d errors" % len(errors))
    # C) the property on the whole controller, under traffic
    errs, _ = run_campaign(default_campaign(seed0=101))
    errors += errs
    for e in errors[:20]:
        print("ERROR:", e)
    print("keep_1:", "FAIL" if errors else "PASS")
    sys.exit(1 if errors else 0)


if __name__ == "__main__":
    main()
