#!/usr/bin/env python3
# keep_2.py - check for change 2 (litedram/core/crossbar.py: the lock-out of a master by another bank is
# computed once per master - hold vector masked with the one-hot decode of the addressed bank - instead of
# one OR-chain per (bank, master) pair).
#
# What is run (real code, migen run_simulation):
#  1. lock-step equivalence: the tree's LiteDRAMCrossbar against a subclass whose do_finalize is a verbatim
#     copy of the unmodified one.  Both get identical, completely unconstrained random inputs every cycle on
#     the master side (cmd valid/we/addr, wdata) and on the bank side (ready, lock, wdata_ready, rdata_valid,
#     rdata - also lock patterns that the controller cannot produce, e.g. several banks holding one master);
#     all outputs (bankN valid/we/addr, cmd.ready, wdata.ready, rdata.valid/data, controller wdata/we) are
#     compared every cycle.  12 random parameter sets (1..5 masters, 2..8 banks, latencies).
#  2. whole core (ports -> crossbar -> controller -> DFI -> strict behavioural DRAM): the C01 property is
#     checked on-line for 12 configurations (SDR/DDR/LPDDR/DDR2/DDR3/DDR4, 1..8 ports, buffered or not,
#     auto-precharge on/off, refresh + ZQCS running) and the event trace (DFI commands/data, port
#     handshakes) must be bit- and cycle-identical to the one of the unmodified tree (GOLDEN hashes).
# Exit status 0 = all checks pass.  Run from the root of the tree:  python keep_2.py

# Whole-core test bench: native ports -> LiteDRAMCrossbar -> LiteDRAMController (bank machines,
# multiplexer, refresher) -> DFI -> strict behavioural DRAM (python), with a per-port reference model.
#
# Checked while running (property C01):
#   * every accepted read returns exactly one word, in command order per port, every byte equal to the
#     byte most recently written (in command-acceptance order over all ports) to that address with the
#     byte enabled, or the initial contents;
#   * write data is taken exactly once per accepted write (never more than accepted writes);
#   * a write changes only the enabled bytes at the one named address (DRAM contents == reference at end);
#   * the DRAM only sees legal command sequences (ACT on idle bank, RD/WR on active bank, REF with all
#     banks idle) and the basic timings of the controller (tRP/tRCD/tRAS/tRC/tWTP/tWTR/tCCD/tRRD/tRFC);
#   * liveness: all commands complete within the cycle budget.
# A sha256 over all externally visible events (DFI commands + data, port handshakes) is returned so that
# cycle-exact equivalence with the unmodified tree can be asserted.

import os, sys, math, random, hashlib, traceback
sys.path.insert(0, os.getcwd())

from migen import *

from litedram.common import *
from litedram.phy.model import get_sdram_phy_settings
from litedram.core.controller import ControllerSettings, LiteDRAMController
from litedram.core.crossbar import LiteDRAMCrossbar


class TBError(Exception):
    pass


def mix(*xs):
    h = 0x9e3779b97f4a7c15
    for x in xs:
        h ^= (x + 0x7f4a7c15 + (h << 6) + (h >> 2)) & 0xffffffffffffffff
        h = (h * 0xbf58476d1ce4e5b9) & 0xffffffffffffffff
        h ^= h >> 29
    return h


class Cfg:
    def __init__(self, **kw):
        self.memtype = "DDR3"; self.nports = 2; self.depth = 8; self.buffered = False
        self.auto_precharge = True; self.bankbits = 2; self.rowbits = 3; self.colwords_bits = 3
        self.big_col = False; self.seed = 1; self.ncmds = 120; self.postponing = 1
        self.tREFI = 110; self.rand_phases = False; self.read_time = 32; self.write_time = 16
        self.pool = 20; self.gap = 3; self.max_cycles = 40000
        self.__dict__.update(kw)

    def name(self):
        return "%s p%d d%d%s ap%d bb%d s%d%s%s" % (self.memtype, self.nports, self.depth,
            "b" if self.buffered else "", self.auto_precharge, self.bankbits, self.seed,
            " bigcol" if self.big_col else "", " rph" if self.rand_phases else "")


class DUT(Module):
    def __init__(self, cfg):
        rng = random.Random(mix(cfg.seed, 12345))
        memtype = cfg.memtype
        data_width = 16 if memtype == "SDR" else 8
        phy = get_sdram_phy_settings(memtype, data_width, 100e6)
        if cfg.rand_phases and phy.nphases > 1:
            phy.rdphase = rng.randrange(phy.nphases)
            phy.wrphase = rng.randrange(phy.nphases)
        self.phy = phy
        burst_length = phy.nphases if memtype == "SDR" else burst_lengths[memtype]
        self.align = align = log2_int(burst_length)
        colbits = (11 if cfg.big_col else align + cfg.colwords_bits)
        geom = GeomSettings(bankbits=cfg.bankbits, rowbits=cfg.rowbits, colbits=colbits)
        geom.addressbits = 13  # keep A10 (auto-precharge / precharge-all) on the DFI address bus
        self.geom = geom
        ddr34 = memtype in ["DDR3", "DDR4"]
        timing = TimingSettings(
            tRP   = rng.choice([1, 2, 3]),
            tRCD  = rng.choice([1, 2, 3]),
            tWR   = rng.choice([1, 2, 3]),
            tWTR  = rng.choice([1, 2, 3]),
            tREFI = cfg.tREFI,
            tRFC  = rng.choice([4, 7]),
            tFAW  = rng.choice([None, 6, 9]),
            tCCD  = rng.choice([1, 2]) if not ddr34 else 1,
            tRRD  = rng.choice([None, 1, 2, 3]),
            tRC   = rng.choice([None, 5, 8]),
            tRAS  = rng.choice([None, 3, 5]),
            tZQCS = (rng.choice([4, 9]) if ddr34 else None))
        self.timing = timing
        cs = ControllerSettings(
            cmd_buffer_depth    = cfg.depth,
            cmd_buffer_buffered = cfg.buffered,
            with_auto_precharge = cfg.auto_precharge,
            refresh_postponing  = cfg.postponing,
            read_time           = cfg.read_time,
            write_time          = cfg.write_time)
        self.submodules.controller = LiteDRAMController(phy, geom, timing, clk_freq=450,
            controller_settings=cs)
        self.submodules.crossbar = LiteDRAMCrossbar(self.controller.interface)
        self.ports = [self.crossbar.get_port() for _ in range(cfg.nports)]
        self.dfi = self.controller.dfi
        self.colw_bits = colbits - align
        self.nbanks = 2**cfg.bankbits


def run_cfg(cfg, extra_gens=None):
    dut = DUT(cfg)
    rng = random.Random(mix(cfg.seed, 777))
    phy, timing, geom = dut.phy, dut.timing, dut.geom
    nph = phy.nphases
    dfi_w = phy.dfi_databits
    word_w = dfi_w*nph
    nbytes = word_w//8
    word_mask = (1 << word_w) - 1
    align = dut.align
    cwb, bb = dut.colw_bits, cfg.bankbits
    nbanks = dut.nbanks
    rl, wl = phy.read_latency, phy.write_latency
    ctrl_wl = math.ceil(phy.cwl/nph)
    tWTP = ctrl_wl + timing.tWR + timing.tCCD
    tWTRc = timing.tWTR + ctrl_wl + timing.tCCD
    hsh = hashlib.sha256()
    stats = dict(acts=0, pres=0, refs=0, reads=0, writes=0, autopre=0, zqcs=0, cycles=0)

    def init_word(bank, row, col):
        return mix(bank, row, col, 99) & word_mask if word_w <= 64 else \
            (mix(bank, row, col, 99) | (mix(bank, row, col, 98) << 64)) & word_mask

    def decompose(addr):
        colw = addr & ((1 << cwb) - 1)
        bank = (addr >> cwb) & (nbanks - 1)
        row  = addr >> (cwb + bb)
        return bank, row, colw << align

    # address pool (forces same-address / same-row / row-conflict traffic) ---------------------------
    aw = dut.ports[0].address_width
    assert aw == cfg.rowbits + cwb + bb, (aw, cfg.rowbits, cwb, bb)
    pool = [rng.randrange(1 << aw) for _ in range(cfg.pool)]
    # add row neighbours (same bank + row, other column) and row conflicts (same bank, other row)
    for a in list(pool[:cfg.pool//2]):
        pool.append(a ^ rng.randrange(1, 1 << cwb))
        pool.append(a ^ (rng.randrange(1, 1 << cfg.rowbits) << (cwb + bb)))

    def rand_we():
        r = rng.random()
        if r < 0.5:
            return (1 << nbytes) - 1
        if r < 0.6:
            return 0
        return rng.randrange(1 << nbytes)

    class PortState:
        pass
    pstates = []
    for i, port in enumerate(dut.ports):
        ps = PortState()
        ps.port = port; ps.i = i
        ps.todo = cfg.ncmds
        ps.cur = None            # command currently presented (we, addr, data, be)
        ps.wq = []               # write beats offered (presented commands), oldest first
        ps.acc_writes = 0; ps.taken = 0
        ps.exp = []              # expected read words (in acceptance order)
        ps.gap = rng.randrange(4)
        ps.mode_bias = rng.random()  # per-port read/write mix
        ps.burst = 0
        pstates.append(ps)

    ref = {}      # port address -> word (reference, command-acceptance order)
    mem = {}      # (bank,row,col) -> word (DRAM contents)

    def ref_get(addr):
        if addr in ref:
            return ref[addr]
        return init_word(*decompose(addr))

    def merge(old, data, be):
        for b in range(nbytes):
            if (be >> b) & 1:
                m = 0xff << (8*b)
                old = (old & ~m) | (data & m)
        return old

    # DRAM state ---------------------------------------------------------------------------------------
    class Bank:
        pass
    banks = []
    for b in range(nbanks):
        bk = Bank(); bk.row = None; bk.t_act = -100; bk.t_pre = -100; bk.t_wr = -100; bk.t_rdwr = -100
        banks.append(bk)
    glob = dict(t_ref=-100, ref_busy=0, t_lastwr=-100, t_lastcas=-100, t_lastact=-100, acts=[])
    wr_sched = {}   # cycle -> (bank,row,col)
    rd_sched = {}   # cycle -> word

    def err(msg):
        raise TBError("[%s] cycle %d: %s" % (cfg.name(), stats["cycles"], msg))

    def dram_precharge(t, b, auto=False):
        bk = banks[b]
        if bk.row is not None:
            if not auto:
                if timing.tRAS is not None and t - bk.t_act < timing.tRAS:
                    err("tRAS violated on bank %d" % b)
                if t - bk.t_wr < tWTP:
                    err("tWTP violated on bank %d" % b)
            bk.row = None
            bk.t_pre = t
            # an auto-precharge happens inside the DRAM after tRAS/tWR: the controller waits for it in
            # AUTOPRECHARGE + tRP; account it at the earliest legal instant
            if auto:
                t_eff = t
                if timing.tRAS is not None:
                    t_eff = max(t_eff, bk.t_act + timing.tRAS)
                t_eff = max(t_eff, bk.t_wr + tWTP)
                bk.t_pre = t_eff

    def gen():
        for ps in pstates:
            yield ps.port.rdata.ready.eq(1)
        phases = dut.dfi.phases
        t = 0
        done_at = None
        junk = 0
        while True:
            stats["cycles"] = t
            ev = []
            # ---------------- DRAM side: sample DFI -------------------------------------------------
            any_rd = any_wr = False
            cmds = []
            for pi, p in enumerate(phases):
                cs_n = (yield p.cs_n); ras_n = (yield p.ras_n); cas_n = (yield p.cas_n); we_n = (yield p.we_n)
                rden = (yield p.rddata_en); wren = (yield p.wrdata_en)
                if cs_n == 0 and not (ras_n and cas_n and we_n):
                    cmds.append((pi, ras_n, cas_n, we_n, (yield p.bank), (yield p.address)))
                if rden: any_rd = True
                if wren: any_wr = True
            saw_rd = saw_wr = False
            for (pi, ras_n, cas_n, we_n, b, a) in cmds:
                ev.append(("c", pi, ras_n, cas_n, we_n, b, a))
                if glob["ref_busy"] > t:
                    err("command during tRFC/tZQCS")
                if not ras_n and cas_n and we_n:          # ACTIVATE
                    bk = banks[b]
                    if bk.row is not None:
                        err("ACTIVATE on bank %d with open row" % b)
                    if t - bk.t_pre < timing.tRP:
                        err("tRP violated on bank %d" % b)
                    if timing.tRC is not None and t - bk.t_act < timing.tRC:
                        err("tRC violated on bank %d" % b)
                    if timing.tRRD is not None and t - glob["t_lastact"] < timing.tRRD:
                        err("tRRD violated")
                    if timing.tFAW is not None:
                        recent = [x for x in glob["acts"] if t - x < timing.tFAW]
                        if len(recent) >= 4:
                            err("tFAW violated")
                    glob["acts"] = (glob["acts"] + [t])[-8:]
                    glob["t_lastact"] = t
                    if a >= (1 << cfg.rowbits):
                        err("row address out of range")
                    bk.row = a; bk.t_act = t
                    stats["acts"] += 1
                elif not ras_n and cas_n and not we_n:    # PRECHARGE
                    stats["pres"] += 1
                    if a & (1 << 10):
                        for bb_ in range(nbanks):
                            dram_precharge(t, bb_)
                    else:
                        dram_precharge(t, b)
                elif not ras_n and not cas_n and we_n:    # REFRESH
                    for bb_ in range(nbanks):
                        if banks[bb_].row is not None:
                            err("REFRESH with bank %d active" % bb_)
                        if t - banks[bb_].t_pre < timing.tRP:
                            err("tRP violated before REFRESH")
                    glob["ref_busy"] = t + timing.tRFC
                    stats["refs"] += 1
                elif ras_n and not cas_n:                 # READ / WRITE
                    bk = banks[b]
                    if bk.row is None:
                        err("%s on idle bank %d" % ("WRITE" if not we_n else "READ", b))
                    if t - bk.t_act < timing.tRCD:
                        err("tRCD violated on bank %d" % b)
                    if t - glob["t_lastcas"] < timing.tCCD:
                        err("tCCD violated")
                    glob["t_lastcas"] = t
                    col = (a & 0x3ff) | ((a >> 11) << 10)
                    if col & ((1 << align) - 1) or col >= (1 << geom.colbits):
                        err("bad column address %x" % a)
                    key = (b, bk.row, col)
                    if not we_n:
                        saw_wr = True
                        if (t + wl) in wr_sched:
                            err("two write data phases in one cycle")
                        wr_sched[t + wl] = key
                        bk.t_wr = t; glob["t_lastwr"] = t
                        stats["writes"] += 1
                    else:
                        saw_rd = True
                        if t - glob["t_lastwr"] < tWTRc:
                            err("tWTR violated")
                        if (t + rl) in rd_sched:
                            err("two read data phases in one cycle")
                        rd_sched[t + rl] = mem.get(key, None)
                        if rd_sched[t + rl] is None:
                            rd_sched[t + rl] = init_word(*key)
                        stats["reads"] += 1
                    if a & (1 << 10):
                        stats["autopre"] += 1
                        dram_precharge(t, b, auto=True)
                elif ras_n and cas_n and not we_n:        # ZQCS
                    for bb_ in range(nbanks):
                        if banks[bb_].row is not None:
                            err("ZQCS with bank %d active" % bb_)
                    glob["ref_busy"] = t + timing.tZQCS
                    stats["zqcs"] += 1
                else:
                    err("unexpected DFI command ras_n=%d cas_n=%d we_n=%d" % (ras_n, cas_n, we_n))
            if any_rd != saw_rd or any_wr != saw_wr:
                err("rddata_en/wrdata_en not aligned with READ/WRITE command")
            # write data phase due now (applied after this cycle's commands: same-cycle read sees old)
            if t in wr_sched:
                key = wr_sched.pop(t)
                data = 0; mask = 0
                for pi, p in enumerate(phases):
                    data |= (yield p.wrdata) << (pi*dfi_w)
                    mask |= (yield p.wrdata_mask) << (pi*dfi_w//8)
                ev.append(("w", key, data, mask))
                old = mem.get(key, None)
                if old is None:
                    old = init_word(*key)
                mem[key] = merge(old, data, ~mask & ((1 << nbytes) - 1))
            # read data to be visible next cycle
            nxt = rd_sched.pop(t + 1, None)
            junk = mix(t, 5) & word_mask if word_w <= 64 else (mix(t, 5) | (mix(t, 6) << 64)) & word_mask
            val = junk if nxt is None else nxt
            for pi, p in enumerate(phases):
                yield p.rddata.eq((val >> (pi*dfi_w)) & ((1 << dfi_w) - 1))
                yield p.rddata_valid.eq(0 if nxt is None else 1)

            # ---------------- port side ---------------------------------------------------------------
            all_done = True
            for ps in pstates:
                port = ps.port
                cmd_ready = (yield port.cmd.ready)
                wready    = (yield port.wdata.ready)
                rvalid    = (yield port.rdata.valid)
                ev.append(("p", ps.i, 1 if ps.cur else 0, cmd_ready if ps.cur else 0, wready, rvalid))
                if ps.cur is not None and cmd_ready:
                    we, addr, data, be = ps.cur
                    if we:
                        ref[addr] = merge(ref_get(addr), data, be)
                        ps.acc_writes += 1
                    else:
                        ps.exp.append((addr, ref_get(addr)))
                    ps.cur = None
                    ps.gap = 0 if rng.random() < 0.5 else rng.randrange(1, cfg.gap + 2)
                    if rng.random() < 0.03:
                        ps.gap = rng.randrange(20, 60)
                if wready:
                    ps.taken += 1
                    if ps.taken > ps.acc_writes:
                        err("port %d: write data taken for a write that was not accepted" % ps.i)
                    if not ps.wq:
                        err("port %d: write data taken but none offered" % ps.i)
                    ps.wq.pop(0)
                if rvalid:
                    if not ps.exp:
                        err("port %d: unexpected read data" % ps.i)
                    addr, want = ps.exp.pop(0)
                    got = (yield port.rdata.data)
                    if got != want:
                        err("port %d: read @%x returned %x, expected %x" % (ps.i, addr, got, want))
                # next command
                if ps.cur is None and ps.todo > 0:
                    if ps.gap > 0:
                        ps.gap -= 1
                    else:
                        ps.todo -= 1
                        if ps.burst > 0:
                            ps.burst -= 1
                            addr = (ps.last_addr & ~((1 << cwb) - 1)) | rng.randrange(1 << cwb)
                        else:
                            r = rng.random()
                            addr = rng.choice(pool) if r < 0.9 else rng.randrange(1 << aw)
                            if rng.random() < 0.3:
                                ps.burst = rng.randrange(1, 6)
                        ps.last_addr = addr
                        we = 1 if rng.random() < ps.mode_bias else 0
                        if rng.random() < 0.02:
                            ps.mode_bias = rng.random()
                        data = rng.getrandbits(word_w); be = rand_we()
                        ps.cur = (we, addr, data, be)
                        if we:
                            ps.wq.append((data, be))
                        yield port.cmd.addr.eq(addr)
                        yield port.cmd.we.eq(we)
                yield port.cmd.valid.eq(1 if ps.cur is not None else 0)
                if ps.wq:
                    yield port.wdata.valid.eq(1)
                    yield port.wdata.data.eq(ps.wq[0][0])
                    yield port.wdata.we.eq(ps.wq[0][1])
                else:
                    yield port.wdata.valid.eq(0)
                    yield port.wdata.data.eq(mix(t, ps.i) & word_mask)
                    yield port.wdata.we.eq((1 << nbytes) - 1)
                if ps.cur is not None or ps.todo > 0 or ps.exp or ps.taken < ps.acc_writes:
                    all_done = False
            hsh.update(repr(ev).encode())
            if all_done and done_at is None:
                done_at = t
            if done_at is not None and t > done_at + wl + 8:
                break
            if t > cfg.max_cycles:
                err("timeout: commands still outstanding (todo=%s exp=%s)" % (
                    [ps.todo for ps in pstates], [len(ps.exp) for ps in pstates]))
            yield
            t += 1
        # end of run: DRAM contents == reference
        if wr_sched:
            err("write data phase still pending at end")
        for addr, want in ref.items():
            key = decompose(addr)
            got = mem.get(key, None)
            if got is None:
                got = init_word(*key)
            if got != want:
                err("final DRAM contents @%x = %x, reference %x" % (addr, got, want))
        touched = set(decompose(a) for a in ref)
        for key in mem:
            if key not in touched:
                err("DRAM location %r written but never addressed by a write" % (key,))

    run_simulation(dut, [gen()] + (extra_gens(dut, cfg, stats) if extra_gens else []))
    return hsh.hexdigest()[:16], stats


def make_cfgs():
    T = [
        # memtype nports depth buffered ap bankbits extra
        ("SDR",   1,  8, False, True,  2, dict()),
        ("SDR",   3,  4, True,  False, 1, dict(big_col=True)),
        ("DDR",   2,  2, False, True,  2, dict(rand_phases=True)),
        ("DDR",   4, 16, True,  False, 1, dict()),
        ("LPDDR", 2,  8, True,  True,  2, dict()),
        ("LPDDR", 1,  4, False, False, 3, dict(postponing=2)),
        ("DDR2",  4,  4, False, True,  2, dict(big_col=True, read_time=8, write_time=4)),
        ("DDR2",  8,  8, True,  False, 1, dict()),
        ("DDR3",  2,  8, False, True,  3, dict()),
        ("DDR3",  3, 16, True,  True,  2, dict(rand_phases=True, read_time=0, write_time=0)),
        ("DDR4",  2,  4, True,  False, 2, dict(big_col=True)),
        ("DDR4",  4,  8, False, True,  2, dict(postponing=2)),
    ]
    cfgs = []
    for i, (mt, np_, d, buf, ap, bbits, extra) in enumerate(T):
        ncmds = {1: 90, 2: 70, 3: 50, 4: 45, 8: 25}[np_]
        cfgs.append(Cfg(memtype=mt, nports=np_, depth=d, buffered=buf, auto_precharge=ap, bankbits=bbits,
            seed=200 + i, ncmds=ncmds, **extra))
    return cfgs


def _worker(cfg):
    try:
        h, st = run_cfg(cfg)
        return cfg.name(), h, st, None
    except Exception as e:
        return cfg.name(), None, None, "%s\n%s" % (e, traceback.format_exc())


def run_all(cfgs, nproc=8):
    import multiprocessing as mp
    with mp.Pool(nproc) as pool:
        return pool.map(_worker, cfgs, chunksize=1)



# sha256[:16] of the event trace of each configuration on the UNMODIFIED tree
GOLDEN = {
    'SDR p1 d8 ap1 bb2 s200': '34b36f917e490e50',
    'SDR p3 d4b ap0 bb1 s201 bigcol': 'dbf44e25f50a5b10',
    'DDR p2 d2 ap1 bb2 s202 rph': 'ecf674612b2edfe0',
    'DDR p4 d16b ap0 bb1 s203': 'de6459653a3471e0',
    'LPDDR p2 d8b ap1 bb2 s204': '0f8a7c00bc9f582c',
    'LPDDR p1 d4 ap0 bb3 s205': '48f101aacd9b803a',
    'DDR2 p4 d4 ap1 bb2 s206 bigcol': '1016717f0d348a06',
    'DDR2 p8 d8b ap0 bb1 s207': '6b654b62eb7fb19e',
    'DDR3 p2 d8 ap1 bb3 s208': '0e1bc75fbf2effe4',
    'DDR3 p3 d16b ap1 bb2 s209 rph': 'cf3bc56c33b4f8d5',
    'DDR4 p2 d4b ap0 bb2 s210 bigcol': 'c92627f57c14dd7b',
    'DDR4 p4 d8 ap1 bb2 s211': '102fbbc2f5df6726',
}

# ---- do_finalize: verbatim copy from the unmodified litedram/core/crossbar.py ----
from functools import reduce
from operator import or_
from migen.genlib import roundrobin

class RefCrossbar(LiteDRAMCrossbar):
    def do_finalize(self):
        controller = self.controller
        nmasters   = len(self.masters)

        # Address mapping --------------------------------------------------------------------------
        cba_shifts = {
            "ROW_BANK_COL": max(
                controller.settings.geom.colbits - controller.address_align,
                log2_int(getattr(controller.settings, "bank_byte_alignment", 0) //(controller.data_width // 8))
            )
        }
        cba_shift = cba_shifts[controller.settings.address_mapping]
        m_ba      = [m.get_bank_address(self.bank_bits, cba_shift)for m in self.masters]
        m_rca     = [m.get_row_column_address(self.bank_bits, self.rca_bits, cba_shift) for m in self.masters]

        master_readys       = [0]*nmasters
        master_wdata_readys = [0]*nmasters
        master_rdata_valids = [0]*nmasters

        arbiters = [roundrobin.RoundRobin(nmasters, roundrobin.SP_CE) for n in range(self.nbanks)]
        self.submodules += arbiters

        for nb, arbiter in enumerate(arbiters):
            bank = getattr(controller, "bank"+str(nb))

            # For each master, determine if another bank locks it ----------------------------------
            master_locked = []
            for nm, master in enumerate(self.masters):
                locked = Signal()
                for other_nb, other_arbiter in enumerate(arbiters):
                    if other_nb != nb:
                        other_bank = getattr(controller, "bank"+str(other_nb))
                        locked = locked | (other_bank.lock & (other_arbiter.grant == nm))
                master_locked.append(locked)

            # Arbitrate ----------------------------------------------------------------------------
            bank_selected  = [(ba == nb) & ~locked for ba, locked in zip(m_ba, master_locked)]
            bank_requested = [bs & master.cmd.valid for bs, master in zip(bank_selected, self.masters)]
            self.comb += [
                arbiter.request.eq(Cat(*bank_requested)),
                arbiter.ce.eq(~bank.valid & ~bank.lock)
            ]

            # Route requests -----------------------------------------------------------------------
            self.comb += [
                bank.addr.eq(Array(m_rca)[arbiter.grant]),
                bank.we.eq(Array(self.masters)[arbiter.grant].cmd.we),
                bank.valid.eq(Array(bank_requested)[arbiter.grant])
            ]
            master_readys = [master_ready | ((arbiter.grant == nm) & bank_selected[nm] & bank.ready)
                for nm, master_ready in enumerate(master_readys)]
            master_wdata_readys = [master_wdata_ready | ((arbiter.grant == nm) & bank.wdata_ready)
                for nm, master_wdata_ready in enumerate(master_wdata_readys)]
            master_rdata_valids = [master_rdata_valid | ((arbiter.grant == nm) & bank.rdata_valid)
                for nm, master_rdata_valid in enumerate(master_rdata_valids)]

        # Delay write/read signals based on their latency
        for nm, master_wdata_ready in enumerate(master_wdata_readys):
            for i in range(self.write_latency):
                new_master_wdata_ready = Signal()
                self.sync += new_master_wdata_ready.eq(master_wdata_ready)
                master_wdata_ready = new_master_wdata_ready
            master_wdata_readys[nm] = master_wdata_ready

        for nm, master_rdata_valid in enumerate(master_rdata_valids):
            for i in range(self.read_latency):
                new_master_rdata_valid = Signal()
                self.sync += new_master_rdata_valid.eq(master_rdata_valid)
                master_rdata_valid = new_master_rdata_valid
            master_rdata_valids[nm] = master_rdata_valid

        for master, master_ready in zip(self.masters, master_readys):
            self.comb += master.cmd.ready.eq(master_ready)
        for master, master_wdata_ready in zip(self.masters, master_wdata_readys):
            self.comb += master.wdata.ready.eq(master_wdata_ready)
        for master, master_rdata_valid in zip(self.masters, master_rdata_valids):
            self.comb += master.rdata.valid.eq(master_rdata_valid)

        # Route data writes ------------------------------------------------------------------------
        wdata_cases = {}
        for nm, master in enumerate(self.masters):
            wdata_cases[2**nm] = [
                controller.wdata.eq(master.wdata.data),
                controller.wdata_we.eq(master.wdata.we)
            ]
        wdata_cases["default"] = [
            controller.wdata.eq(0),
            controller.wdata_we.eq(0)
        ]
        self.comb += Case(Cat(*master_wdata_readys), wdata_cases)

        # Route data reads -------------------------------------------------------------------------
        for master in self.masters:
            self.comb += master.rdata.data.eq(controller.rdata)

# ======================================================================================================
# keep_2 specific: lock-step comparison of the tree's crossbar with the unmodified do_finalize
# (RefCrossbar above) under unconstrained random inputs.
# ======================================================================================================

class _S(Settings):
    def __init__(self, **kw):
        self.set_attributes(kw)


def lockstep_crossbar(seed):
    rng = random.Random(mix(seed, 31337))
    nmasters = rng.choice([1, 2, 3, 4, 5])
    bankbits = rng.choice([1, 2, 3])
    nranks   = rng.choice([1, 1, 2]) if bankbits < 3 else 1
    memtype  = rng.choice(["SDR", "DDR2", "DDR3"])
    nphases  = {"SDR": 1, "DDR2": 2, "DDR3": 4}[memtype]
    align    = log2_int(burst_lengths[memtype])
    def mk():
        s = _S(cmd_buffer_depth=8, address_mapping="ROW_BANK_COL")
        s.phy  = _S(nphases=nphases, nranks=nranks, memtype=memtype, dfi_databits=8,
                    read_latency=rl, write_latency=wl, cwl=2)
        s.geom = _S(bankbits=bankbits, rowbits=3, colbits=align + 2)
        return LiteDRAMInterface(align, s)
    rl = rng.randrange(1, 6); wl = rng.randrange(0, 4)

    class Pair(Module):
        def __init__(self):
            self.i_new = mk(); self.i_ref = mk()
            self.submodules.new = LiteDRAMCrossbar(self.i_new)
            self.submodules.ref = RefCrossbar(self.i_ref)
            self.m_new = [self.new.get_port() for _ in range(nmasters)]
            self.m_ref = [self.ref.get_port() for _ in range(nmasters)]
    dut = Pair()
    nbanks = dut.i_new.nbanks
    aw = dut.m_new[0].address_width
    dw = dut.i_new.data_width

    def outs(iface, masters):
        o = []
        for nb in range(nbanks):
            b = getattr(iface, "bank%d" % nb)
            o += [b.valid, b.we, b.addr]
        o += [iface.wdata, iface.wdata_we]
        for m in masters:
            o += [m.cmd.ready, m.wdata.ready, m.rdata.valid, m.rdata.data]
        return o
    o_new = outs(dut.i_new, dut.m_new); o_ref = outs(dut.i_ref, dut.m_ref)
    p_lock = rng.choice([0.1, 0.3, 0.6]); p_valid = rng.choice([0.3, 0.7, 0.95]); p_rdy = rng.choice([0.3, 0.8])
    hot = [rng.randrange(1 << aw) for _ in range(3)]
    stats = dict(accepted=0, valid_blocked=0)
    ncycles = 1500

    def gen():
        addrs = [0]*nmasters; valids = [0]*nmasters
        for t in range(ncycles):
            vn = []; vr = []
            for s in o_new: vn.append((yield s))
            for s in o_ref: vr.append((yield s))
            if vn != vr:
                raise TBError("crossbar lock-step seed %d cycle %d: outputs differ\nnew=%r\nref=%r" % (seed, t, vn, vr))
            for i in range(nmasters):
                rdy = vr[3*nbanks + 2 + 4*i]
                if valids[i] and rdy: stats["accepted"] += 1
                if valids[i] and not rdy: stats["valid_blocked"] += 1
            # bank side: unconstrained
            for nb in range(nbanks):
                vals = (1 if rng.random() < p_rdy else 0, 1 if rng.random() < p_lock else 0,
                        1 if rng.random() < 0.3 else 0, 1 if rng.random() < 0.3 else 0)
                for iface in (dut.i_new, dut.i_ref):
                    b = getattr(iface, "bank%d" % nb)
                    yield b.ready.eq(vals[0]); yield b.lock.eq(vals[1])
                    yield b.wdata_ready.eq(vals[2]); yield b.rdata_valid.eq(vals[3])
            rd = rng.getrandbits(dw)
            yield dut.i_new.rdata.eq(rd); yield dut.i_ref.rdata.eq(rd)
            # master side: unconstrained (commands may be withdrawn / changed at any time)
            for i in range(nmasters):
                if rng.random() < 0.6:
                    addrs[i] = rng.choice(hot) ^ (rng.randrange(1 << aw) if rng.random() < 0.5 else 0)
                    valids[i] = 1 if rng.random() < p_valid else 0
                we = rng.randrange(2); wd = rng.getrandbits(dw); wwe = rng.getrandbits(dw//8)
                for m in (dut.m_new[i], dut.m_ref[i]):
                    yield m.cmd.valid.eq(valids[i]); yield m.cmd.addr.eq(addrs[i]); yield m.cmd.we.eq(we)
                    yield m.wdata.data.eq(wd); yield m.wdata.we.eq(wwe)
            yield
    run_simulation(dut, gen())
    return stats


def _ls_worker(seed):
    try:
        return seed, lockstep_crossbar(seed), None
    except Exception as e:
        return seed, None, "%s\n%s" % (e, traceback.format_exc())


def main():
    import multiprocessing as mp
    bad = 0
    nproc = min(8, os.cpu_count() or 1)
    with mp.Pool(nproc) as pool:
        ls = pool.map_async(_ls_worker, range(1, 13), chunksize=1)
        wc = pool.map_async(_worker, make_cfgs(), chunksize=1)
        ls = ls.get(); wc = wc.get()
    tot = dict(accepted=0, valid_blocked=0)
    for seed, c, e in ls:
        if e:
            bad += 1; print("FAIL lock-step seed", seed, e)
        else:
            for k in tot: tot[k] += c[k]
    print("crossbar lock-step vs unmodified do_finalize: 12 runs x 1500 cycles:", tot)
    if min(tot.values()) < 500:
        bad += 1; print("FAIL: lock-step stimulus too weak")
    for name, h, st, e in wc:
        if e:
            bad += 1; print("FAIL", name, e)
        elif GOLDEN.get(name) != h:
            bad += 1; print("FAIL", name, "property checks pass but trace differs from unmodified tree", h)
        else:
            print("ok  ", name, "(C01 checks pass, cycle-exact = unmodified)", st)
    print("RESULT:", "FAIL" if bad else "PASS")
    sys.exit(1 if bad else 0)


if __name__ == "__main__":
    main()
