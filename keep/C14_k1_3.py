#!/usr/bin/env python3
"""C14 check: the BIST generator writes exactly its sequence, the BIST checker reports exactly the
number of sequence positions whose stored word differs from the generated word.

Drives the REAL _LiteDRAMBISTGenerator / _LiteDRAMBISTChecker (and the real DMA writer / reader under
them) over native and AXI ports attached to a behavioural memory with randomised handshakes and
latencies, for many random base / end / length / random_data / random_addr settings, data widths,
address widths, cascade stalls and corruption sets, and compares against an independent Python model
of the LFSR / counter sequences.

Change specific part (keep_3): the address generator, the range mask, the base offset and the AXI byte
addressing were moved from the Generator and the Checker to a shared _LiteDRAMBISTAddressGenerator
-> extra sweeps of the address path: every data width (ashift 0..4) for native and AXI ports, bases
that are not aligned on a word / on the range, ranges at the very top of the address space (the
base + offset sum wraps and is truncated to the port address), every power of two range size, and the
checker run with other settings than the generator.

Run from the root of the tree: python keep_3.py [--trace FILE] [--quick]
"""

import os
import sys
import random
import hashlib
from collections import deque

sys.path.insert(0, os.getcwd())

from migen import *
from migen.sim import passive

from litedram.common import LiteDRAMNativeWritePort, LiteDRAMNativeReadPort
from litedram.frontend.axi import LiteDRAMAXIPort
from litedram.frontend.bist import _LiteDRAMBISTGenerator, _LiteDRAMBISTChecker

# Reference model ----------------------------------------------------------------------------------

def lfsr_next(state, n=31, taps=(27, 30)):
    """One clock of litedram.frontend.bist.LFSR with n_out == n_state == n: returns (state', o)."""
    cur = [(state >> i) & 1 for i in range(n)]
    for _ in range(n):
        nv = 1 ^ cur[taps[0]] ^ cur[taps[1]]
        cur.insert(0, nv)
        cur.pop()
    v = sum(b << i for i, b in enumerate(cur))
    return v, v


def gen_sequence(random_enable, n):
    """Values shown by Generator.o before the 1st, 2nd, ... n-th clock enable (after a reset)."""
    out   = []
    state = 0
    for i in range(n):
        state_next, o = lfsr_next(state)
        out.append(o if random_enable else (i & (2**31 - 1)))
        state = state_next
    return out


class Cfg:
    def __init__(self, kind, data_width, address_width, base, end, length, random_data, random_addr):
        self.kind          = kind
        self.data_width    = data_width
        self.address_width = address_width
        self.ashift        = (data_width//8).bit_length() - 1
        self.awidth        = address_width + self.ashift if kind == "native" else address_width
        self.base, self.end, self.length = base, end, length
        self.random_data, self.random_addr = random_data, random_addr

    @property
    def nwords(self):
        return (self.length & (2**self.awidth - 1)) >> self.ashift

    def sequence(self):
        """[(memory word index, data)] for every sequence position."""
        n      = self.nwords
        mask   = (self.end - self.base - 1) & (2**self.awidth - 1)
        abits  = self.address_width if self.kind == "native" else self.address_width - self.ashift
        addrs  = gen_sequence(self.random_addr, n)
        datas  = gen_sequence(self.random_data, n)
        seq    = []
        for a, d in zip(addrs, datas):
            word = ((self.base >> self.ashift) + (a & mask)) & (2**abits - 1)
            rep  = 0
            for k in range((self.data_width + 30)//31):
                rep |= d << (31*k)
            seq.append((word, rep & (2**self.data_width - 1)))
        return seq

    def __repr__(self):
        return "Cfg(%s dw=%d aw=%d base=0x%x end=0x%x length=0x%x rd=%d ra=%d)" % (
            self.kind, self.data_width, self.address_width, self.base, self.end, self.length,
            self.random_data, self.random_addr)

# Behavioural memory + port models -----------------------------------------------------------------

class Timing:
    def __init__(self):
        self.p_cmd = 1.0   # probability of cmd/aw/ar ready in a cycle
        self.p_w   = 1.0   # probability of wdata/w ready in a cycle
        self.p_r   = 1.0   # probability that a ripe read data is presented in a cycle
        self.lat   = (1, 2)  # read latency range (cycles)

    def randomize(self, rng):
        self.p_cmd = rng.choice([1.0, 1.0, 0.8, 0.5, 0.25, 0.1])
        self.p_w   = rng.choice([1.0, 1.0, 0.8, 0.5, 0.25, 0.1])
        self.p_r   = rng.choice([1.0, 1.0, 0.8, 0.5, 0.25])
        lo         = rng.choice([1, 1, 2, 5, 20, 30])
        self.lat   = (lo, lo + rng.choice([0, 1, 3, 10]))


class Env:
    """Memory (dict word index -> data, unwritten words read 0), logs and the cycle-exact trace."""
    def __init__(self, seed):
        self.mem    = {}
        self.wlog   = []   # (word, data) in write order
        self.rlog   = []   # word in read command order
        self.timing = Timing()
        self.rng    = random.Random(seed)
        self.cycle  = 0
        self.trace  = hashlib.sha256()
        self.errors = []

    def ev(self, *args):
        self.trace.update(repr((self.cycle,) + args).encode())

    def fail(self, msg):
        self.errors.append(msg)


@passive
def ticker(env):
    while True:
        env.cycle += 1
        yield


@passive
def write_port_model(env, port, kind, ashift, data_width):
    """cmd+wdata (native) or aw+w+b (AXI) slave. """
    if kind == "native":
        cmd, w = port.cmd, port.wdata
    else:
        cmd, w = port.aw, port.w
    full_we = 2**(data_width//8) - 1
    cmd_ready, w_ready = 0, 0
    addrs, datas = deque(), deque()
    b_pending, b_valid = 0, 0
    while True:
        if cmd_ready and (yield cmd.valid):
            addr = (yield cmd.addr)
            if kind == "native":
                if not (yield cmd.we):
                    env.fail("read command on the write port")
            else:
                if addr & (2**ashift - 1):
                    env.fail("unaligned AXI write address 0x%x" % addr)
                if (yield cmd.size) != ashift:
                    env.fail("bad AXI aw.size")
                addr >>= ashift
            env.ev("wcmd", addr)
            addrs.append(addr)
        if w_ready and (yield w.valid):
            data = (yield w.data)
            we   = (yield w.we) if kind == "native" else (yield w.strb)
            if we != full_we:
                env.fail("partial write enable 0x%x" % we)
            env.ev("wdata", data)
            datas.append(data)
        while addrs and datas:
            a, d = addrs.popleft(), datas.popleft()
            env.mem[a] = d
            env.wlog.append((a, d))
            b_pending += 1
        if kind == "axi":
            if b_valid and (yield port.b.ready):
                b_pending -= 1
            elif b_valid:
                env.fail("AXI b.ready low")
        r1, r2 = env.rng.random(), env.rng.random()
        cmd_ready = int(r1 < env.timing.p_cmd)
        # a real controller only takes write data for commands it has already accepted (native)
        w_ready   = int(r2 < env.timing.p_w and (kind == "axi" or len(addrs) > 0))
        yield cmd.ready.eq(cmd_ready)
        yield w.ready.eq(w_ready)
        if kind == "axi":
            b_valid = int(b_pending > 0)
            yield port.b.valid.eq(b_valid)
        yield


@passive
def read_port_model(env, port, kind, ashift):
    """cmd+rdata (native) or ar+r (AXI) slave, in-order data, random latency."""
    if kind == "native":
        cmd, r = port.cmd, port.rdata
    else:
        cmd, r = port.ar, port.r
    cmd_ready = 0
    queue     = deque()  # (word, ripe cycle)
    showing   = None
    while True:
        if cmd_ready and (yield cmd.valid):
            addr = (yield cmd.addr)
            if kind == "native":
                if (yield cmd.we):
                    env.fail("write command on the read port")
            else:
                if addr & (2**ashift - 1):
                    env.fail("unaligned AXI read address 0x%x" % addr)
                addr >>= ashift
            env.ev("rcmd", addr)
            env.rlog.append(addr)
            queue.append((addr, env.cycle + env.rng.randint(*env.timing.lat)))
        if showing is not None:
            if (yield r.ready):
                env.ev("rdata", showing)
                showing = None
            elif kind == "native":
                # the controller does not look at rdata.ready: a word not taken would be lost.
                env.fail("native rdata.ready low while rdata.valid")
                showing = None
        r1, r2 = env.rng.random(), env.rng.random()
        cmd_ready = int(r1 < env.timing.p_cmd)
        yield cmd.ready.eq(cmd_ready)
        if showing is None:
            if queue and queue[0][1] <= env.cycle and r2 < env.timing.p_r:
                word, _ = queue.popleft()
                showing = env.mem.get(word, 0)
                yield r.valid.eq(1)
                yield r.data.eq(showing)
            else:
                yield r.valid.eq(0)
        yield


@passive
def cascade_model(env, modules, state):
    """Random stalls on run_cascade_in when state["p_stall"] > 0 (cascade chain stall)."""
    while True:
        for m in modules:
            x = env.rng.random()
            yield m.run_cascade_in.eq(int(x >= state["p_stall"]))
        yield

# Driver -------------------------------------------------------------------------------------------

def run_module(env, m, cfg, rng, late_config, max_cycles, hold=None):
    """reset, configure, start, wait for done. Returns True when done was reached.

    late_config mimics the CSR/CDC wrapper: start is seen one cycle BEFORE the new settings are (the
    wrapper registers base/end/length/random_* but forwards start combinatorially)."""
    yield m.reset.eq(1)
    yield
    yield m.reset.eq(0)
    yield
    def settings(c):
        return [m.base.eq(c.base), m.end.eq(c.end), m.length.eq(c.length),
                m.random_data.eq(c.random_data), m.random_addr.eq(c.random_addr)]
    if late_config:
        garbage = Cfg(cfg.kind, cfg.data_width, cfg.address_width,
            rng.getrandbits(cfg.awidth), rng.getrandbits(cfg.awidth), rng.getrandbits(cfg.awidth),
            rng.getrandbits(1), rng.getrandbits(1))
        for s in settings(garbage):
            yield s
    else:
        for s in settings(cfg):
            yield s
    for _ in range(rng.randrange(3)):
        yield
    yield m.start.eq(1)
    yield
    for s in settings(cfg):
        yield s
    # start is a single cycle pulse with the CSR wrappers; up to 3 cycles here (the unmodified checker
    # re-issues its commands when start is still high 3 cycles after its first cycle: its command FSM
    # is back to the IDLE actions by then for a one word sequence).
    if hold is None:
        hold = rng.choice([0, 0, 0, 1, 2]) if not late_config else 0
    for _ in range(hold):
        yield
    yield m.start.eq(0)
    yield
    env.ev("started")
    n = 0
    while not (yield m.done):
        yield
        n += 1
        if n > max_cycles:
            env.fail("%r: done not reached after %d cycles" % (cfg, max_cycles))
            return False
    env.ev("done")
    return True


def quiet_check(env, m, what, cfg, errors=None):
    """After done: nothing more happens on the ports, done and errors are stable."""
    nw, nr = len(env.wlog), len(env.rlog)
    for _ in range(24):
        yield
        if not (yield m.done):
            env.fail("%r: %s done dropped" % (cfg, what))
            return
        if errors is not None and (yield m.errors) != errors:
            env.fail("%r: %s errors changed after done" % (cfg, what))
            return
    if (nw, nr) != (len(env.wlog), len(env.rlog)):
        env.fail("%r: %s port traffic after done" % (cfg, what))


def check_one(env, dut, gcfg, ccfgs, rng, late_config, corrupt, opts, stats):
    """One generator run + corruption + checker runs (first with gcfg, then the other ccfgs)."""
    kind, ashift = gcfg.kind, gcfg.ashift
    env.mem.clear()
    # memory is not blank: unwritten words must not matter (they read 0 or old garbage)
    gseq = gcfg.sequence()
    fast = opts.get("fast", False)
    hold = opts.get("hold", None)
    if fast:
        env.timing = Timing()  # always ready, minimum latency
    else:
        env.timing.randomize(rng)
    budget = 400 + 120*max(1, len(gseq))*3
    del env.wlog[:]
    ok = yield from run_module(env, dut.generator, gcfg, rng, late_config, budget, hold)
    if not ok:
        return
    # --- generator: at done, exactly the sequence has been written, in order
    if env.wlog != gseq:
        env.fail("%r: writes differ from the sequence: got %d writes, expected %d; first diff %r" % (
            gcfg, len(env.wlog), len(gseq),
            next(((i, a, b) for i, (a, b) in enumerate(zip(env.wlog, gseq)) if a != b), None)))
        return
    model_mem = {}
    for a, d in gseq:
        model_mem[a] = d
    if model_mem != env.mem:
        env.fail("%r: memory image differs from the model" % gcfg)
    yield from quiet_check(env, dut.generator, "generator", gcfg)

    # --- corruption of k stored words (+ some words outside of the sequence)
    written = sorted(model_mem)
    k = 0
    if corrupt and written:
        k = rng.choice([1, 1, 2, 3, len(written)//2, len(written)])
        k = max(0, min(k, len(written)))
        for a in rng.sample(written, k):
            env.mem[a] ^= rng.randrange(1, 2**gcfg.data_width)
        for _ in range(rng.randrange(3)):
            a = rng.getrandbits(gcfg.address_width)
            if a not in model_mem:
                env.mem[a] = rng.getrandbits(gcfg.data_width)

    for n, ccfg in enumerate([gcfg] + ccfgs):
        cseq     = ccfg.sequence()
        expected = sum(1 for a, d in cseq if env.mem.get(a, 0) != d)
        if n == 0:
            # property corollaries
            if len(set(a for a, _ in cseq)) == len(cseq):
                if expected != k:
                    env.fail("harness: %r expected %d != k %d" % (ccfg, expected, k))
        if not fast:
            env.timing.randomize(rng)
        del env.rlog[:]
        budget = 400 + 120*max(1, len(cseq))*3
        ok = yield from run_module(env, dut.checker, ccfg, rng, late_config, budget, hold)
        if not ok:
            return
        errors = (yield dut.checker.errors)
        env.ev("errors", errors)
        if env.rlog != [a for a, _ in cseq]:
            env.fail("%r: read addresses differ from the sequence (%d reads, expected %d)" % (
                ccfg, len(env.rlog), len(cseq)))
        if errors != expected:
            env.fail("%r: checker reports %d errors, %d positions differ (k=%d)" % (
                ccfg, errors, expected, k))
        yield from quiet_check(env, dut.checker, "checker", ccfg, errors)
        stats["checks"] += 1
        stats["errors_seen"] += int(expected > 0)
        stats["max_errors"] = max(stats["max_errors"], expected)
    stats["gen"] += 1


class DUT(Module):
    def __init__(self, kind, data_width, address_width):
        if kind == "native":
            self.write_port = LiteDRAMNativeWritePort(address_width=address_width, data_width=data_width)
            self.read_port  = LiteDRAMNativeReadPort(address_width=address_width, data_width=data_width)
        else:
            self.write_port = LiteDRAMAXIPort(data_width=data_width, address_width=address_width)
            self.read_port  = LiteDRAMAXIPort(data_width=data_width, address_width=address_width)
        self.submodules.generator = _LiteDRAMBISTGenerator(self.write_port)
        self.submodules.checker   = _LiteDRAMBISTChecker(self.read_port)


def random_cfg(rng, kind, data_width, address_width, max_words):
    c      = Cfg(kind, data_width, address_width, 0, 0, 0, 0, 0)
    ashift = c.ashift
    wbits  = c.awidth - ashift  # word counter / length bits
    nmax   = min(max_words, 2**wbits - 1)
    nwords = rng.choice([1, 2, 3, rng.randint(1, nmax), rng.randint(1, nmax), nmax])
    nwords = max(1, min(nwords, nmax))
    # power of two range (in the units of the implementation: end - base), anywhere in the space
    rbits  = rng.randint(0, min(c.awidth - 1, 12))
    if rng.random() < 0.5:
        # range large enough for sequential addresses not to wrap (no repeated address)
        rbits = min(c.awidth - 1, max(rbits, (nwords - 1).bit_length()))
    rng_sz = 2**rbits
    base   = rng.getrandbits(c.awidth) if rng.random() < 0.7 else rng.getrandbits(min(c.awidth, 8))
    if rng.random() < 0.5:
        base &= ~(2**ashift - 1)
    end    = (base + rng_sz) & (2**c.awidth - 1)
    length = (nwords << ashift) | (rng.getrandbits(ashift) if ashift and rng.random() < 0.3 else 0)
    return Cfg(kind, data_width, address_width, base, end, length,
        rng.getrandbits(1), rng.getrandbits(1))


def simulate(kind, data_width, address_width, jobs, seed):
    """jobs: list of (gcfg, [ccfg...], late_config, corrupt, p_stall, opts)."""
    env   = Env(seed)
    rng   = random.Random(seed ^ 0x5eed)
    dut   = DUT(kind, data_width, address_width)
    stats = dict(gen=0, checks=0, errors_seen=0, max_errors=0)
    casc  = dict(p_stall=0.0)
    ashift = (data_width//8).bit_length() - 1

    def main():
        for gcfg, ccfgs, late_config, corrupt, p_stall, opts in jobs:
            casc["p_stall"] = p_stall
            yield from check_one(env, dut, gcfg, ccfgs, rng, late_config, corrupt, opts, stats)
            if env.errors:
                return

    run_simulation(dut, [
        main(),
        ticker(env),
        write_port_model(env, dut.write_port, kind, ashift, data_width),
        read_port_model(env, dut.read_port, kind, ashift),
        cascade_model(env, [dut.generator, dut.checker], casc),
    ])
    return env, stats


def random_jobs(rng, kind, data_width, address_width, n, max_words):
    jobs = []
    for _ in range(n):
        g = random_cfg(rng, kind, data_width, address_width, max_words)
        others = []
        if rng.random() < 0.5:
            # checker with other settings over the same memory image (as test_bist's shifted base)
            o = random_cfg(rng, kind, data_width, address_width, max_words)
            if rng.random() < 0.6:
                o = Cfg(kind, data_width, address_width,
                    (g.base + (rng.randrange(4) << g.ashift)) & (2**g.awidth - 1), g.end,
                    o.length, g.random_data, g.random_addr)
            others.append(o)
        jobs.append((g, others, rng.random() < 0.4, rng.random() < 0.5,
            rng.choice([0.0, 0.0, 0.3, 0.7]), dict()))
    return jobs

# Change specific -----------------------------------------------------------------------------------

def specific_jobs(rng, quick):
    """Address path sweeps: all range sizes (mask = end - base - 1 from 0 to all ones, and a few non power
    of two ones: the model follows the implementation), unaligned bases, top of the address space."""
    sims = []
    for kind, dw, aw in [("native", 8, 7), ("native", 16, 6), ("native", 32, 32), ("native", 128, 5),
                         ("axi", 8, 7), ("axi", 16, 8), ("axi", 64, 32), ("axi", 128, 9)]:
        c    = Cfg(kind, dw, aw, 0, 0, 0, 0, 0)
        jobs = []
        sizes = list(range(0, min(c.awidth, 9) + 1))
        if quick:
            sizes = sizes[:2] + sizes[-1:]
        for n, rbits in enumerate(sizes):
            size  = 2**rbits if rbits < c.awidth else 0   # 0: the whole space (mask all ones)
            if n % 4 == 3:
                size += rng.randrange(1, 4)                # not a power of two
            place = rng.choice(["top", "top", "low", "any"])
            if place == "top":
                base = (2**c.awidth - size - rng.randrange(0, 2**c.ashift + 1)) & (2**c.awidth - 1)
            elif place == "low":
                base = rng.randrange(0, 2**c.ashift + 2)
            else:
                base = rng.getrandbits(c.awidth)
            wbits  = c.awidth - c.ashift
            nwords = max(1, min(rng.choice([2, 5, 12, 24]), 2**wbits - 1))
            g = Cfg(kind, dw, aw, base, (base + size) & (2**c.awidth - 1), nwords << c.ashift,
                rng.getrandbits(1), n % 2)
            o = Cfg(kind, dw, aw, (base + (rng.randrange(1, 4) << c.ashift)) & (2**c.awidth - 1), g.end,
                g.length, g.random_data, g.random_addr)
            jobs.append((g, [o] if n % 2 else [], rng.random() < 0.5, rng.random() < 0.6,
                rng.choice([0.0, 0.0, 0.5]), dict(fast=rng.random() < 0.3)))
        sims.append((kind, dw, aw, jobs))
    return sims


def _simulate_job(args):
    i, kind, dw, aw, jobs = args
    env, stats = simulate(kind, dw, aw, jobs, seed=1000 + i)
    return i, kind, dw, aw, len(jobs), env.cycle, env.errors, env.trace.hexdigest(), stats


def main(specific, argv):
    import multiprocessing
    quick = "--quick" in argv
    trace_file = argv[argv.index("--trace") + 1] if "--trace" in argv else None
    nproc = int(argv[argv.index("--jobs") + 1]) if "--jobs" in argv else 4
    rng   = random.Random(0xC14)
    sims  = []
    n     = 2 if quick else 10
    for kind, dw, aw, max_words in [
        ("native",   8,  6, 63),
        ("native",  32, 32, 48),
        ("native",  64, 24, 40),
        ("native", 128, 10, 40),
        ("axi",     32, 32, 48),
        ("axi",     64, 16, 40),
        ("axi",      8,  8, 48),
        ("axi",    128, 20, 40)]:
        sims.append((kind, dw, aw, random_jobs(rng, kind, dw, aw, n, max_words)))
    sims += specific(rng, quick)

    work = [(i,) + sim for i, sim in enumerate(sims)]
    if nproc > 1:
        with multiprocessing.Pool(nproc) as pool:
            results = pool.map(_simulate_job, work, chunksize=1)
    else:
        results = [_simulate_job(w) for w in work]

    traces = []
    total  = dict(gen=0, checks=0, errors_seen=0, max_errors=0)
    clean  = 0
    failed = False
    for i, kind, dw, aw, njobs, cycles, errors, trace, stats in sorted(results):
        traces.append(trace)
        for key in total:
            total[key] = max(total[key], stats[key]) if key == "max_errors" else total[key] + stats[key]
        print("%-6s dw=%-3d aw=%-2d jobs=%-3d cycles=%-7d %s" % (kind, dw, aw, njobs, cycles,
            "FAIL" if errors else "ok"))
        for e in errors[:5]:
            print("   ", e)
        if stats["gen"] != njobs:
            failed = True
        failed |= bool(errors)
    print("generator runs: %(gen)d, checker runs: %(checks)d, with errors: %(errors_seen)d, "
          "max errors: %(max_errors)d" % total)
    if trace_file:
        with open(trace_file, "w") as f:
            f.write("\n".join(traces) + "\n")
    if failed or total["errors_seen"] == 0 or total["errors_seen"] == total["checks"]:
        print("FAIL")
        return 1
    print("PASS")
    return 0


if __name__ == "__main__":
    sys.exit(main(specific_jobs, sys.argv[1:]))
