#!/usr/bin/env python3
import os
import sys
import math
import random

sys.path.insert(0, os.getcwd())

from migen import *

from litedram import modules as M
from litedram.common import PhySettings, burst_lengths
from litedram.core.controller import LiteDRAMController, ControllerSettings

# ==================================================================================================
# Shared part: datasheet requirement table, DFI bus rule checker, controller test bench
# ==================================================================================================

# What the datasheet entry of the module asks for, in DRAM clocks (tCK = controller period / nphases).
def datasheet_clocks(module, nphases, cwl):
    memtype = module.memtype
    tck = 1e9/(module.clk_freq*nphases)
    def clocks(t):
        if t is None:
            return None
        return max(t.ck, math.ceil(t.ns/tck - 1e-9))
    def entry(name):
        if name == "tRFC" and memtype == "DDR4":
            return module.get(name, module.timing_settings.fine_refresh_mode)
        return module.get(name)
    need = {n: clocks(entry(n)) for n in
        ["tRP", "tRCD", "tWR", "tWTR", "tRFC", "tFAW", "tCCD", "tRRD", "tRAS", "tZQCS"]}
    need["tRC"] = None if entry("tRAS") is None else clocks(entry("tRAS") + entry("tRP"))
    # Clocks from the write command to the end of its data burst (tWR / tWTR start there).
    need["wr_end"] = 1 if memtype == "SDR" else cwl + burst_lengths[memtype]//2
    return need


class BusRules:
    """Replays the command stream seen on the DFI bus (T = sys_cycle*nphases + phase) and checks every
    pair of commands against the datasheet minimums. Explicit precharge, auto-precharge (A10 on the CAS,
    the internal precharge starts when tRAS / write recovery allow it) and precharge-all are handled."""
    def __init__(self, need, nbanks, nphases, tag):
        self.need, self.nbanks, self.nphases, self.tag = need, nbanks, nphases, tag
        self.errors   = []
        self.is_open  = [False]*nbanks
        self.t_act    = [None]*nbanks   # last ACT per bank
        self.t_wr     = [None]*nbanks   # last WR per bank since the row was opened
        self.t_pre    = [None]*nbanks   # start of the last (explicit / internal) precharge per bank
        self.acts     = []              # last four ACT, any bank
        self.t_cas    = None
        self.t_wr_any = None
        self.t_ref    = None
        self.t_zq     = None
        self.n        = dict(ACT=0, PRE=0, PREA=0, RD=0, WR=0, RDA=0, WRA=0, REF=0, ZQCS=0)
        self.slack    = {}
        self.ref_ref_sys = None         # min REF -> REF distance in controller cycles
        self.prea_per_ref = []          # for each REF: was there a PREA since the previous REF/ZQCS?
        self._prea_seen = False

    def fail(self, T, msg):
        self.errors.append("%s: T=%d (cycle %d phase %d) %s" % (self.tag, T, T//self.nphases, T % self.nphases, msg))

    def spacing(self, T, t0, need, rule):
        if t0 is None or need is None:
            return
        s = (T - t0) - need
        if s < self.slack.get(rule, 1 << 30):
            self.slack[rule] = s
        if s < 0:
            self.fail(T, "%s: %d clocks, datasheet needs %d" % (rule, T - t0, need))

    def command(self, T, kind, bank, a10):
        need = self.need
        self.spacing(T, self.t_ref, need["tRFC"],  "tRFC")
        self.spacing(T, self.t_zq,  need["tZQCS"], "tZQCS")
        if kind == "ACT":
            self.n["ACT"] += 1
            if self.is_open[bank]:
                self.fail(T, "ACT on bank %d which is already open" % bank)
            self.spacing(T, self.t_pre[bank], need["tRP"], "tRP")
            self.spacing(T, self.t_act[bank], need["tRC"], "tRC")
            if self.acts:
                self.spacing(T, self.acts[-1], need["tRRD"], "tRRD")
            if len(self.acts) == 4:
                self.spacing(T, self.acts[0], need["tFAW"], "tFAW")
            self.acts = (self.acts + [T])[-4:]
            self.is_open[bank] = True
            self.t_act[bank]   = T
            self.t_wr[bank]    = None
        elif kind in ("RD", "WR"):
            self.n[kind + ("A" if a10 else "")] += 1
            if not self.is_open[bank]:
                self.fail(T, "%s on bank %d which is closed" % (kind, bank))
            self.spacing(T, self.t_act[bank], need["tRCD"], "tRCD")
            self.spacing(T, self.t_cas,       need["tCCD"], "tCCD")
            if kind == "RD":
                self.spacing(T, self.t_wr_any, need["wr_end"] + need["tWTR"], "tWTR")
            else:
                self.t_wr_any  = T
                self.t_wr[bank] = T
            self.t_cas = T
            if a10:
                # Auto-precharge: the device starts the precharge as soon as tRAS and the write recovery
                # are satisfied (not before the CAS itself).
                start = T
                if self.t_wr[bank] is not None:
                    start = max(start, self.t_wr[bank] + need["wr_end"] + need["tWR"])
                if need["tRAS"] is not None and self.t_act[bank] is not None:
                    start = max(start, self.t_act[bank] + need["tRAS"])
                self.t_pre[bank]   = start
                self.is_open[bank] = False
        elif kind == "PRE":
            self.n["PREA" if a10 else "PRE"] += 1
            if a10:
                self._prea_seen = True
            for b in (range(self.nbanks) if a10 else [bank]):
                if self.is_open[b]:
                    self.spacing(T, self.t_act[b], need["tRAS"], "tRAS")
                    self.spacing(T, self.t_wr[b],  need["wr_end"] + need["tWR"], "tWR")
                    self.is_open[b] = False
                    self.t_pre[b]   = T
                elif self.t_pre[b] is not None and self.t_pre[b] > T:
                    self.fail(T, "precharge of bank %d before its pending auto-precharge could start" % b)
        elif kind in ("REF", "ZQCS"):
            self.n[kind] += 1
            for b in range(self.nbanks):
                if self.is_open[b]:
                    self.fail(T, "%s while bank %d is open" % (kind, b))
                self.spacing(T, self.t_pre[b], need["tRP"], "tRP before " + kind)
            if kind == "REF":
                if self.t_ref is not None:
                    d = (T - self.t_ref)//self.nphases
                    if self.ref_ref_sys is None or d < self.ref_ref_sys:
                        self.ref_ref_sys = d
                self.prea_per_ref.append(self._prea_seen)
                self.t_ref = T
            else:
                self.t_zq = T
            self._prea_seen = False
        else:
            self.fail(T, "unexpected command %s" % kind)


# (cas_n, ras_n, we_n) -> command
COMMANDS = {
    (1, 0, 1): "ACT",
    (1, 0, 0): "PRE",
    (0, 0, 1): "REF",
    (0, 1, 1): "RD",
    (0, 1, 0): "WR",
    (1, 1, 0): "ZQCS",
    (0, 0, 0): "MRS",
}


def sim_phy_settings(memtype, nphases, cl, cwl, rdphase, wrphase):
    return PhySettings(
        phytype       = "SIM",
        memtype       = memtype,
        databits      = 16,
        dfi_databits  = 16 if memtype == "SDR" else 32,
        nphases       = nphases,
        rdphase       = rdphase,
        wrphase       = wrphase,
        cl            = cl,
        cwl           = cwl,
        read_latency  = math.ceil(cl/nphases) + 4,
        write_latency = math.ceil(cwl/nphases))


def run_controller(modname, clk_freq, rate, speedgrade, cl, cwl, rdphase, wrphase, seed, cycles,
        auto_precharge=True, buffered=False, postponing=1, trefi=None, pattern="mixed", zqcs_every=3,
        probe=None):
    """Random traffic on every bank of the real LiteDRAMController, every DFI command checked by BusRules."""
    module  = getattr(M, modname)(clk_freq, rate, speedgrade=speedgrade)
    memtype = module.memtype
    nphases = int(rate.split(":")[1])
    tag = "%s %gMHz %s sg=%s rdphase=%d wrphase=%d ap=%d buf=%d postpone=%d %s seed=%d" % (
        modname, clk_freq/1e6, rate, speedgrade, rdphase, wrphase, auto_precharge, buffered, postponing, pattern, seed)

    timing = module.timing_settings
    # tREFI is a maximum: refreshing (much) more often is always legal and gives many "row opened just
    # before the refresh request" races.
    timing.tREFI = trefi if trefi is not None else 100 + 9*(seed % 6)
    settings = ControllerSettings(
        cmd_buffer_depth    = 4,
        cmd_buffer_buffered = buffered,
        read_time           = 12,
        write_time          = 8,
        with_auto_precharge = auto_precharge,
        refresh_zqcs_freq   = clk_freq/(zqcs_every*postponing*timing.tREFI + 13),
        refresh_postponing  = postponing)
    dut = LiteDRAMController(
        phy_settings        = sim_phy_settings(memtype, nphases, cl, cwl, rdphase, wrphase),
        geom_settings       = module.geom_settings,
        timing_settings     = timing,
        clk_freq            = clk_freq,
        controller_settings = settings)

    bankbits = module.geom_settings.bankbits
    nbanks   = 2**bankbits
    rules    = BusRules(datasheet_clocks(module, nphases, cwl), nbanks, nphases, tag)
    prng     = random.Random(seed)
    ports    = [getattr(dut.interface, "bank%d" % n) for n in range(nbanks)]
    align    = int(math.log2(nphases if memtype == "SDR" else burst_lengths[memtype]))
    colsplit = module.geom_settings.colbits - align

    # One wide signal per cycle instead of many small simulator reads.
    top = Module()
    top.submodules.dut = dut
    readys = Signal(nbanks)
    top.comb += readys.eq(Cat(*[p.ready for p in ports]))
    width = 4 + bankbits + 1
    bus   = Signal(width*nphases)
    top.comb += bus.eq(Cat(*[Cat(ph.cs_n[0], ph.cas_n, ph.ras_n, ph.we_n, ph.bank[:bankbits], ph.address[10])
        for ph in dut.dfi.phases]))
    probe_sig = None
    if probe is not None:
        probe_sig = Signal(32)
        top.comb += probe_sig.eq(probe(dut))
    rules.probe_values = []

    def traffic():
        st = [dict(row=0, we=prng.randrange(2), wait=prng.randrange(16), busy=False) for _ in range(nbanks)]
        silence = 0
        for _ in range(cycles):
            if not silence and prng.random() < 0.005:
                silence = prng.randrange(8, 100)
            silence = max(0, silence - 1)
            rdy = (yield readys)
            for n, (p, s) in enumerate(zip(ports, st)):
                if s["busy"]:
                    if not (rdy >> n) & 1:
                        continue
                    s["busy"] = False
                    yield p.valid.eq(0)
                    s["wait"] = 0 if prng.random() < 0.7 else prng.randrange(1, 30)
                if s["wait"]:
                    s["wait"] -= 1
                elif not silence:
                    if pattern == "conflict":      # (nearly) every access to another row
                        s["row"] = prng.randrange(5)
                    elif pattern == "hits":        # long runs on the open row
                        s["row"] = s["row"] if prng.random() < 0.92 else prng.randrange(3)
                    else:
                        s["row"] = s["row"] if prng.random() < 0.6 else prng.randrange(3)
                    if prng.random() < (0.5 if pattern == "turnaround" else 0.2):
                        s["we"] = prng.randrange(2)
                    yield p.addr.eq((s["row"] << colsplit) | prng.randrange(2**colsplit))
                    yield p.we.eq(s["we"])
                    yield p.valid.eq(1)
                    s["busy"] = True
            yield

    @passive
    def monitor():
        cycle = 0
        while True:
            v = (yield bus)
            if probe_sig is not None:
                rules.probe_values.append((yield probe_sig))
            for ph in range(nphases):
                w = (v >> (ph*width)) & (2**width - 1)
                if w & 1:                        # cs_n
                    continue
                key = ((w >> 1) & 1, (w >> 2) & 1, (w >> 3) & 1)
                if key == (1, 1, 1):             # NOP
                    continue
                rules.command(cycle*nphases + ph, COMMANDS[key], (w >> 4) & (nbanks - 1), (w >> (4 + bankbits)) & 1)
            yield
            cycle += 1

    run_simulation(top, [traffic(), monitor()])
    return rules


def _job(cfg):
    r = run_controller(**cfg)
    return dict(tag=r.tag, errors=r.errors, n=r.n, slack=r.slack, ref_ref_sys=r.ref_ref_sys,
        prea_per_ref=r.prea_per_ref, probe_values=getattr(r, "probe_values", []))


def run_many(cfgs, min_activity=True):
    """Runs the configurations in parallel, prints one line per run; returns (number of problems, results)."""
    import multiprocessing
    with multiprocessing.Pool(int(os.environ.get("KEEP_JOBS", "6"))) as pool:
        results = pool.map(_job, cfgs, chunksize=1)
    bad   = 0
    slack = {}
    for r in results:
        for k, v in r["slack"].items():
            slack[k] = min(slack.get(k, v), v)
        print("%-86s %s %s" % (r["tag"], "FAIL" if r["errors"] else "ok  ",
            " ".join("%s=%d" % kv for kv in sorted(r["n"].items()) if kv[1])))
        for e in r["errors"][:8]:
            print("      " + e)
        bad += len(r["errors"])
        n = r["n"]
        if min_activity and (n["ACT"] < 40 or n["RD"] + n["RDA"] < 20 or n["WR"] + n["WRA"] < 20 or n["REF"] < 4):
            print("      not enough activity in this run")
            bad += 1
    print("minimum slack over all runs, in DRAM clocks, per rule:", dict(sorted(slack.items())))
    return bad, results


# Library configurations used for the end-to-end runs: (module, controller clock, rate, speedgrade, cl, cwl)
LIBRARY = [
    ("MT48LC16M16",  100e6, "1:1", None,   2, 2),
    ("IS42S32800J6", 133e6, "1:1", None,   3, 3),
    ("MT46V32M16",   100e6, "1:2", None,   3, 1),
    ("MT47H64M16",   125e6, "1:2", None,   4, 3),
    ("MT41K128M16",  100e6, "1:4", "800",  6, 5),
    ("MT41K256M16",  200e6, "1:4", "1600", 11, 8),
    ("MT41J256M16",  125e6, "1:2", "1066", 5, 5),
    ("MT41K64M16",    50e6, "1:4", "800",  5, 5),
    ("MT40A1G8",     200e6, "1:4", "2400", 11, 9),
    ("MT40A512M16",  150e6, "1:4", "2400", 9, 9),
]

# ==================================================================================================
# keep_1: SDRAMModule.ns_to_cycles converts ns -> DRAM clocks -> controller cycles (worst-case phase
# offset added in DRAM clocks) instead of adding a margin in ns before a single division.
# ==================================================================================================
#
# Part A (plain Python, exhaustive over the module library):
#   - every module class x speedgrade x 1:1/1:2/1:4/1:8 x 30 controller clocks: the complete TimingSettings
#     equals the one computed with a copy of the ORIGINAL conversion (kept below as reference);
#   - every ns figure of every datasheet entry: the number of controller cycles c returned satisfies the
#     phase-inclusive requirement computed with exact rationals, c*nphases - (nphases-1) >= ceil(t/tCK)
#     (first command on the last phase, second one on the first phase), and c-1 would not;
#   - 300000 random (t, clock, rate) triples: same two checks.
# Part B: the real LiteDRAMController built from the converted timings, random traffic, every command pair
#   on the DFI bus checked against the datasheet minimums in DRAM clocks.

import inspect
from math import ceil, floor
from fractions import Fraction

def ref_ns_to_cycles(m, t, margin=True, rounding=ceil):
    # the original implementation
    clk_period_ns = 1e9/m.clk_freq
    clk_margin    = clk_period_ns*(1 - 1/m.rate_frac.denom)
    t += clk_margin if margin else 0
    return rounding(t/clk_period_ns)

def ref_ck_ns_to_cycles(m, timing, **kwargs):
    return max(ceil(timing.ck/m.rate_frac.denom), ref_ns_to_cycles(m, timing.ns, **kwargs))

def ref_timing_settings(m):
    frm = m.timing_settings.fine_refresh_mode
    g   = m.get
    c   = lambda t, **kw: None if t is None else ref_ck_ns_to_cycles(m, t, **kw)
    return dict(
        tRP   = c(g("tRP")), tRCD = c(g("tRCD")), tWR = c(g("tWR")),
        tREFI = c(g("tREFI", frm), margin=False, rounding=floor),
        tRFC  = c(g("tRFC", frm)), tWTR = c(g("tWTR")), tFAW = c(g("tFAW")), tCCD = c(g("tCCD")),
        tRRD  = c(g("tRRD")),
        tRC   = None if g("tRAS") is None else c(g("tRP") + g("tRAS")),
        tRAS  = c(g("tRAS")), tZQCS = c(g("tZQCS")))

def exact_check(t_ns, clk_freq, nphases, c):
    """0 = c is the minimal number of controller cycles that is safe for every phase alignment,
    1 = unsafe, 2 = safe but not minimal. Exact rational arithmetic on the given float values."""
    tck = Fraction(10**9)/Fraction(clk_freq)/nphases
    x   = Fraction(t_ns)/tck
    if abs(x - round(x)) < Fraction(1, 10**9):      # float noise around an exact number of clocks
        x = Fraction(round(x))
    need = ceil(x)
    worst = lambda cyc: cyc*nphases - (nphases - 1)  # clocks between last phase of cycle 0 and first of cycle cyc
    if worst(c) < need:
        return 1
    if c > 0 and worst(c - 1) >= need and need > 0:
        return 2
    return 0

def part_a():
    bad = 0
    classes = [c for _, c in inspect.getmembers(M, inspect.isclass)
        if issubclass(c, M.SDRAMModule) and hasattr(c, "nbanks") and hasattr(c, "technology_timings")]
    assert len(classes) > 50
    prng  = random.Random(1)
    freqs = [25e6, 33.333e6, 40e6, 48e6, 50e6, 64e6, 66.666e6, 75e6, 80e6, 83.333e6, 100e6, 111.111e6, 120e6, 125e6,
             133e6, 133.333e6, 150e6, 166.666e6, 175e6, 200e6, 225e6, 250e6, 266.666e6, 300e6, 333.333e6, 400e6]
    freqs += [round(prng.uniform(20e6, 400e6)) for _ in range(4)]
    names = ["tRP", "tRCD", "tWR", "tRFC", "tWTR", "tFAW", "tCCD", "tRRD", "tRAS", "tZQCS"]
    nset = nfig = 0
    for cls in classes:
        for sg in cls.speedgrade_timings.keys():
            for rate in ["1:1", "1:2", "1:4", "1:8"]:
                nphases = int(rate[2:])
                for f in freqs:
                    m   = cls(f, rate, speedgrade=None if sg == "default" else sg)
                    ref = ref_timing_settings(m)
                    nset += 1
                    for k, v in ref.items():
                        if getattr(m.timing_settings, k) != v:
                            print("TimingSettings differ: %s sg=%s %s %g: %s = %s, original %s" % (
                                cls.__name__, sg, rate, f, k, getattr(m.timing_settings, k), v))
                            bad += 1
                    for name in names:
                        t = m.get(name, m.timing_settings.fine_refresh_mode if name == "tRFC" else None)
                        if t is None or not t.ns:
                            continue
                        figs = [t.ns]
                        if name == "tRAS":
                            figs.append((m.get("tRP") + t).ns)
                        for ns in figs:
                            nfig += 1
                            r = exact_check(ns, f, nphases, m.ns_to_cycles(ns))
                            if r:
                                print("%s sg=%s %s %g %s=%gns -> %d cycles: %s" % (cls.__name__, sg, rate, f, name, ns,
                                    m.ns_to_cycles(ns), ["", "UNSAFE for some phase alignment", "not minimal"][r]))
                                bad += 1
                    # unchanged branch: maximum, rounded down, no margin
                    if m.ns_to_cycles(7800.0, margin=False, rounding=floor) != ref_ns_to_cycles(m, 7800.0, False, floor):
                        bad += 1
    print("part A: %d module classes, %d TimingSettings compared with the original conversion, %d datasheet "
          "figures checked exactly for all phase alignments" % (len(classes), nset, nfig))
    # random triples
    ndiff = 0
    dummy = classes[0]
    for i in range(300000):
        rate = prng.choice(["1:1", "1:2", "1:4", "1:8"])
        f    = prng.choice([prng.choice(freqs), round(prng.uniform(10e6, 600e6)), prng.randrange(10, 600)*1e6])
        t    = prng.choice([prng.randrange(1, 3200)*0.125, prng.randrange(1, 40000)*0.01, prng.uniform(0.1, 400.0),
                            prng.randrange(1, 64)*1e9/f/int(rate[2:])])     # the last one: exact multiples of tCK
        m    = dummy(f, rate, speedgrade=list(dummy.speedgrade_timings.keys())[0] if "default" not in dummy.speedgrade_timings else None)
        c    = m.ns_to_cycles(t)
        if c != ref_ns_to_cycles(m, t):
            ndiff += 1
            xq = t*int(rate[2:])*f/1e9
            if abs(xq - round(xq)) > 1e-9 or abs(c - ref_ns_to_cycles(m, t)) > 1:
                print("random: t=%r f=%r %s -> %d cycles, original %d, and t is not a multiple of tCK" % (
                    t, f, rate, c, ref_ns_to_cycles(m, t)))
                bad += 1
        r = exact_check(t, f, int(rate[2:]), c)
        if r == 1:
            print("random: t=%r f=%r %s -> %d cycles UNSAFE (original %d)" % (t, f, rate, c, ref_ns_to_cycles(m, t)))
            bad += 1
        for rounding in (floor,):
            if m.ns_to_cycles(t, rounding=rounding) != ref_ns_to_cycles(m, t, True, rounding) and \
               abs(t*int(rate[2:])*f/1e9 - round(t*int(rate[2:])*f/1e9)) > 1e-9:
                print("random: floor rounding differs: t=%r f=%r %s" % (t, f, rate))
                bad += 1
    print("part A: 300000 random (t, clock, rate): %d differ from the original float formula (only float noise on exact "
          "multiples of tCK is tolerated, none may be unsafe)" % ndiff)
    return bad

def part_b(quick):
    prng = random.Random(1001)
    cfgs = []
    for i, (mod, f, rate, sg, cl, cwl) in enumerate(LIBRARY):
        nph = int(rate[2:])
        cfgs.append(dict(modname=mod, clk_freq=f, rate=rate, speedgrade=sg, cl=cl, cwl=cwl,
            rdphase=prng.randrange(nph), wrphase=prng.randrange(nph), seed=100 + i, cycles=1200 if quick else 2000,
            auto_precharge=bool(i & 1), buffered=bool(i & 2), pattern=["mixed", "conflict", "turnaround"][i % 3]))
    bad, _ = run_many(cfgs)
    return bad

if __name__ == "__main__":
    quick = "--quick" in sys.argv
    bad = part_a()
    if "--no-sim" not in sys.argv:
        bad += part_b(quick)
    print("FAIL" if bad else "PASS")
    sys.exit(1 if bad else 0)
