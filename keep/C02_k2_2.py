import os, sys, random, itertools
sys.path.insert(0, os.getcwd())

from migen import *

from litedram.common import PhySettings, GeomSettings, TimingSettings, burst_lengths
from litedram.core.controller import ControllerSettings, LiteDRAMController

from litex.gen.sim import run_simulation


# --------------------------------------------------------------------------------------------------
# Reference model of the DRAM bank state + checker of the DFI command stream (property C02)
# --------------------------------------------------------------------------------------------------

class Violation(Exception):
    pass


class Config:
    def __init__(self, memtype, nphases, rdphase, wrphase, nranks, bankbits, colbits=10, rowbits=13,
                 auto_precharge=True, postponing=1, zqcs=True, buffered=False, depth=4,
                 signal_phases=False, timings=None, seed=0, cycles=2500, load=0.7, nrows=3):
        self.__dict__.update(locals())
        del self.__dict__["self"]

    def __repr__(self):
        d = dict(self.__dict__)
        return "Config(%s)" % ", ".join("%s=%r" % kv for kv in sorted(d.items()))


def build(cfg):
    rng = random.Random(cfg.seed)
    t = dict(tRP=rng.randint(1, 4), tRCD=rng.randint(1, 4), tWR=rng.randint(1, 4), tWTR=rng.randint(1, 4),
             tREFI=rng.randint(100, 160), tRFC=rng.randint(3, 12),
             tFAW=rng.choice([None, 8, 12]), tCCD=rng.choice([1, 2, 4]),
             tRRD=rng.choice([None, 2, 3]), tRC=rng.choice([None, 6, 10]),
             tRAS=rng.choice([None, 4, 8]), tZQCS=(rng.randint(4, 10) if cfg.zqcs else None))
    if cfg.timings:
        t.update(cfg.timings)
    rdphase, wrphase = cfg.rdphase, cfg.wrphase
    if cfg.signal_phases:
        rdphase = Signal(max=max(cfg.nphases, 2), reset=cfg.rdphase)
        wrphase = Signal(max=max(cfg.nphases, 2), reset=cfg.wrphase)
    phy = PhySettings(
        phytype="SIM", memtype=cfg.memtype, databits=8, dfi_databits=16, nphases=cfg.nphases,
        rdphase=rdphase, wrphase=wrphase, cl=rng.randint(2, 6), cwl=rng.randint(1, 5),
        read_latency=rng.randint(2, 7), write_latency=rng.randint(0, 3), nranks=cfg.nranks)
    geom = GeomSettings(bankbits=cfg.bankbits, rowbits=cfg.rowbits, colbits=cfg.colbits)
    timing = TimingSettings(**t)
    cs = ControllerSettings(
        cmd_buffer_depth=cfg.depth, cmd_buffer_buffered=cfg.buffered,
        read_time=rng.choice([0, 8, 32]), write_time=rng.choice([0, 8, 16]),
        with_refresh=True, refresh_zqcs_freq=1e6/rng.randint(300, 500),
        refresh_postponing=cfg.postponing, with_auto_precharge=cfg.auto_precharge)
    dut = LiteDRAMController(phy, geom, timing, clk_freq=1e6, controller_settings=cs)
    dut.cfg = cfg
    dut.t = t
    return dut


class Checker:
    """Follows the DFI bus phase by phase and keeps the open row of every bank of every rank."""
    def __init__(self, dut):
        cfg = dut.cfg
        self.dut, self.cfg = dut, cfg
        self.nbanks = 2**cfg.bankbits
        if cfg.memtype == "SDR":
            bl = cfg.nphases
        else:
            bl = burst_lengths[cfg.memtype]
        self.align = (bl - 1).bit_length()
        self.open = [[None]*self.nbanks for _ in range(cfg.nranks)]
        self.queue = [[] for _ in range(cfg.nranks*self.nbanks)]   # accepted, not yet served requests
        self.stats = dict(ACT=0, RD=0, WR=0, PRE=0, PREA=0, REF=0, ZQCS=0, AP=0, accepted=0)
        self.cycle = 0

    def fail(self, msg):
        raise Violation("cycle %d: %s   [%r]" % (self.cycle, msg, self.cfg))

    def dfi_col(self, col):
        full = col << self.align
        if self.cfg.colbits > 10:
            return (full & 0x3ff) | ((full >> 10) << 11)
        return full

    def command(self, ph, cs_n, ras_n, cas_n, we_n, bank, address, rden, wren):
        cfg = self.cfg
        allranks = (1 << cfg.nranks) - 1
        sel = (~cs_n) & allranks
        code = (ras_n, cas_n, we_n)
        is_cmd = code != (1, 1, 1) and sel != 0
        is_rd = is_cmd and code == (1, 0, 1)
        is_wr = is_cmd and code == (1, 0, 0)
        # data-enable strobes exactly with the read / write commands
        if rden != int(is_rd):
            self.fail("phase %d rddata_en=%d but read command=%d" % (ph, rden, is_rd))
        if wren != int(is_wr):
            self.fail("phase %d wrdata_en=%d but write command=%d" % (ph, wren, is_wr))
        if not is_cmd:
            return
        ranks = [r for r in range(cfg.nranks) if (sel >> r) & 1]
        a10 = (address >> 10) & 1
        if code == (0, 1, 1):      # ACT
            self.stats["ACT"] += 1
            if len(ranks) != 1:
                self.fail("ACT with cs_n=%x" % cs_n)
            r = ranks[0]
            if self.open[r][bank] is not None:
                self.fail("ACT on open bank r%d b%d (row %x open)" % (r, bank, self.open[r][bank]))
            q = self.queue[r*self.nbanks + bank]
            if not q:
                self.fail("ACT on r%d b%d without pending request" % (r, bank))
            if q[0][1] != address:
                self.fail("ACT row %x, oldest pending request wants row %x" % (address, q[0][1]))
            self.open[r][bank] = address
        elif is_rd or is_wr:
            self.stats["WR" if is_wr else "RD"] += 1
            if len(ranks) != 1:
                self.fail("RD/WR with cs_n=%x" % cs_n)
            r = ranks[0]
            if is_rd and ph != cfg.rdphase:
                self.fail("READ on phase %d, rdphase=%d" % (ph, cfg.rdphase))
            if is_wr and ph != cfg.wrphase:
                self.fail("WRITE on phase %d, wrphase=%d" % (ph, cfg.wrphase))
            row = self.open[r][bank]
            if row is None:
                self.fail("RD/WR on precharged bank r%d b%d" % (r, bank))
            q = self.queue[r*self.nbanks + bank]
            if not q:
                self.fail("RD/WR on r%d b%d without pending request" % (r, bank))
            we, rrow, col = q.pop(0)
            if we != int(is_wr):
                self.fail("request we=%d served as %s" % (we, "WR" if is_wr else "RD"))
            if rrow != row:
                self.fail("RD/WR r%d b%d: open row %x, request addressed row %x" % (r, bank, row, rrow))
            if (address & ~(1 << 10)) != self.dfi_col(col):
                self.fail("RD/WR column %x, expected %x" % (address, self.dfi_col(col)))
            if a10:
                self.stats["AP"] += 1
                if not cfg.auto_precharge:
                    self.fail("auto-precharge although disabled")
                if not q or q[0][1] == rrow:
                    self.fail("auto-precharge but next queued request is not to another row")
                self.open[r][bank] = None
        elif code == (0, 1, 0):    # PRE
            if a10:
                self.stats["PREA"] += 1
                if sel != allranks:
                    self.fail("precharge-all with cs_n=%x" % cs_n)
                for r in ranks:
                    self.open[r] = [None]*self.nbanks
            else:
                self.stats["PRE"] += 1
                if len(ranks) != 1:
                    self.fail("PRE with cs_n=%x" % cs_n)
                self.open[ranks[0]][bank] = None
        elif code == (0, 0, 1):    # REF
            self.stats["REF"] += 1
            if sel != allranks:
                self.fail("REFRESH with cs_n=%x" % cs_n)
            for r in ranks:
                for b in range(self.nbanks):
                    if self.open[r][b] is not None:
                        self.fail("REFRESH while r%d b%d open" % (r, b))
        elif code == (1, 1, 0):    # ZQCS
            self.stats["ZQCS"] += 1
            if sel != allranks:
                self.fail("ZQCS with cs_n=%x" % cs_n)
            for r in ranks:
                for b in range(self.nbanks):
                    if self.open[r][b] is not None:
                        self.fail("ZQCS while r%d b%d open" % (r, b))
        else:
            self.fail("unexpected command %r" % (code,))

    def monitor(self, ncycles):
        phases = self.dut.dfi.phases
        for c in range(ncycles):
            self.cycle = c
            for i, p in enumerate(phases):
                ras_n = (yield p.ras_n)
                cas_n = (yield p.cas_n)
                we_n  = (yield p.we_n)
                rden  = (yield p.rddata_en)
                wren  = (yield p.wrdata_en)
                if (ras_n, cas_n, we_n, rden, wren) == (1, 1, 1, 0, 0):
                    continue
                cs_n  = (yield p.cs_n)
                bank  = (yield p.bank)
                addr  = (yield p.address)
                self.command(i, cs_n, ras_n, cas_n, we_n, bank, addr, rden, wren)
            yield

    def driver(self, n, seed, stop_at):
        cfg = self.cfg
        rng = random.Random(seed)
        bank = getattr(self.dut.interface, "bank%d" % n)
        rows = [rng.randrange(2**cfg.rowbits) for _ in range(cfg.nrows)]
        ncols = 2**(cfg.colbits - self.align)
        burst = 0
        while True:
            if burst == 0:
                # idle gap, then a burst of back to back requests
                gap = 0 if rng.random() < cfg.load else rng.randint(1, 60)
                for _ in range(gap):
                    yield
                burst = rng.randint(1, 12)
            burst -= 1
            if self.cycle >= stop_at:
                return
            row = rng.choice(rows) if rng.random() < 0.9 else rows[0]
            if rng.random() < 0.6 and self.queue[n]:
                row = self.queue[n][-1][1]        # row hit with the previous request
            col = rng.randrange(ncols)
            we = int(rng.random() < 0.5)
            yield bank.addr.eq((row << (cfg.colbits - self.align)) | col)
            yield bank.we.eq(we)
            yield bank.valid.eq(1)
            yield
            while not (yield bank.ready):
                if self.cycle > stop_at + 500:
                    self.fail("request to bank %d never accepted (liveness)" % n)
                yield
            self.queue[n].append((we, row, col))
            self.stats["accepted"] += 1
            yield bank.valid.eq(0)
            if rng.random() < 0.3:
                yield


def run(cfg, extra=None, verbose=False):
    dut = build(cfg)
    chk = Checker(dut)
    nb = cfg.nranks * 2**cfg.bankbits
    drain = 600
    gens = [chk.monitor(cfg.cycles + drain)]
    for n in range(nb):
        gens.append(chk.driver(n, cfg.seed*1000 + n, cfg.cycles))
    if extra is not None:
        gens += extra(dut, chk, cfg.cycles + drain)
    run_simulation(dut, gens)
    left = sum(len(q) for q in chk.queue)
    if left:
        chk.fail("%d accepted requests never served (liveness)" % left)
    if verbose:
        print(cfg.memtype, "nph", cfg.nphases, "ranks", cfg.nranks, "banks", 2**cfg.bankbits, chk.stats, flush=True)
    return chk


def default_configs(seed0=0, cycles=2500):
    cfgs = []
    s = itertools.count(seed0)
    #           memtype nph rd wr ranks bankbits
    base = [("SDR",    1, 0, 0, 1, 2),
            ("DDR2",   2, 0, 1, 1, 3),
            ("DDR2",   2, 1, 0, 2, 2),
            ("DDR3",   4, 2, 3, 1, 3),
            ("DDR3",   4, 1, 1, 2, 2),
            ("DDR4",   4, 3, 0, 1, 3),
            ("LPDDR4", 8, 5, 2, 1, 2),
            ("DDR",    2, 0, 0, 1, 2)]
    for k, (mt, nph, rd, wr, nr, bb) in enumerate(base):
        for ap in (True, False):
            cfgs.append(Config(mt, nph, rd, wr, nr, bb,
                colbits=11 if k % 3 == 1 else 10,
                auto_precharge=ap,
                postponing=1 + (k + ap) % 3,
                zqcs=(k % 4 != 3),
                buffered=bool((k + ap) % 2),
                depth=[4, 8, 2][k % 3],
                signal_phases=(k == 3 and ap),
                seed=next(s), cycles=cycles,
                load=[0.9, 0.5, 0.7][k % 3]))
    return cfgs


def summarize(checkers):
    tot = {}
    for c in checkers:
        for k, v in c.stats.items():
            tot[k] = tot.get(k, 0) + v
    print("total", tot)
    for k in ("ACT", "RD", "WR", "PRE", "PREA", "REF", "ZQCS", "AP"):
        assert tot[k] > 0, "no %s observed: harness not exercising the design" % k
    return tot

# --------------------------------------------------------------------------------------------------
# keep_2: Multiplexer resumes in WRITE after a refresh that interrupted the WRITE state.
#  Full controller runs with the DFI reference model (property C02) over the configuration matrix,
#  plus: - read -> write bus turnaround distance on the DFI (>= read_latency cycles, what the RTW
#          delay of the unmodified multiplexer guarantees),
#        - coverage of the new REFRESH -> WRITE arc and of the old REFRESH -> READ arc (not part
#          of the verdict of the property, only makes sure the new path has really been driven).
# --------------------------------------------------------------------------------------------------

def fsm_watch(dut, chk, ncycles):
    fsm = dut.multiplexer.fsm
    chk.arcs = {}
    read_latency = dut.settings.phy.read_latency

    def gen():
        prev = None
        last_rd = None
        dec = {v: (k if isinstance(k, str) else "(delay)") for k, v in fsm.encoding.items()}
        phases = dut.dfi.phases
        for c in range(ncycles):
            st = dec[(yield fsm.state)]
            if prev is not None and st != prev:
                chk.arcs[(prev, st)] = chk.arcs.get((prev, st), 0) + 1
            prev = st
            for p in phases:
                if (yield p.rddata_en):
                    last_rd = c
                if (yield p.wrdata_en):
                    if last_rd is not None and c - last_rd < read_latency:
                        raise Violation("cycle %d: write %d cycles after a read, read_latency=%d [%r]" % (
                            c, c - last_rd, read_latency, dut.cfg))
            yield
    return [gen()]


def _sys_job(cfg):
    chk = run(cfg, extra=fsm_watch)
    a = chk.arcs
    # the multiplexer resumes in the direction the refresh interrupted (the run may end inside a refresh)
    for d in ("READ", "WRITE"):
        if a.get((d, "REFRESH"), 0) - a.get(("REFRESH", d), 0) not in (0, 1):
            raise Violation("REFRESH arcs inconsistent: %r [%r]" % (a, cfg))
    return chk.stats, chk.arcs


if __name__ == "__main__":
    import multiprocessing
    quick = "--quick" in sys.argv
    nproc = min(4, os.cpu_count() or 1)
    cfgs = default_configs(seed0=200, cycles=800 if quick else 2200)
    # a few write-heavy / read-heavy runs with short refresh period: many interrupted write bursts
    for k, (mt, nph, rd, wr, nr, bb) in enumerate([("DDR3", 4, 2, 3, 1, 2), ("DDR2", 2, 0, 1, 2, 1),
                                                   ("SDR", 1, 0, 0, 1, 2), ("DDR4", 4, 0, 0, 1, 2)]):
        cfgs.append(Config(mt, nph, rd, wr, nr, bb, auto_precharge=bool(k % 2), postponing=1 + k % 2,
                           seed=250 + k, cycles=800 if quick else 2200, load=0.95,
                           timings=dict(tREFI=100, tRFC=4)))
    if quick:
        cfgs = cfgs[::3]
    with multiprocessing.Pool(nproc) as pool:
        res = pool.map(_sys_job, cfgs, chunksize=1)
    tot, arcs = {}, {}
    for st, ar in res:
        for k, v in st.items():
            tot[k] = tot.get(k, 0) + v
        for k, v in ar.items():
            arcs[k] = arcs.get(k, 0) + v
    print("full controller / DFI model:", tot, flush=True)
    print("multiplexer FSM arcs:", arcs, flush=True)
    for k in ("ACT", "RD", "WR", "PRE", "PREA", "REF", "ZQCS", "AP"):
        assert tot[k] > 0, k
    assert arcs.get(("REFRESH", "WRITE"), 0) > 0, "REFRESH -> WRITE never taken"
    assert arcs.get(("REFRESH", "READ"), 0) > 0, "REFRESH -> READ never taken"
    print("keep_2: OK")
