import os, sys, random, itertools, time
sys.path.insert(0, os.getcwd())

# ---------------------------------------------------------------------------------------------------
# Environment shims (pinned litex/migen on a recent Python cannot guess CSR names and lacks CSR.wr_stb);
# they do not touch any logic under test.
import litex.soc.interconnect.csr as _csr
_cnt = itertools.count()
_orig_name = _csr.get_obj_var_name
def _name(override=None, default=None):
    try:
        n = _orig_name(override, default)
    except Exception:
        n = None
    return n or "csr%d" % next(_cnt)
_csr.get_obj_var_name = _name
if not hasattr(_csr.CSR, "wr_stb"):
    _csr.CSR.wr_stb = property(lambda self: self.re)

from migen import *
from migen.sim import run_simulation

from litedram.phy.dfi import Interface as DFIInterface
from litedram.phy.utils import CommandsPipeline, ConstBitSlip, Latency
from litedram.phy.lpddr4 import commands as cmd4
from litedram.phy.lpddr5 import commands as cmd5

CLK_SYS   = {"sys": (64, 31)}
CLK_SYS2X = {"sys": (64, 31), "sys2x": (32, 15)}

def check(cond, msg):
    if not cond:
        print("FAIL:", msg)
        sys.exit(1)

# DFI command kinds: name -> (cas_n, ras_n, we_n)
KINDS = {
    "NOP": (1, 1, 1), "ACT": (1, 0, 1), "RD": (0, 1, 1), "WR": (0, 1, 0),
    "PRE": (1, 0, 0), "REF": (0, 0, 1), "ZQC": (1, 1, 0), "MRS": (0, 0, 0),
}

def mkcmd(kind, address=0, bank=0, cs_n=0):
    cas_n, ras_n, we_n = KINDS[kind]
    return dict(cs_n=cs_n, cas_n=cas_n, ras_n=ras_n, we_n=we_n, address=address, bank=bank)

IDLE = mkcmd("NOP", cs_n=1)

def kind_of(c):
    for k, v in KINDS.items():
        if v == (c["cas_n"], c["ras_n"], c["we_n"]):
            return k

# ---------------------------------------------------------------------------------------------------
# LPDDR4 golden model, written from the JESD209-4 command truth table (CA0 first)

def enc4(c, masked_write):
    """DFI command -> [(cs, [ca0..ca5])]*4 or None when nothing must be sent"""
    if c["cs_n"] != 0:
        return None
    a, ba = c["address"], c["bank"]
    A = lambda i: (a >> i) & 1
    B = lambda i: (ba >> i) & 1
    des   = [(0, [0]*6), (0, [0]*6)]
    small = lambda first, second: [(1, first), (0, second)]
    cas2  = small([0, 1, 0, 0, 1, A(8)], [A(2), A(3), A(4), A(5), A(6), A(7)])
    kind  = kind_of(c)
    if kind == "ACT":
        return small([1, 0, A(12), A(13), A(14), A(15)], [B(0), B(1), B(2), A(16), A(10), A(11)]) + \
               small([1, 1, A(6), A(7), A(8), A(9)],     [A(0), A(1), A(2), A(3), A(4), A(5)])
    if kind == "RD":
        return small([0, 1, 0, 0, 0, 0], [B(0), B(1), B(2), 0, A(9), A(10)]) + cas2
    if kind == "WR":
        return small([0, 0, 1, int(masked_write), 0, 0], [B(0), B(1), B(2), 0, A(9), A(10)]) + cas2
    if kind == "PRE":
        return des + small([0, 0, 0, 0, 1, A(10)], [B(0), B(1), B(2), 0, 0, 0])
    if kind == "REF":
        return des + small([0, 0, 0, 1, 0, A(10)], [B(0), B(1), B(2), 0, 0, 0])
    if kind == "ZQC":
        if ba == 0:  # MPC
            return des + small([0, 0, 0, 0, 0, A(6)], [A(0), A(1), A(2), A(3), A(4), A(5)])
        if ba == 1:  # MRR
            return small([0, 1, 1, 1, 0, 0], [A(0), A(1), A(2), A(3), A(4), A(5)]) + cas2
        return None
    if kind == "MRS":
        return small([0, 1, 1, 0, 0, A(7)], [B(0), B(1), B(2), B(3), B(4), B(5)]) + \
               small([0, 1, 1, 0, 1, A(6)], [A(0), A(1), A(2), A(3), A(4), A(5)])
    return None

def golden4(seq, masked_write, extended, nphases=8, span=4):
    """seq: list (per sys cycle) of list (per phase) of DFI commands; masked_write: bool or per-cycle list.
    Returns cs bit stream and 6 ca bit streams (one entry per DRAM clock, position = cycle*8 + phase)."""
    n = (len(seq) + 3) * nphases
    cs = [0] * n
    ca = [[0] * n for _ in range(6)]
    nprev = span - 1
    prev_valid = [0] * nphases
    for t, phases in enumerate(seq):
        mw = masked_write[t] if isinstance(masked_write, list) else masked_write
        encs = [enc4(c, mw) for c in phases]
        valid = [int(e is not None) for e in encs]
        window = prev_valid + valid
        if extended:
            hist = []
            for i in range(len(window)):
                hist.append(int(window[i] and not any(hist[max(0, i - nprev):i])))
        else:
            hist = window
        for p in range(nphases):
            if encs[p] is None:
                continue
            if any(hist[nphases + p - nprev:nphases + p]):
                continue  # would overlap a command in flight
            for k, (cs_v, ca_v) in enumerate(encs[p]):
                pos = t * nphases + p + k
                cs[pos] |= cs_v
                for bit in range(6):
                    ca[bit][pos] |= ca_v[bit]
        prev_valid = valid
    return cs, ca

def decode4(cs, ca):
    """Independent LPDDR4 CS/CA decoder: returns list of (position of first CS high, decoded fields)"""
    out = []
    pos = 0
    pending = None
    n = len(cs)
    def word(p):
        return [ca[b][p] for b in range(6)]
    while pos < n - 1:
        if not cs[pos]:
            pos += 1
            continue
        r1, r2 = word(pos), word(pos + 1)
        check(cs[pos + 1] == 0, "CS high on two consecutive clocks at %d" % pos)
        val = lambda bits: sum(v << i for i, v in enumerate(bits))
        h = tuple(r1[:5])
        if r1[0] == 1 and r1[1] == 0:
            pending = (pos, "ACT", dict(bank=val(r2[:3]), row_hi=(val(r1[2:6]) << 12) | (r2[3] << 16) | (val(r2[4:6]) << 10)))
        elif r1[0] == 1 and r1[1] == 1:
            check(pending is not None and pending[1] == "ACT" and pending[0] == pos - 2, "ACT-2 without ACT-1 at %d" % pos)
            row = pending[2]["row_hi"] | (val(r1[2:6]) << 6) | val(r2)
            out.append((pending[0], ("ACT", pending[2]["bank"], row)))
            pending = None
        elif h == (0, 1, 0, 0, 0):
            pending = (pos, "RD", dict(bank=val(r2[:3]), c9=r2[4], ap=r2[5]))
        elif h == (0, 0, 1, 0, 0):
            pending = (pos, "WR", dict(bank=val(r2[:3]), c9=r2[4], ap=r2[5]))
        elif h == (0, 0, 1, 1, 0):
            pending = (pos, "MWR", dict(bank=val(r2[:3]), c9=r2[4], ap=r2[5]))
        elif h == (0, 1, 1, 1, 0):
            pending = (pos, "MRR", dict(ma=val(r2)))
        elif h == (0, 1, 0, 0, 1):  # CAS-2
            check(pending is not None and pending[0] == pos - 2 and pending[1] in ("RD", "WR", "MWR", "MRR"), "CAS-2 alone at %d" % pos)
            col = (r1[5] << 8) | (val(r2) << 2)
            f = pending[2]
            if pending[1] == "MRR":
                out.append((pending[0], ("MRR", f["ma"], col)))
            else:
                out.append((pending[0], (pending[1], f["bank"], col | (f["c9"] << 9), f["ap"])))
            pending = None
        elif h == (0, 1, 1, 0, 0):
            pending = (pos, "MRW", dict(ma=val(r2), op7=r1[5]))
        elif h == (0, 1, 1, 0, 1):
            check(pending is not None and pending[0] == pos - 2 and pending[1] == "MRW", "MRW-2 alone at %d" % pos)
            out.append((pending[0], ("MRW", pending[2]["ma"], (pending[2]["op7"] << 7) | (r1[5] << 6) | val(r2))))
            pending = None
        elif h == (0, 0, 0, 1, 0):
            out.append((pos - 2, ("REF", val(r2[:3]), r1[5])))
        elif h == (0, 0, 0, 0, 1):
            out.append((pos - 2, ("PRE", val(r2[:3]), r1[5])))
        elif h == (0, 0, 0, 0, 0):
            out.append((pos - 2, ("MPC", (r1[5] << 6) | val(r2))))
        else:
            check(False, "undecodable LPDDR4 command %r at %d" % (r1, pos))
        pos += 2
    return out

def expect4_decoded(seq, masked_write, nphases=8, span=4):
    """What a DRAM must see (basic overlap rule): list of (position, decoded command)"""
    out = []
    last_valid = -10
    for t, phases in enumerate(seq):
        mw = masked_write[t] if isinstance(masked_write, list) else masked_write
        for p, c in enumerate(phases):
            if enc4(c, mw) is None:
                continue
            pos = t * nphases + p
            blocked = pos - last_valid < span
            last_valid = pos
            if blocked:
                continue
            a, ba, kind = c["address"], c["bank"], kind_of(c)
            col = a & 0x3fc
            if kind == "ACT":   d = ("ACT", ba & 7, a & 0x1ffff)
            elif kind == "RD":  d = ("RD", ba & 7, col, (a >> 10) & 1)
            elif kind == "WR":  d = ("MWR" if mw else "WR", ba & 7, col, (a >> 10) & 1)
            elif kind == "PRE": d = ("PRE", ba & 7, (a >> 10) & 1)
            elif kind == "REF": d = ("REF", ba & 7, (a >> 10) & 1)
            elif kind == "MRS": d = ("MRW", ba & 0x3f, a & 0xff)
            elif kind == "ZQC" and ba == 0: d = ("MPC", a & 0x7f)
            elif kind == "ZQC" and ba == 1: d = ("MRR", a & 0x3f, a & 0x1fc)
            out.append((pos, d))
    return out

# ---------------------------------------------------------------------------------------------------
# Traffic

def rand_cmd4(rng):
    kind = rng.choice(list(KINDS))
    bank = rng.choice([0, 1, 2, rng.randrange(64)]) if kind == "ZQC" else rng.randrange(64)
    return mkcmd(kind, address=rng.randrange(1 << 17), bank=bank, cs_n=int(rng.random() < 0.1))

def random_traffic4(rng, ncycles, nphases=8):
    seq = []
    for _ in range(ncycles):
        d = rng.choice([0.0, 0.05, 0.15, 0.4, 1.0])
        seq.append([rand_cmd4(rng) if rng.random() < d else IDLE for _ in range(nphases)])
    return seq

def directed_traffic4(nphases=8, span=4):
    """every command kind with walking address/bank bits, then every ordered pair of kinds at every spacing
    1..nphases, then a fixed pair at every phase and every spacing (crossing the cycle boundary)"""
    items = {}
    pos = [nphases]
    def put(c, advance):
        items[pos[0]] = c
        pos[0] += advance
    valid_kinds = [("ACT", None), ("RD", None), ("WR", None), ("PRE", None), ("REF", None),
                   ("MRS", None), ("ZQC", 0), ("ZQC", 1), ("ZQC", 5)]
    full = (1 << 17) - 1
    patterns = [(0, 0), (full, 63)]
    patterns += [(1 << i, 0) for i in range(17)] + [(0, 1 << i) for i in range(6)]
    patterns += [(full ^ (1 << i), 63) for i in range(17)] + [(full, 63 ^ (1 << i)) for i in range(6)]
    for kind, fixed_bank in valid_kinds:
        for n, (a, ba) in enumerate(patterns):
            put(mkcmd(kind, a, ba if fixed_bank is None else fixed_bank), span + (n % 2))
    rng = random.Random(1234)
    def rnd(k):
        return mkcmd(k, rng.randrange(1 << 17), rng.randrange(2) if k == "ZQC" else rng.randrange(64))
    kinds2 = ["ACT", "RD", "WR", "PRE", "REF", "MRS", "ZQC", "NOP"]
    for k1, k2 in itertools.product(kinds2, kinds2):
        for gap in range(1, nphases + 1):
            put(rnd(k1), gap)
            put(rnd(k2), span + 1)
    for k1, k2 in [("RD", "ACT"), ("PRE", "WR")]:
        for p in range(nphases):
            for gap in range(1, nphases + 1):
                pos[0] += (p - pos[0]) % nphases
                put(rnd(k1), gap)
                put(rnd(k2), span)
    ncyc = max(items) // nphases + 1
    seq = [[IDLE] * nphases for _ in range(ncyc)]
    for x, c in items.items():
        seq[x // nphases][x % nphases] = c
    return seq

def drive_phases(dfi, phases):
    for ph, c in zip(dfi.phases, phases):
        for name, v in c.items():
            yield getattr(ph, name).eq(v)

def to_bits(words, width):
    return [(w >> i) & 1 for w in words for i in range(width)]

def find_offset(expected, observed, max_offset):
    """observed stream must be the expected one delayed by a constant number of bits"""
    n = len(expected)
    hits = []
    for d in range(max_offset + 1):
        obs = observed[d:d + n]
        obs = obs + [0] * (n - len(obs))
        if obs == expected and not any(observed[:d]):
            hits.append(d)
    return hits

def compare_streams(tag, exp_cs, exp_ca, obs_cs, obs_ca, max_offset, want_offset=None):
    check(any(exp_cs), tag + ": empty expectation")
    # trim expectation to what was simulated
    offs = []
    for name, e, o in [("cs", exp_cs, obs_cs)] + [("ca%d" % i, exp_ca[i], obs_ca[i]) for i in range(len(exp_ca))]:
        e = e[:len(o) - max_offset]
        hits = find_offset(e, o, max_offset)
        check(len(hits) >= 1, "%s: %s does not match the golden stream at any latency" % (tag, name))
        offs.append(hits)
    common = set(offs[0])
    for h in offs[1:]:
        common &= set(h)
    check(len(common) == 1, "%s: no single common CS/CA latency (%r)" % (tag, offs))
    off = common.pop()
    if want_offset is not None:
        check(off == want_offset, "%s: latency changed: %d bits, expected %d" % (tag, off, want_offset))
    return off

# ---------------------------------------------------------------------------------------------------
# LPDDR4 harnesses

class Harness4(Module):
    """DFI -> adapters -> CommandsPipeline, wired as in LPDDR4PHY"""
    def __init__(self, masked_write, extended):
        self.dfi = DFIInterface(17, 6, 1, 32, nphases=8)
        self.masked_write = masked_write
        adapters = [cmd4.DFIPhaseAdapter(p, masked_write=masked_write) for p in self.dfi.phases]
        self.submodules += adapters
        self.submodules.commands = CommandsPipeline(adapters,
            cs_ser_width=8, ca_ser_width=8, ca_nbits=6, cmd_nphases_span=4, extended_overlaps_check=extended)
        self.cs, self.ca = self.commands.cs, self.commands.ca

def run4(dut, seq, mw_seq=None, clocks=CLK_SYS, out=None, out_domain="sys", out_width=8):
    """Drive `seq` on dut.dfi, sample `out` (cs, [ca]) every `out_domain` cycle. Returns bit streams."""
    cs_sig, ca_sig = out if out is not None else (dut.cs, dut.ca)
    obs_cs, obs_ca = [], [[] for _ in ca_sig]
    done = [False]
    def driver():
        for t, phases in enumerate(seq + [[IDLE] * 8] * 4):
            yield from drive_phases(dut.dfi, phases)
            if mw_seq is not None:
                yield dut.masked_write.eq(mw_seq[t] if t < len(mw_seq) else 0)
            yield
        done[0] = True
    def sampler():
        while not done[0]:
            yield
            obs_cs.append((yield cs_sig))
            for i, s in enumerate(ca_sig):
                obs_ca[i].append((yield s))
    gens = {"sys": [driver()]}
    gens.setdefault(out_domain, []).append(sampler())
    run_simulation(dut, gens, clocks=clocks)
    return to_bits(obs_cs, out_width), [to_bits(w, out_width) for w in obs_ca]

def check_harness4(tag, seq, masked_write, extended, want_offset=None, dynamic_mw=False, rng=None):
    if dynamic_mw:
        mw_sig = Signal()
        mw_seq = [rng.randrange(2) for _ in seq]
        dut = Harness4(mw_sig, extended)
        obs_cs, obs_ca = run4(dut, seq, mw_seq=mw_seq)
        mw = mw_seq
    else:
        dut = Harness4(masked_write, extended)
        obs_cs, obs_ca = run4(dut, seq)
        mw = masked_write
    exp_cs, exp_ca = golden4(seq, mw, extended)
    off = compare_streams(tag, exp_cs, exp_ca, obs_cs, obs_ca, max_offset=40, want_offset=want_offset)
    if not extended:
        # independent decode of what the pads carry
        dec = decode4(obs_cs[off:], [c[off:] for c in obs_ca])
        exp = expect4_decoded(seq, mw)
        check(dec == exp, "%s: decoded command list differs from the DFI commands (%d vs %d entries)" % (tag, len(dec), len(exp)))
    return off

def make_lpddr4phy(double_rate, masked_write=True, extended=False):
    from litedram.phy.lpddr4.simphy import LPDDR4SimulationPads
    from litedram.phy.lpddr4.basephy import LPDDR4PHY, DoubleRateLPDDR4PHY
    pads = LPDDR4SimulationPads()
    kw = dict(sys_clk_freq=100e6, phytype="LPDDR4SimPHY", masked_write=masked_write, extended_overlaps_check=extended)
    if double_rate:
        phy = DoubleRateLPDDR4PHY(pads, ser_latency=Latency(sys2x=1), des_latency=Latency(sys2x=2),
            serdes_reset_cnt=-1, **kw)  # as in S7LPDDR4PHY
    else:
        phy = LPDDR4PHY(pads, ser_latency=Latency(sys=1), des_latency=Latency(sys=2), **kw)
    phy.submodules += pads
    return phy

def check_phy4(tag, seq, double_rate, masked_write=True, extended=False, want_offset=None):
    dut = make_lpddr4phy(double_rate, masked_write, extended)
    if double_rate:
        obs_cs, obs_ca = run4(dut, seq, clocks=CLK_SYS2X, out=(dut.out.cs, dut.out.ca), out_domain="sys2x", out_width=4)
    else:
        obs_cs, obs_ca = run4(dut, seq, out=(dut.out.cs, dut.out.ca))
    exp_cs, exp_ca = golden4(seq, masked_write, extended)
    off = compare_streams(tag, exp_cs, exp_ca, obs_cs, obs_ca, max_offset=48, want_offset=want_offset)
    if not extended:
        dec = decode4(obs_cs[off:], [c[off:] for c in obs_ca])
        check(dec == expect4_decoded(seq, masked_write), tag + ": decoded command list differs from the DFI commands")
    return off

# ---------------------------------------------------------------------------------------------------
# LPDDR5 golden model, written from the JESD209-5 command truth table (CA0 first; rising, falling edge)

def enc5(c, masked_write, wck_sync):
    """DFI command -> [(cs, ca_rising[7], ca_falling[7])]*2 or None"""
    if c["cs_n"] != 0:
        return None
    a, ba = c["address"], c["bank"]
    A = lambda i: (a >> i) & 1
    B = lambda i: (ba >> i) & 1
    C = lambda i: A(i + 4)  # column address sits above the 4 burst address bits
    des = (0, [0]*7, [0]*7)
    cas = (1, [0, 0, 1, 1, int(wck_sync == 1), int(wck_sync == 2), int(wck_sync == 3)], [0]*7)
    col_f = [B(0), B(1), B(2), B(3), C(1), C(2), A(10)]
    kind = kind_of(c)
    if kind == "ACT":
        return [(1, [1, 1, 1, A(14), A(15), A(16), A(17)], [B(0), B(1), B(2), B(3), A(11), A(12), A(13)]),
                (1, [1, 1, 0, A(7), A(8), A(9), A(10)],    [A(0), A(1), A(2), A(3), A(4), A(5), A(6)])]
    if kind == "RD":
        return [cas, (1, [1, 0, 0, C(0), C(3), C(4), C(5)], col_f)]
    if kind == "WR":
        return [cas, (1, [0, 1, int(not masked_write), C(0), C(3), C(4), C(5)], col_f)]
    if kind == "PRE":
        return [des, (1, [0, 0, 0, 1, 1, 1, 1], [B(0), B(1), B(2), B(3), 0, 0, A(10)])]
    if kind == "REF":
        return [des, (1, [0, 0, 0, 1, 1, 1, 0], [B(0), B(1), B(2), 0, 0, 0, A(10)])]
    if kind == "MRS":
        return [(1, [0, 0, 0, 1, 1, 0, 1],    [B(i) for i in range(7)]),
                (1, [0, 0, 0, 1, 0, 0, A(7)], [A(i) for i in range(7)])]
    if kind == "ZQC":
        if ba == 0:  # MPC, all-zero operand is replaced by ZQC latch
            op = 0b10000110 if a == 0 else a & 0xff
            return [des, (1, [0, 0, 0, 0, 1, 1, (op >> 7) & 1], [(op >> i) & 1 for i in range(7)])]
        if ba == 1:  # MRR
            return [cas, (1, [0, 0, 0, 1, 1, 0, 0], [A(i) for i in range(7)])]
        if ba == 2:  # NOP
            return [des, (1, [0]*7, [0]*7)]
        return None
    return None

def rand_cmd5(rng):
    kind = rng.choice(list(KINDS))
    bank = rng.choice([0, 1, 2, 3, rng.randrange(128)]) if kind == "ZQC" else rng.randrange(128)
    address = rng.choice([0, rng.randrange(1 << 18), rng.randrange(1 << 18), rng.randrange(256)])
    return mkcmd(kind, address=address, bank=bank, cs_n=int(rng.random() < 0.1))

def random_traffic5(rng, ncycles):
    seq = []
    d = 0.5
    for i in range(ncycles):
        if i % 16 == 0:
            d = rng.choice([0.1, 0.3, 0.6, 1.0])
        seq.append(rand_cmd5(rng) if rng.random() < d else IDLE)
    return seq

def directed_traffic5():
    seq = []
    kinds = [("ACT", None), ("RD", None), ("WR", None), ("PRE", None), ("REF", None), ("MRS", None),
             ("ZQC", 0), ("ZQC", 1), ("ZQC", 2), ("ZQC", 9)]
    full = (1 << 18) - 1
    patterns = [(0, 0), (full, 127)]
    patterns += [(1 << i, 0) for i in range(18)] + [(0, 1 << i) for i in range(7)]
    patterns += [(full ^ (1 << i), 127) for i in range(18)] + [(full, 127 ^ (1 << i)) for i in range(7)]
    for kind, fixed_bank in kinds:
        for a, ba in patterns:
            seq += [mkcmd(kind, a, ba if fixed_bank is None else fixed_bank), IDLE]
    rng = random.Random(4321)
    kinds2 = ["ACT", "RD", "WR", "PRE", "REF", "MRS", "ZQC", "NOP"]
    mk = lambda k: mkcmd(k, rng.randrange(1 << 18), rng.randrange(3) if k == "ZQC" else rng.randrange(128))
    for k1, k2 in itertools.product(kinds2, kinds2):
        for gap in (0, 1, 2):
            seq += [mk(k1)] + [IDLE] * gap + [mk(k2), mk(rng.choice(kinds2)), IDLE, IDLE]
    return seq

def make_lpddr5phy(masked_write=True, wck_ck_ratio=2):
    from litedram.phy.lpddr5.simphy import LPDDR5SimulationPads
    from litedram.phy.lpddr5.basephy import LPDDR5PHY
    pads = LPDDR5SimulationPads()
    phy = LPDDR5PHY(pads, ck_freq=100e6, phytype="LPDDR5SimPHY", masked_write=masked_write,
        wck_ck_ratio=wck_ck_ratio, ser_latency=Latency(sys=1), des_latency=Latency(sys=2))
    phy.submodules += pads
    return phy

def check_phy5(tag, seq, masked_write=True, wck_ck_ratio=2):
    """Cycle exact check of LPDDR5PHY.out.cs / out.ca against the golden model: cmd1 in the cycle of the DFI
    command, cmd2 in the next one, a command arriving right behind an accepted one is dropped."""
    obs = []
    def gen(dut):
        for c in seq + [IDLE] * 4:
            for name, v in c.items():
                yield getattr(dut.dfi.p0, name).eq(v)
            yield
            cs = (yield dut.out.cs)
            ca = []
            for s in dut.out.ca:
                ca.append((yield s))
            ws = (yield dut.adapter.wck_sync)
            obs.append((cs, [w & 1 for w in ca], [(w >> 1) & 1 for w in ca], ws))
    phy = make_lpddr5phy(masked_write, wck_ck_ratio)
    run_simulation(phy, gen(phy), clocks=CLK_SYS)
    expected = []
    second = None
    sent = 0
    for t, c in enumerate(seq + [IDLE] * 4):
        if second is not None:
            expected.append(second)
            second = None
            continue
        e = enc5(c, masked_write, obs[t][3])
        if e is None:
            expected.append((0, [0]*7, [0]*7))
        else:
            expected.append(e[0])
            second = e[1]
            sent += 1
    for t, (o, e) in enumerate(zip(obs, expected)):
        check(o[:3] == e, "%s: cycle %d: pads carry cs=%r ca_r=%r ca_f=%r, golden %r" % (tag, t, o[0], o[1], o[2], e))
    check(sent > 0, tag + ": no command sent")
    return sent

# ===================================================================================================
# keep_1: CommandsPipeline merges the per-adapter words before a single bitslip stage per output line
# ===================================================================================================
from functools import reduce
from operator import or_
from collections import defaultdict

class RefConstBitSlip(Module):
    """Verbatim copy of the upstream ConstBitSlip (reference)"""
    def __init__(self, dw, slp, cycles, i=None, o=None, register=True):
        self.i = Signal(dw, name='i') if i is None else i
        self.o = Signal(dw, name='o') if o is None else o
        assert cycles >= 1, cycles
        assert 0 <= slp <= cycles*dw-1, (slp, cycles, dw)
        slp = (cycles*dw-1) - slp
        self.r = r = Signal((cycles+1)*dw, reset_less=True)
        if register:
            self.sync += r.eq(Cat(r[dw:], self.i))
        else:
            reg = Signal(cycles*dw, reset_less=True)
            if len(reg[dw:]) > 0:
                self.sync += reg.eq(Cat(reg[dw:], self.i))
            else:
                self.sync += reg.eq(self.i)
            self.comb += r.eq(Cat(reg, self.i))
        self.comb += self.o.eq(r[slp+1:dw+slp+1])

class RefCommandsPipeline(Module):
    """Verbatim copy of the upstream CommandsPipeline (reference): one ConstBitSlip per adapter and line"""
    def __init__(self, adapters, *, cs_ser_width, ca_ser_width, ca_nbits, cmd_nphases_span,
            extended_overlaps_check=False):
        nphases = len(adapters)
        self.cs = Signal(cs_ser_width)
        self.ca = [Signal(ca_ser_width) for _ in range(ca_nbits)]
        assert cmd_nphases_span <= nphases
        n_previous = cmd_nphases_span - 1
        assert ca_ser_width % cs_ser_width == 0
        ca_phase_slip = ca_ser_width // cs_ser_width
        valids = RefConstBitSlip(dw=nphases, slp=0, cycles=1, register=False)
        self.submodules += valids
        self.comb += valids.i.eq(Cat(a.valid for a in adapters))
        valids_hist = valids.r
        if extended_overlaps_check:
            valids_hist = Signal.like(valids.r)
            for i in range(len(valids_hist)):
                hist_before = valids_hist[max(0, i-n_previous):i]
                was_valid_before = reduce(or_, hist_before, 0)
                self.comb += valids_hist[i].eq(valids.r[i] & ~was_valid_before)
        cs_per_adapter = []
        ca_per_adapter = defaultdict(list)
        for phase, adapter in enumerate(adapters):
            allowed = ~reduce(or_, valids_hist[nphases+phase - n_previous:nphases+phase])
            cs_bs = RefConstBitSlip(dw=cs_ser_width, slp=phase, cycles=1)
            self.submodules += cs_bs
            cs_mask = Replicate(allowed, len(cs_bs.i))
            self.comb += cs_bs.i.eq(Cat(adapter.cs) & cs_mask),
            cs_per_adapter.append(cs_bs.o)
            for bit in range(ca_nbits):
                ca_bs = RefConstBitSlip(dw=ca_ser_width, slp=phase*ca_phase_slip, cycles=1)
                self.submodules += ca_bs
                ca_bit_hist = [ca[bit] for ca in adapter.ca]
                ca_mask = Replicate(allowed, len(ca_bs.o))
                self.comb += ca_bs.i.eq(Cat(*ca_bit_hist) & ca_mask),
                ca_per_adapter[bit].append(ca_bs.o)
        self.comb += self.cs.eq(reduce(or_, cs_per_adapter))
        for bit in range(ca_nbits):
            self.comb += self.ca[bit].eq(reduce(or_, ca_per_adapter[bit]))

class FakeAdapter:
    def __init__(self, cs_w, ca_n, ca_nbits):
        self.valid = Signal(name="valid")
        self.cs = Signal(cs_w, name="cs")
        self.ca = Array([Signal(ca_nbits, name="ca") for _ in range(ca_n)])

class Both(Module):
    def __init__(self, nphases, cs_w, ca_n, **kw):
        self.adapters = []
        for _ in range(nphases):
            self.adapters.append(FakeAdapter(cs_w, ca_n, kw["ca_nbits"]))
        self.submodules.new = CommandsPipeline(self.adapters, **kw)
        self.submodules.ref = RefCommandsPipeline(self.adapters, **kw)

def equivalence(tag, rng, ncycles, nphases, cs_w, ca_n, **kw):
    """New pipeline against the reference copy on arbitrary (not only adapter-shaped) stimulus. The adapter
    `valid` is deliberately independent of cs/ca so every masking pattern is reached."""
    seen = [0]
    def gen(dut):
        for t in range(ncycles):
            d = rng.choice([0.0, 0.1, 0.3, 0.7, 1.0])
            for a in dut.adapters:
                on = rng.random() < d
                yield a.valid.eq(int(on if rng.random() < 0.9 else not on))
                yield a.cs.eq(rng.randrange(1 << cs_w) if on else 0)
                for ca in a.ca:
                    yield ca.eq(rng.randrange(1 << kw["ca_nbits"]) if on else 0)
            yield
            n, r = (yield dut.new.cs), (yield dut.ref.cs)
            check(n == r, "%s: cycle %d: cs %x != reference %x" % (tag, t, n, r))
            seen[0] |= n
            for bit in range(kw["ca_nbits"]):
                n, r = (yield dut.new.ca[bit]), (yield dut.ref.ca[bit])
                check(n == r, "%s: cycle %d: ca[%d] %x != reference %x" % (tag, t, bit, n, r))
    both = Both(nphases, cs_w, ca_n, **kw)
    run_simulation(both, gen(both), clocks=CLK_SYS)
    reachable = (1 << min(kw["cs_ser_width"], nphases + cs_w - 1)) - 1
    check(seen[0] == reachable, tag + ": not every CS slot exercised")

def main():
    t0 = time.time()
    rng = random.Random(20)
    # 1. cycle-exact equivalence with the reference copy of the old pipeline
    configs = [  # nphases, cs_w, ca_n, cs_ser_width, ca_ser_width, ca_nbits, span
        (8, 4, 4, 8, 8, 6, 4),    # LPDDR4PHY
        (8, 4, 4, 8, 8, 6, 2),
        (8, 4, 4, 8, 8, 6, 8),
        (4, 4, 4, 4, 4, 6, 4),
        (4, 2, 4, 4, 8, 7, 2),    # DDR CA: 2 CA bits per CS bit
        (4, 2, 4, 4, 8, 7, 3),
        (2, 2, 4, 2, 4, 3, 2),
        (8, 8, 8, 8, 8, 2, 4),    # command as long as the whole word
        (4, 2, 8, 8, 32, 2, 2),   # 4 CA bits per CS bit
    ]
    for nphases, cs_w, ca_n, csw, caw, nbits, span in configs:
        for extended in (False, True):
            equivalence("equiv %r ext=%d" % ((nphases, cs_w, ca_n, csw, caw, nbits, span), extended), rng, 250,
                nphases, cs_w, ca_n, cs_ser_width=csw, ca_ser_width=caw, ca_nbits=nbits, cmd_nphases_span=span,
                extended_overlaps_check=extended)
    print("equivalence with reference pipeline ok (%.0fs)" % (time.time() - t0))

    # 2. real LPDDR4 adapters + pipeline against the JEDEC golden model (bit exact, latency 1 sys cycle = 8 bits)
    directed = directed_traffic4()
    check_harness4("directed", directed, True, False, want_offset=8)
    check_harness4("directed/write", directed, False, True, want_offset=8)
    for seed in range(3):
        r = random.Random(100 + seed)
        seq = random_traffic4(r, 250)
        check_harness4("random%d basic" % seed, seq, bool(seed % 2), False, want_offset=8)
        check_harness4("random%d extended" % seed, seq, bool(seed % 2), True, want_offset=8)
    check_harness4("random dynamic masked_write", random_traffic4(rng, 250), None, False, want_offset=8, dynamic_mw=True, rng=rng)
    print("LPDDR4 adapters + pipeline vs golden ok (%.0fs)" % (time.time() - t0))

    # 3. whole PHYs, single and double rate (latency: 8 bits, resp. 8 + one 16:8 serializer stage)
    seq = random_traffic4(rng, 120)
    check_phy4("LPDDR4PHY", seq, False, want_offset=8)
    check_phy4("LPDDR4PHY extended", seq, False, masked_write=False, extended=True, want_offset=8)
    check_phy4("DoubleRateLPDDR4PHY", seq, True, want_offset=16)
    print("LPDDR4 PHYs vs golden ok (%.0fs)" % (time.time() - t0))

    # 4. the module still converts to Verilog
    from migen.fhdl import verilog
    h = Harness4(True, False)
    verilog.convert(h, ios={h.cs, *h.ca})
    print("keep_1: OK")

if __name__ == "__main__":
    main()
