#!/usr/bin/env python3
"""Check for change 3 (litedram/frontend/dma.py: LiteDRAMDMAReader ties rdata.ready to 1 instead of
forwarding the data FIFO's writable flag - the reservation FIFO guarantees the room).

Run from the root of a tree with the change applied. Exit code 0 = property C13 still holds.

 1) LiteDRAMDMAReader alone on a port whose read data can not be stalled, FIFO depths 1..16, plain
    and buffered FIFOs, random request / command / latency / consumer-stall patterns: read data is
    never presented to a full data FIFO, every requested word comes out once, in order, with its
    `last`; cycle-exact comparison with an embedded verbatim copy of the unmodified dma.py.
 2) The whole LiteDRAMFIFO (the DRAM FIFO reader is built on this engine) with randomised producer /
    consumer / DRAM timing, DRAM model with unstallable and with stallable read data: output stream
    compared with the input (lossless / ordered / complete / nothing extra), no unread location
    overwritten, level <= depth, and cycle-exact comparison of the streams and DRAM port activity
    (except rdata.ready itself) with the same fifo.py bound to the unmodified DMA engines.
"""

# ---- common harness (copied verbatim into every keep_k.py) ---------------------------------------
import os, sys, random
sys.path.insert(0, os.getcwd())

from migen import *
from litedram.common import LiteDRAMNativeWritePort, LiteDRAMNativeReadPort


class Violation(Exception):
    pass


class DUT(Module):
    def __init__(self, fifo_cls, data_width, ratio, base_words, depth_words, with_bypass, **kw):
        pdw = data_width*ratio
        self.write_port = LiteDRAMNativeWritePort(address_width=32, data_width=pdw)
        self.read_port  = LiteDRAMNativeReadPort(address_width=32,  data_width=pdw)
        self.base  = base_words
        self.depth = depth_words
        self.submodules.fifo = fifo_cls(
            data_width  = data_width,
            base        = base_words*(pdw//8),
            depth       = depth_words*(pdw//8),
            write_port  = self.write_port,
            read_port   = self.read_port,
            with_bypass = with_bypass, **kw)


class Bench:
    """Random producer / consumer / DRAM model around a LiteDRAMFIFO.

    The DRAM model is command ordered (like the real controller): a read returns the memory content
    as of all the write commands accepted before it. It checks that no live (written, not yet read)
    location is overwritten, that no dead location is read and that all addresses are in range.
    """
    def __init__(self, dut, seed, n_words, max_cycles, profile, trace=None, stallable_rdata=True):
        self.dut    = dut
        self.prng   = random.Random(seed)
        self.n      = n_words
        self.max_cycles = max_cycles
        self.profile = profile
        self.sent   = []
        self.recv   = []
        self.done   = False
        self.trace  = trace
        self.max_live = 0
        self.mode_switches = 0   # returns to BYPASS mode
        # False: read data is presented for exactly one cycle whatever rdata.ready (what the real
        # controller does); a word presented while rdata.ready is low is reported.
        self.stallable_rdata = stallable_rdata

    # producer -------------------------------------------------------------------------------------
    @passive
    def producer(self):
        sink = self.dut.fifo.sink
        prng = random.Random(self.prng.random())
        mask = 2**len(sink.data) - 1
        i = 0
        p = 1.0
        phase = 0
        valid = 0
        while i < self.n:
            if phase == 0:
                p     = prng.choice(self.profile["p_w"])
                phase = prng.randrange(1, self.profile["phase"])
            phase -= 1
            if valid and (yield sink.ready):
                self.sent.append(data)
                i += 1
                valid = 0
            if not valid and i < self.n and prng.random() < p:
                valid = 1
                data  = ((i + 1)*0x9e3779b1 >> 7) & mask
                yield sink.data.eq(data)
            yield sink.valid.eq(valid)
            yield
        yield sink.valid.eq(0)
        yield

    # consumer -------------------------------------------------------------------------------------
    @passive
    def consumer(self):
        source = self.dut.fifo.source
        prng = random.Random(self.prng.random())
        ready = 0
        phase = 0
        while True:
            if phase == 0:
                p     = prng.choice(self.profile["p_r"])
                phase = prng.randrange(1, self.profile["phase"])
            phase -= 1
            if ready and (yield source.valid):
                self.recv.append((yield source.data))
            ready = int(prng.random() < p)
            yield source.ready.eq(ready)
            yield

    # DRAM -----------------------------------------------------------------------------------------
    @passive
    def dram(self):
        wp, rp = self.dut.write_port, self.dut.read_port
        prng = random.Random(self.prng.random())
        pr   = self.profile
        mem  = {}
        live = set()
        wq   = []          # accepted write commands waiting for their data
        rq   = []          # accepted reads: [addr, n_wcmd_before, data or None, earliest_cycle]
        n_wcmd = 0
        n_wdone = 0
        cycle = 0
        w_cmd_ready = r_cmd_ready = w_dat_ready = r_dat_valid = 0
        while True:
            # events of the cycle that just ended
            if w_cmd_ready and (yield wp.cmd.valid):
                a = (yield wp.cmd.addr)
                if not (yield wp.cmd.we):
                    raise Violation("read command on write port")
                if not (self.dut.base <= a < self.dut.base + self.dut.depth):
                    raise Violation("write address out of range: %d" % a)
                if a in live:
                    raise Violation("unread location %d overwritten" % a)
                live.add(a)
                self.max_live = max(self.max_live, len(live))
                wq.append(a)
                n_wcmd += 1
            if w_dat_ready and (yield wp.wdata.valid):
                mem[wq.pop(0)] = (yield wp.wdata.data)
                n_wdone += 1
            if r_dat_valid and not self.stallable_rdata and not (yield rp.rdata.ready):
                raise Violation("read data dropped: rdata.valid while the reader is not ready")
            if r_dat_valid and (yield rp.rdata.ready):
                rq.pop(0)
                r_dat_valid = 0
            if r_cmd_ready and (yield rp.cmd.valid):
                a = (yield rp.cmd.addr)
                if (yield rp.cmd.we):
                    raise Violation("write command on read port")
                if a not in live:
                    raise Violation("location %d read while not holding data" % a)
                live.discard(a)
                rq.append([a, n_wcmd, None, cycle + prng.randrange(1, pr["lat"] + 1)])
            for r in rq:
                if r[2] is None and n_wdone >= r[1]:
                    r[2] = mem[r[0]]
            # drive next cycle
            w_cmd_ready = int(len(wq) < 4 and prng.random() < pr["p_cmd"])
            r_cmd_ready = int(len(rq) < 8 and prng.random() < pr["p_cmd"])
            w_dat_ready = int(len(wq) > 0 and prng.random() < pr["p_dat"])
            if not r_dat_valid and rq and rq[0][2] is not None and cycle >= rq[0][3]:
                r_dat_valid = 1
                yield rp.rdata.data.eq(rq[0][2])
            yield wp.cmd.ready.eq(w_cmd_ready)
            yield rp.cmd.ready.eq(r_cmd_ready)
            yield wp.wdata.ready.eq(w_dat_ready)
            yield rp.rdata.valid.eq(r_dat_valid)
            cycle += 1
            yield

    # monitor --------------------------------------------------------------------------------------
    def monitor(self):
        fifo = self.dut.fifo
        ctrl = fifo.dram_fifo.ctrl
        idle = 0
        fsm_state = 0
        for cycle in range(self.max_cycles):
            if hasattr(fifo, "fsm"):
                s = (yield fifo.fsm.state)
                if s == 0 and fsm_state != 0:  # BYPASS is the reset state (encoded 0)
                    self.mode_switches += 1
                fsm_state = s
            if (yield ctrl.level) > ctrl.depth:
                raise Violation("level above depth")
            if self.trace is not None:
                self.trace.append((
                    (yield fifo.sink.ready), (yield fifo.source.valid),
                    (yield fifo.source.data) if (yield fifo.source.valid) else 0,
                    (yield self.dut.write_port.cmd.valid), (yield self.dut.write_port.cmd.addr),
                    (yield self.dut.read_port.cmd.valid),  (yield self.dut.read_port.cmd.addr),
                    (yield self.dut.write_port.wdata.valid), (yield self.dut.read_port.rdata.ready),
                    (yield ctrl.level),
                ))
            if len(self.sent) == self.n and len(self.recv) >= self.n:
                idle += 1
                if idle > 64:  # also look for spurious extra words
                    self.done = True
                    return
            yield

    def run(self):
        run_simulation(self.dut, [self.producer(), self.consumer(), self.dram(), self.monitor()])
        if self.recv != self.sent[:len(self.recv)]:
            k = [a == b for a, b in zip(self.recv, self.sent)].index(False) \
                if len(self.recv) <= len(self.sent) else len(self.sent)
            raise Violation("output differs from input at word %d" % k)
        if not self.done or len(self.recv) != self.n:
            raise Violation("stream incomplete: sent %d received %d" % (len(self.sent), len(self.recv)))


PROFILES = {
    "fast_w":  dict(p_w=[1.0, 0.9], p_r=[0.1, 0.3, 0.0, 1.0], phase=200, p_cmd=0.8, p_dat=0.8, lat=3),
    "fast_r":  dict(p_w=[0.1, 0.3, 0.0, 1.0], p_r=[1.0, 0.9], phase=200, p_cmd=0.8, p_dat=0.8, lat=3),
    "mixed":   dict(p_w=[0.0, 0.2, 0.6, 1.0], p_r=[0.0, 0.2, 0.6, 1.0], phase=120, p_cmd=0.5, p_dat=0.5, lat=8),
    "slowmem": dict(p_w=[0.0, 0.5, 1.0], p_r=[0.0, 0.5, 1.0], phase=80, p_cmd=0.15, p_dat=0.2, lat=20),
    "ideal":   dict(p_w=[0.0, 0.5, 1.0], p_r=[0.0, 0.5, 1.0], phase=60, p_cmd=1.0, p_dat=1.0, lat=1),
}
# ---- end of common harness -----------------------------------------------------------------------


def load_module(name, source, **overrides):
    """Build a module object from source text (used for the embedded copy of the unmodified code)."""
    import types
    m = types.ModuleType(name)
    m.__dict__["__name__"] = name
    exec(compile(source, "<" + name + ">", "exec"), m.__dict__)
    m.__dict__.update(overrides)
    return m


def run_one(fifo_cls, cfg, profile, seed, n_words, max_cycles, stallable_rdata=True):
    dut   = DUT(fifo_cls, **cfg)
    trace = []
    bench = Bench(dut, seed, n_words, max_cycles, PROFILES[profile], trace=trace, stallable_rdata=stallable_rdata)
    try:
        bench.run()
        verdict = "ok"
    except Violation as e:
        verdict = "VIOLATION: " + str(e)
    return verdict, trace, bench


def lockstep(new_cls, orig_cls, cfg, profile, seed, n_words=250, max_cycles=6000, mask=None, stallable_rdata=True):
    """Same stimulus on the modified and on the unmodified FIFO: the cycle by cycle behaviour at the
    streams and at the DRAM ports must be identical. Where the unmodified FIFO is known to satisfy
    the property (no bypass, or bypass without width conversion) it must hold outright."""
    v_new, t_new, b_new = run_one(new_cls,  cfg, profile, seed, n_words, max_cycles, stallable_rdata)
    v_org, t_org, b_org = run_one(orig_cls, cfg, profile, seed, n_words, max_cycles, stallable_rdata)
    if mask is not None:
        t_new = [mask(t) for t in t_new]
        t_org = [mask(t) for t in t_org]
    same = (t_new == t_org) and (b_new.sent == b_org.sent) and (b_new.recv == b_org.recv) and (v_new == v_org)
    must_hold = (not cfg["with_bypass"]) or cfg["ratio"] == 1
    if not must_hold:
        # The unmodified FIFO itself can lose / duplicate words when it leaves DRAM mode with a
        # partially filled converter (data-width ratio > 1, pre-existing): there only the identity
        # with the unmodified behaviour is required.
        pass
    ok = same and (v_new == "ok" or not must_hold)
    print("%-8s seed=%-3d %s -> %s | cycles=%d max_live=%d returns_to_bypass=%d identical_to_unmodified=%s : %s" % (
        profile, seed, cfg, v_new, len(t_new), b_new.max_live, b_new.mode_switches, same, "PASS" if ok else "FAIL"), flush=True)
    return ok

# Verbatim copy of the unmodified litedram/frontend/dma.py (reference for the lockstep comparison).
ORIG_DMA_SRC = r'''#
# This file is part of LiteDRAM.
#
# Copyright (c) 2016-2021 Florent Kermarrec <florent@enjoy-digital.fr>
# Copyright (c) 2015 Sebastien Bourdeauducq <sb@m-labs.hk>
# Copyright (c) 2018 John Sully <john@csquare.ca>
# Copyright (c) 2016 Tim 'mithro' Ansell <mithro@mithis.com>
# SPDX-License-Identifier: BSD-2-Clause

"""Direct Memory Access (DMA) reader and writer modules."""

from math import log2

from migen import *

from litex.soc.interconnect.csr import *
from litex.soc.interconnect import stream

from litedram.common import LiteDRAMNativePort
from litedram.frontend.axi import LiteDRAMAXIPort

# LiteDRAMDMAReader --------------------------------------------------------------------------------

class LiteDRAMDMAReader(Module, AutoCSR):
    """Read data from DRAM memory.

    For every address written to the sink, one DRAM word will be produced on
    the source.

    Parameters
    ----------
    port : port
        Port on the DRAM memory controller to read from (Native or AXI).

    fifo_depth : int
        How many request results the output FIFO can contain (and thus how many
        read requests can be outstanding at once).

    fifo_buffered : bool
        Implement FIFO in Block Ram.

    Attributes
    ----------
    sink : Record("address")
        Sink for DRAM addresses to be read.

    source : Record("data")
        Source for DRAM word results from reading.
    """

    def __init__(self, port, fifo_depth=16, fifo_buffered=False, with_csr=False):
        assert isinstance(port, (LiteDRAMNativePort, LiteDRAMAXIPort))
        self.port   = port
        self.enable = enable = Signal(reset=1)
        self.sink   = sink   = stream.Endpoint([("address", port.address_width)])
        self.source = source = stream.Endpoint([("data", port.data_width)])

        # # #

        # Native / AXI selection -------------------------------------------------------------------
        is_native = isinstance(port, LiteDRAMNativePort)
        is_axi    = isinstance(port, LiteDRAMAXIPort)
        if is_native:
            (cmd, rdata) = port.cmd, port.rdata
        elif is_axi:
            (cmd, rdata) = port.ar, port.r
        else:
            raise NotImplementedError

        # Reservation FIFO -------------------------------------------------------------------------

        res_fifo = stream.SyncFIFO([("dummy", 1)], fifo_depth)
        self.submodules += res_fifo

        # Request issuance -------------------------------------------------------------------------

        if is_native:
            self.comb += cmd.we.eq(0)
        if is_axi:
            self.comb += cmd.size.eq(int(log2(port.data_width//8)))
        self.comb += [
            cmd.addr.eq(sink.address),
            cmd.last.eq(sink.last),
            cmd.valid.eq(enable & sink.valid & res_fifo.sink.ready),
            sink.ready.eq(enable & cmd.ready & res_fifo.sink.ready),
        ]
        self.comb += [
            res_fifo.sink.valid.eq(cmd.valid & cmd.ready),
            res_fifo.sink.last.eq(cmd.last),
        ]

        # FIFO -------------------------------------------------------------------------------------
        fifo = stream.SyncFIFO([("data", port.data_width)], fifo_depth, fifo_buffered)
        self.submodules += fifo

        self.comb += [
            rdata.connect(fifo.sink, omit={"id", "resp", "dest", "user"}),
            fifo.source.connect(source, omit={"valid", "ready", "last"}),
            If(res_fifo.source.valid,
                source.valid.eq(fifo.source.valid),
                source.last.eq(res_fifo.source.last),
            ),
            fifo.source.ready.eq(source.ready | ~enable), # Flush FIFO/Reservation counter when disabled.
        ]
        self.comb += res_fifo.source.ready.eq(fifo.source.valid & fifo.source.ready)

        if with_csr:
            self.add_csr()

    def add_csr(self, default_base=0, default_length=0, default_enable=0, default_loop=0):
        self._base   = CSRStorage(32, reset=default_base)
        self._length = CSRStorage(32, reset=default_length)
        self._enable = CSRStorage(reset=default_enable)
        self._done   = CSRStatus()
        self._loop   = CSRStorage(reset=default_loop)
        self._offset = CSRStatus(32)

        # # #

        shift  = log2_int(self.port.data_width//8)
        base   = Signal(self.port.address_width)
        offset = Signal(self.port.address_width)
        length = Signal(self.port.address_width)
        self.comb += self.enable.eq(self._enable.storage)
        self.comb += base.eq(self._base.storage[shift:])
        self.comb += length.eq(self._length.storage[shift:])

        self.comb += self._offset.status.eq(offset)

        fsm = FSM(reset_state="IDLE")
        fsm = ResetInserter()(fsm)
        self.submodules.fsm = fsm
        self.comb += fsm.reset.eq(~self._enable.storage)
        fsm.act("IDLE",
            NextValue(offset, 0),
            NextState("RUN"),
        )
        fsm.act("RUN",
            self.sink.valid.eq(1),
            self.sink.last.eq(offset == (length - 1)),
            self.sink.address.eq(base + offset),
            If(self.sink.ready,
                NextValue(offset, offset + 1),
                If(self.sink.last,
                    If(self._loop.storage,
                        NextValue(offset, 0)
                    ).Else(
                        NextState("DONE")
                    )
                )
            )
        )
        fsm.act("DONE", self._done.status.eq(1))

# LiteDRAMDMAWriter --------------------------------------------------------------------------------

class LiteDRAMDMAWriter(Module, AutoCSR):
    """Write data to DRAM memory.

    Parameters
    ----------
    port : port
        Port on the DRAM memory controller to write to (Native or AXI).

    fifo_depth : int
        How many requests the input FIFO can contain (and thus how many write
        requests can be outstanding at once).

    fifo_buffered : bool
        Implement FIFO in Block Ram.

    Attributes
    ----------
    sink : Record("address", "data")
        Sink for DRAM addresses and DRAM data word to be written too.
    """
    def __init__(self, port, fifo_depth=16, fifo_buffered=False, with_csr=False):
        assert isinstance(port, (LiteDRAMNativePort, LiteDRAMAXIPort))
        self.port = port
        self.sink = sink = stream.Endpoint([("address", port.address_width),
                                            ("data", port.data_width)])

        # # #

        # Native / AXI selection -------------------------------------------------------------------
        is_native = isinstance(port, LiteDRAMNativePort)
        is_axi    = isinstance(port, LiteDRAMAXIPort)
        if is_native:
            (cmd, wdata) = port.cmd, port.wdata
        elif is_axi:
            (cmd, wdata) = port.aw, port.w
            self.comb += port.b.ready.eq(1) # Always ack write responses.
        else:
            raise NotImplementedError

        # FIFO -------------------------------------------------------------------------------------
        self.submodules.fifo = fifo = stream.SyncFIFO([("data", port.data_width)], fifo_depth, fifo_buffered)

        if is_native:
            self.comb += cmd.we.eq(1)
        if is_axi:
            self.comb += cmd.size.eq(int(log2(port.data_width//8)))
        self.comb += [
            cmd.addr.eq(sink.address),
            cmd.last.eq(sink.last),
            cmd.valid.eq(fifo.sink.ready & sink.valid),
            sink.ready.eq(fifo.sink.ready & cmd.ready),
            fifo.sink.valid.eq(sink.valid & cmd.ready),
            fifo.sink.data.eq(sink.data)
        ]

        if is_native:
            self.comb += wdata.we.eq(2**(port.data_width//8)-1)
        if is_axi:
            self.comb += wdata.strb.eq(2**(port.data_width//8)-1)
        self.comb += [
            wdata.valid.eq(fifo.source.valid),
            fifo.source.ready.eq(wdata.ready),
            wdata.data.eq(fifo.source.data)
        ]

        if with_csr:
            self.add_csr()

    def add_csr(self, default_base=0, default_length=0, default_enable=0, default_loop=0):
        self._sink = self.sink
        self.sink  = stream.Endpoint([("data", self.port.data_width)])

        self._base   = CSRStorage(32, reset=default_base)
        self._length = CSRStorage(32, reset=default_length)
        self._enable = CSRStorage(reset=default_enable)
        self._done   = CSRStatus()
        self._loop   = CSRStorage(reset=default_loop)
        self._offset = CSRStatus(32)

        # # #

        shift  = log2_int(self.port.data_width//8)
        base   = Signal(self.port.address_width)
        offset = Signal(self.port.address_width)
        length = Signal(self.port.address_width)
        self.comb += base.eq(self._base.storage[shift:])
        self.comb += length.eq(self._length.storage[shift:])

        self.comb += self._offset.status.eq(offset)

        fsm = FSM(reset_state="IDLE")
        fsm = ResetInserter()(fsm)
        self.submodules.fsm = fsm
        self.comb += fsm.reset.eq(~self._enable.storage)
        fsm.act("IDLE",
            self.sink.ready.eq(1),
            NextValue(offset, 0),
            NextState("RUN"),
        )
        fsm.act("RUN",
            self._sink.valid.eq(self.sink.valid),
            self._sink.last.eq(offset == (length - 1)),
            self._sink.address.eq(base + offset),
            self._sink.data.eq(self.sink.data),
            self.sink.ready.eq(self._sink.ready),
            If(self.sink.valid & self.sink.ready,
                NextValue(offset, offset + 1),
                If(self._sink.last,
                    If(self._loop.storage,
                        NextValue(offset, 0)
                    ).Else(
                        NextState("DONE")
                    )
                )
            )
        )
        fsm.act("DONE", self._done.status.eq(1))
'''

# ---- change 3: LiteDRAMDMAReader does not back-pressure the port's read data (rdata.ready = 1) ----
from litex.soc.interconnect import stream
import litedram.frontend.dma  as new_dma
import litedram.frontend.fifo as new_fifo

orig_dma  = load_module("orig_dma", ORIG_DMA_SRC)
# The FIFO code itself is untouched by this change: the reference FIFO is the same fifo.py bound to
# the unmodified DMA engines.
orig_fifo = load_module("orig_fifo", open(new_fifo.__file__).read(), dma=orig_dma)
assert orig_fifo.dma is orig_dma and new_fifo.dma is new_dma


def data_fifo_of(reader):
    fifos = [m for _, m in reader._submodules if isinstance(m, stream.SyncFIFO) and hasattr(m.sink, "data")]
    assert len(fifos) == 1
    return fifos[0]


def mem(addr):
    return (addr*0x9e3779b1 >> 5) & 0xffffffff


def dma_reader_run(dma_mod, fifo_depth, buffered, seed, cycles, lat_max, p_cmd, p_req, stall):
    """LiteDRAMDMAReader alone on a port that can NOT stall its read data (valid for one cycle
    whatever rdata.ready, like the real crossbar)."""
    port   = LiteDRAMNativeReadPort(address_width=32, data_width=32)
    dut    = dma_mod.LiteDRAMDMAReader(port, fifo_depth=fifo_depth, fifo_buffered=buffered)
    dfifo  = data_fifo_of(dut)
    prng   = random.Random(seed)
    expect, got, trace, errors = [], [], [], []

    @passive
    def requester():
        valid = 0
        r = random.Random(prng.random())
        while True:
            if valid and (yield dut.sink.ready):
                expect.append((mem(addr), last))
                valid = 0
            if not valid and r.random() < p_req:
                valid, addr, last = 1, r.randrange(2**20), r.randrange(2)
                yield dut.sink.address.eq(addr)
                yield dut.sink.last.eq(last)
            yield dut.sink.valid.eq(valid)
            yield

    @passive
    def dram():
        r = random.Random(prng.random())
        pending = []   # [data, cycle at which it is returned]
        ready = valid = 0
        cycle = 0
        while True:
            if ready and (yield port.cmd.valid):
                if (yield port.cmd.we):
                    errors.append("write command")
                t = cycle + r.randrange(1, lat_max + 1)
                if pending:
                    t = max(t, pending[-1][1] + 1)   # in order, one word per cycle
                pending.append([mem((yield port.cmd.addr)), t])
            if valid and not (yield port.rdata.ready):
                errors.append("cycle %d: rdata.valid while rdata.ready is low" % cycle)
            if valid and not (yield dfifo.sink.ready):
                errors.append("cycle %d: read data presented to a full data FIFO (lost)" % cycle)
            ready = int(r.random() < p_cmd)
            valid = 0
            if pending and pending[0][1] <= cycle:
                valid = 1
                yield port.rdata.data.eq(pending.pop(0)[0])
            yield port.cmd.ready.eq(ready)
            yield port.rdata.valid.eq(valid)
            cycle += 1
            yield

    @passive
    def consumer():
        r = random.Random(prng.random())
        ready = 0
        phase = 0
        while True:
            if phase == 0:
                p     = r.choice(stall)
                phase = r.randrange(1, 80)
            phase -= 1
            if ready and (yield dut.source.valid):
                got.append(((yield dut.source.data), (yield dut.source.last)))
            ready = int(r.random() < p)
            yield dut.source.ready.eq(ready)
            yield

    def monitor():
        for cycle in range(cycles):
            if (yield dfifo.level) > max(fifo_depth, 1) + int(buffered):
                errors.append("data FIFO level too high")
            trace.append(((yield dut.sink.ready), (yield dut.source.valid),
                          (yield dut.source.data) if (yield dut.source.valid) else 0,
                          (yield dut.source.last) if (yield dut.source.valid) else 0,
                          (yield port.cmd.valid)))
            yield

    run_simulation(dut, [requester(), dram(), consumer(), monitor()])
    if got != expect[:len(got)]:
        errors.append("output differs from the requested words")
    if len(got) < 50:
        errors.append("too little traffic (%d words)" % len(got))
    if len(expect) - len(got) > 2*max(fifo_depth, 1) + 2:
        errors.append("too many words in flight")
    return errors, trace, len(got)


def main():
    ok = True

    # 1) DMA reader alone, unstallable read data, every FIFO depth / implementation, the consumer
    #    stalling for long periods (FIFOs full) then draining; the modified reader against the
    #    expected words and, cycle by cycle, against the unmodified reader.
    n = words = 0
    for fifo_depth in [1, 2, 3, 4, 5, 8, 16]:
        for buffered in [False, True]:
            for j, (lat_max, p_cmd, p_req, stall) in enumerate([
                (1,  1.0, 1.0, [0.0, 1.0]),
                (6,  0.7, 0.9, [0.0, 0.1, 1.0]),
                (25, 0.9, 1.0, [0.0, 0.5, 1.0]),
            ]):
                seed = 1000*fifo_depth + 10*j + int(buffered)
                args = (fifo_depth, buffered, seed, 1200, lat_max, p_cmd, p_req, stall)
                e_new, t_new, w = dma_reader_run(new_dma,  *args)
                e_org, t_org, _ = dma_reader_run(orig_dma, *args)
                n += 1
                words += w
                if e_new or e_org or t_new != t_org:
                    ok = False
                    print("DMA reader depth=%d buffered=%s profile %d FAIL: %s %s identical=%s" % (
                        fifo_depth, buffered, j, e_new[:1], e_org[:1], t_new == t_org))
    print("DMA reader alone: %d runs, %d words checked" % (n, words), flush=True)

    # 2) Full FIFO; DRAM model with unstallable read data (reports data presented while the reader is
    #    not ready; data lost anyway would show in the stream comparison) and with stallable read
    #    data. rdata.ready itself (index 8 of the trace) is the one signal allowed to differ.
    mask = lambda t: t[:8] + (0,) + t[9:]
    runs = [
        (dict(data_width=32, ratio=1, base_words=3,  depth_words=5,  with_bypass=False), "mixed",   False),
        (dict(data_width=32, ratio=1, base_words=0,  depth_words=4,  with_bypass=False), "fast_w",  False),
        (dict(data_width=16, ratio=1, base_words=7,  depth_words=32, with_bypass=False), "fast_w",  False),
        (dict(data_width=8,  ratio=1, base_words=16, depth_words=16, with_bypass=False), "slowmem", False),
        (dict(data_width=16, ratio=1, base_words=2,  depth_words=24, with_bypass=False), "ideal",   False),
        (dict(data_width=16, ratio=1, base_words=5,  depth_words=8,  with_bypass=True),  "mixed",   False),
        (dict(data_width=32, ratio=1, base_words=9,  depth_words=20, with_bypass=True),  "fast_w",  False),
        (dict(data_width=32, ratio=1, base_words=3,  depth_words=5,  with_bypass=False), "mixed",   True),
        (dict(data_width=16, ratio=1, base_words=0,  depth_words=32, with_bypass=True),  "fast_w",  True),
        (dict(data_width=8,  ratio=4, base_words=16, depth_words=6,  with_bypass=True),  "mixed",   False),
        (dict(data_width=16, ratio=2, base_words=1,  depth_words=3,  with_bypass=True),  "slowmem", False),
    ]
    for i, (cfg, profile, stallable) in enumerate(runs):
        ok &= lockstep(new_fifo.LiteDRAMFIFO, orig_fifo.LiteDRAMFIFO, cfg, profile, seed=300 + i,
            n_words=300, mask=mask, stallable_rdata=stallable)

    print("RESULT:", "PASS" if ok else "FAIL")
    sys.exit(0 if ok else 1)


if __name__ == "__main__":
    main()
