"""keep_3 check (crossbar: two defensive conjuncts on the per-bank arbiter clock enable).

    arbiter.ce = ~bank.valid & ~bank.lock  &  ~(bank.wdata_ready | bank.rdata_valid)  &  (arbiter.request != 0)

Run from the root of a tree with keep_3.diff applied. Drives the REAL code:
 * full system (crossbar + controller with the real bank machines, refresher, multiplexer) on a
   behavioural DFI DRAM model, 12 adversarial / random scenarios: the complete port-level event trace
   (cycle of every accept / wdata.ready / rdata.valid + read data) must be IDENTICAL to the trace of
   the unmodified tree (digests recorded on the unmodified tree); latency bounds, read data and DRAM
   command legality are checked as well;
 * in every scenario a monitor checks on every bank and every cycle that a strobe implies lock (the
   fact that makes the first conjunct redundant), that the real ce only differs from the ORIGINAL
   ~bank.valid & ~bank.lock when nobody requests the bank, and a cycle-by-cycle reference model of
   the ORIGINAL crossbar equations (locked / selected / bank.valid / cmd.ready / round-robin next
   grant with the original ce) is compared with the real grants / valids / readys;
 * the same reference model on the crossbar alone with random bank-side lock / ready / strobes
   (strobes only under lock, as the bank machines guarantee) for 1..5 ports x 2/4/8 banks.
Exit status 0 = all good.
"""
# ---- shared harness (inlined in every keep_k.py) ---------------------------------------------------
# Full system: real LiteDRAMCrossbar + real LiteDRAMController (BankMachines, Multiplexer, Refresher)
# on top of a behavioural DFI memory model written as a simulation generator.
import os, sys, random, hashlib, math
sys.path.insert(0, os.getcwd())

from migen import *
from migen.sim import run_simulation

from litedram.common import PhySettings, GeomSettings, TimingSettings, burst_lengths
from litedram.core.controller import ControllerSettings, LiteDRAMController
from litedram.core.crossbar import LiteDRAMCrossbar


class System(Module):
    def __init__(self, nports, nphases=2, memtype="DDR2", depth=4, buffered=False, read_time=16,
                 write_time=8, auto_precharge=True, tccd=1, tfaw=None, read_latency=4,
                 write_latency=1, with_refresh=True, bankbits=2, trefi=128):
        rdphase, wrphase = (0, 0) if nphases == 1 else (nphases - 1, nphases - 2)
        phy = PhySettings(phytype="model", memtype=memtype, databits=8, dfi_databits=16,
            nphases=nphases, rdphase=rdphase, wrphase=wrphase, cl=2, cwl=2,
            read_latency=read_latency, write_latency=write_latency)
        geom   = GeomSettings(bankbits=bankbits, rowbits=13, colbits=10)
        timing = TimingSettings(tRP=2, tRCD=2, tWR=2, tWTR=2, tREFI=trefi, tRFC=5, tFAW=tfaw,
            tCCD=tccd, tRRD=2, tRC=6, tRAS=4, tZQCS=None)
        cs = ControllerSettings(cmd_buffer_depth=depth, cmd_buffer_buffered=buffered,
            read_time=read_time, write_time=write_time, with_auto_precharge=auto_precharge,
            with_refresh=with_refresh)
        self.phy, self.geom, self.timing, self.cs = phy, geom, timing, cs
        self.submodules.controller = LiteDRAMController(phy, geom, timing, 100e6, cs)
        self.submodules.crossbar   = LiteDRAMCrossbar(self.controller.interface)
        self.ports   = [self.crossbar.get_port() for _ in range(nports)]
        self.align   = int(math.log2(1 if memtype == "SDR" else burst_lengths[memtype])) \
                       if memtype != "SDR" else int(math.log2(nphases))
        self.colbits_p = geom.colbits - self.align
        self.bankbits  = bankbits
        self.dw        = phy.dfi_databits*nphases

    def addr(self, bank, row, col):
        return (row << (self.colbits_p + self.bankbits)) | (bank << self.colbits_p) | col


SYSTEM_CLS = System


def default_data(key, dw):
    h = hashlib.md5(repr(key).encode()).digest()
    return int.from_bytes(h, "little") & (2**dw - 1)


def dfi_model(dut, log, ncycles):
    """Behavioural DRAM behind the DFI: open-row tracking + data storage."""
    dfi   = dut.controller.dfi
    phy   = dut.phy
    mem   = {}
    rows  = {}
    wr_q  = {}   # cycle -> key
    rd_q  = {}   # cycle -> key
    nph   = len(dfi.phases)
    dwp   = phy.dfi_databits
    rdv   = False
    last_pre, last_act, last_ref = {}, {}, [None]
    def gap(name, since):
        if since is not None:
            log[name] = min(log.get(name, 10**9), cyc - since)
    for cyc in range(ncycles):
        # 1. capture the write data that is due this cycle
        if cyc in wr_q:
            key  = wr_q.pop(cyc)
            data = 0
            mask = 0
            for i, p in enumerate(dfi.phases):
                data |= (yield p.wrdata) << (i*dwp)
                mask |= (yield p.wrdata_mask) << (i*dwp//8)
            old = mem.get(key, default_data(key, dut.dw))
            new = 0
            for b in range(dut.dw//8):
                src = old if (mask >> b) & 1 else data
                new |= src & (0xff << (8*b))
            mem[key] = new
        # 2. decode commands
        ncas = 0
        for i, p in enumerate(dfi.phases):
            cas = not (yield p.cas_n)
            ras = not (yield p.ras_n)
            if not (cas or ras):
                continue
            we  = not (yield p.we_n)
            if (yield p.cs_n):
                continue
            a   = (yield p.address)
            ba  = (yield p.bank)
            if ras and not cas and not we:      # ACTIVATE
                assert rows.get(ba) is None, "cycle %d: ACTIVATE of bank %d with an open row" % (cyc, ba)
                rows[ba] = a
                log["act"] += 1
                gap("pre_act", last_pre.get(ba)); gap("act_act", last_act.get(ba)); gap("ref_act", last_ref[0])
                last_act[ba] = cyc
            elif ras and not cas and we:        # PRECHARGE
                if a & (1 << 10):
                    for b in list(rows) + list(last_act):
                        gap("act_pre", last_act.get(b))
                    rows.clear()
                    for b in range(2**dut.bankbits):
                        last_pre[b] = cyc
                else:
                    gap("act_pre", last_act.get(ba))
                    rows.pop(ba, None)
                    last_pre[ba] = cyc
            elif ras and cas and not we:        # REFRESH
                assert not rows, "cycle %d: REFRESH with open rows" % cyc
                log["refresh"] += 1
                for b in last_pre:
                    gap("pre_ref", last_pre[b])
                last_ref[0] = cyc
            elif cas and not ras:               # READ / WRITE
                ncas += 1
                assert rows.get(ba) is not None, "cycle %d: CAS to closed bank %d" % (cyc, ba)
                key = (ba, rows[ba], a & ~(1 << 10))
                gap("act_cas", last_act.get(ba))
                if we:
                    assert (yield p.wrdata_en)
                    assert i == phy.wrphase
                    assert (cyc + phy.write_latency) not in wr_q
                    wr_q[cyc + phy.write_latency] = key
                else:
                    assert (yield p.rddata_en)
                    assert i == phy.rdphase
                    rd_q[cyc + phy.read_latency - 1] = key
                if a & (1 << 10):
                    rows.pop(ba, None)
                    last_pre[ba] = cyc    # auto-precharge: not earlier than the CAS itself
        assert ncas <= 1
        # 3. drive read data (visible next cycle)
        if cyc in rd_q:
            key  = rd_q.pop(cyc)
            data = mem.get(key, default_data(key, dut.dw))
            log["reads"] += 1
            for i, p in enumerate(dfi.phases):
                yield p.rddata.eq((data >> (i*dwp)) & (2**dwp - 1))
                yield p.rddata_valid.eq(1)
            rdv = True
        elif rdv:
            for p in dfi.phases:
                yield p.rddata_valid.eq(0)
            rdv = False
        yield


def wdata_of(pid, seq, dw):
    return default_data(("w", pid, seq), dw)


class PortAgent:
    """Drives one native port from a schedule generator and records per-command timing."""
    def __init__(self, dut, pid, schedule):
        self.dut, self.pid, self.port = dut, pid, dut.ports[pid]
        self.schedule  = schedule      # iterator of (we, addr, gap_before)
        self.shadow    = {}
        self.offer_lat = []            # cycles from first valid to accept
        self.data_lat  = []            # cycles from accept to wdata.ready / rdata.valid
        self.wr_acc    = []            # accept cycle of writes not strobed yet
        self.rd_acc    = []            # (accept cycle, expected data)
        self.events    = []            # (cycle, kind) for the golden digest
        self.pending_since = None
        self.n_done    = 0

    def driver(self, ncycles):
        port, dut = self.port, self.dut
        cyc   = 0
        wseq  = 0      # writes accepted
        sseq  = 0      # strobes seen
        cur   = None
        nxt   = None
        wait  = 0
        exhausted = False
        yield port.wdata.valid.eq(1)
        yield port.wdata.we.eq(2**(dut.dw//8) - 1)
        yield port.wdata.data.eq(wdata_of(self.pid, 0, dut.dw))
        yield port.rdata.ready.eq(1)
        presented = False
        while cyc < ncycles:
            # ---- observe (values of this cycle)
            if presented and (yield port.cmd.ready):
                we, addr = cur
                self.offer_lat.append(cyc - self.pending_since)
                self.events.append((cyc, "A", we, addr))
                if we:
                    self.shadow[addr] = wdata_of(self.pid, wseq, dut.dw)
                    wseq += 1
                    self.wr_acc.append(cyc)
                else:
                    exp = self.shadow.get(addr)
                    self.rd_acc.append((cyc, addr, exp))
                cur, presented, self.pending_since = None, False, None
            if (yield port.wdata.ready):
                assert self.wr_acc, "port %d: wdata.ready without an accepted write (cycle %d)" % (self.pid, cyc)
                t = self.wr_acc.pop(0)
                self.data_lat.append(cyc - t)
                self.events.append((cyc, "W"))
                sseq += 1
                self.n_done += 1
                yield port.wdata.data.eq(wdata_of(self.pid, sseq, dut.dw))
            if (yield port.rdata.valid):
                assert self.rd_acc, "port %d: rdata.valid without an accepted read (cycle %d)" % (self.pid, cyc)
                t, addr, exp = self.rd_acc.pop(0)
                got = (yield port.rdata.data)
                if exp is None:
                    # never written by this port: the model default (address regions are private)
                    pass
                else:
                    assert got == exp, "port %d: read of %x returned %x, expected %x (cycle %d)" % (
                        self.pid, addr, got, exp, cyc)
                self.data_lat.append(cyc - t)
                self.events.append((cyc, "R", got))
                self.n_done += 1
            # ---- drive (takes effect next cycle)
            if cur is None:
                if nxt is None and not exhausted:
                    nxt = next(self.schedule, None)
                    if nxt is None:
                        exhausted = True
                    else:
                        wait = nxt[2]
                if nxt is not None:
                    if wait == 0:
                        cur, nxt = (nxt[0], nxt[1]), None
                    else:
                        wait -= 1
                if cur is not None:
                    yield port.cmd.valid.eq(1)
                    yield port.cmd.we.eq(cur[0])
                    yield port.cmd.addr.eq(cur[1])
                    presented = True
                    self.pending_since = cyc + 1
                else:
                    yield port.cmd.valid.eq(0)
            yield
            cyc += 1
        self.end_cycle = cyc
# ---- traffic schedules + runner (inlined in every keep_k.py) --------------------------------------
def sched(dut, pid, kind, rng, n):
    """Adversarial / random schedules. Every port owns a private set of columns (col % 8 == pid), so
    that the data a port reads back only depends on its own program order."""
    nb = 2**dut.bankbits
    def col():
        return (rng.randrange(8) << 3) | pid
    own = pid % nb
    if kind == "own_w":           # continuous writes to the port's private bank, one row
        for _ in range(n):
            yield 1, dut.addr(own, 1, col()), 0
    elif kind == "own_r":
        for _ in range(n):
            yield 0, dut.addr(own, 1, col()), 0
    elif kind == "own_altrows_w": # continuous writes to the private bank, alternating rows
        for i in range(n):
            yield 1, dut.addr(own, 2 + (i & 1), col()), 0
    elif kind == "own_altrows_r":
        for i in range(n):
            yield 0, dut.addr(own, 2 + (i & 1), col()), 0
    elif kind == "own_random":    # random direction / row / gaps, private bank
        for _ in range(n):
            gap = rng.choice([0, 0, 0, 0, 1, 2, 5, 17])
            yield int(rng.random() < 0.5), dut.addr(own, rng.randrange(3), col()), gap
    elif kind == "own_sparse_r":  # isolated reads on the private bank
        for _ in range(n):
            yield 0, dut.addr(own, rng.randrange(2), col()), rng.randrange(0, 30)
    elif kind == "own_sparse_w":
        for _ in range(n):
            yield 1, dut.addr(own, rng.randrange(2), col()), rng.randrange(0, 30)
    elif kind == "hammer_w":        # continuous writes, one bank, one row
        for _ in range(n):
            yield 1, dut.addr(0, 1, col()), 0
    elif kind == "hammer_r":      # continuous reads, one bank, one row
        for _ in range(n):
            yield 0, dut.addr(0, 1, col()), 0
    elif kind == "altrows_w":     # continuous writes, one bank, alternating rows
        for i in range(n):
            yield 1, dut.addr(0, 2 + (i & 1), col()), 0
    elif kind == "altrows_r":
        for i in range(n):
            yield 0, dut.addr(0, 2 + (i & 1), col()), 0
    elif kind == "sweep_w":       # continuous writes walking over the banks
        for i in range(n):
            yield 1, dut.addr(i % nb, 1, col()), 0
    elif kind == "sweep_r":
        for i in range(n):
            yield 0, dut.addr(i % nb, 1, col()), 0
    elif kind == "bursty":        # bursts to one bank, then a pause that lets the bank drain
        i = 0
        while i < n:
            b, r, we = rng.randrange(nb), rng.randrange(3), rng.random() < 0.5
            ln = rng.randrange(1, 9)
            for k in range(ln):
                yield int(we), dut.addr(b, r, col()), (rng.randrange(0, 40) if k == 0 else 0)
            i += ln
    elif kind == "random":
        for _ in range(n):
            gap = rng.choice([0, 0, 0, 1, 2, 5, 17])
            yield int(rng.random() < 0.5), dut.addr(rng.randrange(nb), rng.randrange(3), col()), gap
    elif kind == "victim_r":      # sparse single reads on its own bank
        for _ in range(n):
            yield 0, dut.addr(nb - 1, rng.randrange(2), col()), rng.randrange(0, 12)
    elif kind == "victim_w":
        for _ in range(n):
            yield 1, dut.addr(nb - 1, rng.randrange(2), col()), rng.randrange(0, 12)
    elif kind == "victim_rw":     # write then read back, own bank
        for _ in range(n):
            a = dut.addr(nb - 1, rng.randrange(2), col())
            yield 1, a, rng.randrange(0, 12)
            yield 0, a, rng.randrange(0, 3)
    else:
        raise ValueError(kind)


def run(cfg, kinds, seed, ncycles, extra_generators=None, n=10**9):
    rng    = random.Random(seed)
    dut    = SYSTEM_CLS(nports=len(kinds), **cfg)
    log    = {"act": 0, "refresh": 0, "reads": 0}
    agents = [PortAgent(dut, i, sched(dut, i, k, random.Random(rng.random()), n)) for i, k in enumerate(kinds)]
    gens   = [dfi_model(dut, log, ncycles)] + [a.driver(ncycles) for a in agents]
    for g in (extra_generators or []):
        gens.append(g(dut, ncycles))
    run_simulation(dut, gens)
    return dut, agents, log


def digest(agents):
    h = hashlib.sha256()
    for a in agents:
        h.update(repr(a.events).encode())
    return h.hexdigest()[:16]
# ---- scenarios -------------------------------------------------------------------------------------
SDR  = dict(nphases=1, memtype="SDR")
DDR3 = dict(nphases=4, memtype="DDR3", buffered=True, tccd=2, tfaw=10)

# (name, cfg, kinds, seed, ncycles, private_banks)
SCENARIOS = [
    ("P1", dict(),                                ["own_w", "own_r", "own_altrows_w", "own_sparse_r"], 11, 1000, True),
    ("P2", dict(SDR, depth=2),                    ["own_r", "own_r", "own_sparse_w"],                  12, 1000, True),
    ("P3", dict(DDR3),                            ["own_altrows_r", "own_w", "own_random"],            13, 1000, True),
    ("P4", dict(depth=1, read_time=4, write_time=4), ["own_random", "own_random", "own_random"],       14, 1000, True),
    ("P5", dict(auto_precharge=False, read_time=8, write_time=24), ["own_w", "own_w", "own_sparse_r"], 15, 1000, True),
    ("P6", dict(DDR3, depth=8, auto_precharge=False), ["own_r", "own_altrows_w", "own_sparse_w", "own_random"], 16, 1000, True),
    ("S1", dict(),                                ["random", "random", "random"],                      21, 1000, False),
    ("S2", dict(buffered=True),                   ["hammer_w", "victim_r", "bursty"],                  22, 1000, False),
    ("S3", dict(SDR),                             ["hammer_r", "victim_w", "bursty"],                  23, 1000, False),
    ("S4", dict(DDR3),                            ["altrows_w", "altrows_r", "random"],                24, 1000, False),
    ("S5", dict(depth=2),                         ["sweep_w", "sweep_r", "victim_rw"],                 25, 1000, False),
    ("S6", dict(depth=0),                         ["random", "bursty", "sweep_r"],                     26, 1000, False),
]


def stats(agents, ncycles):
    offer, data = 0, 0
    for a in agents:
        offer = max([offer] + a.offer_lat)
        data  = max([data] + a.data_lat)
        if a.pending_since is not None:
            offer = max(offer, ncycles - a.pending_since)
        for t in a.wr_acc[:1]:
            data = max(data, ncycles - t)
        for t in a.rd_acc[:1]:
            data = max(data, ncycles - t[0])
    return offer, data, sum(a.n_done for a in agents)
# Digests of the complete port-level event traces (cycle of every cmd accept, wdata.ready, rdata.valid
# and the read data) recorded with this very script on the UNMODIFIED tree.
GOLDEN = {
    "P1": "405eff0d5cda4894", "P2": "b66a84ab7e6c39e3", "P3": "c3aab50c3c60cc2c", "P4": "ff2e50510b175aeb",
    "P5": "47ff68cc419a37ba", "P6": "0e544dd56ef051b7", "S1": "3f43384ce989521a", "S2": "8b10d812d9d8f211",
    "S3": "fbab1bf2fa8a0d21", "S4": "d93947c6af5092da", "S5": "0900ce543cf43802", "S6": "e8a21820d2dc232c",
}
# ---- keep_3 specific: cycle-by-cycle reference model of the crossbar arbitration -------------------
import traceback
from migen.genlib.roundrobin import RoundRobin
from litedram.common import LiteDRAMInterface


def xbar_monitor(dut, ncycles):
    """Recompute, from lock/grant/port signals, what the ORIGINAL crossbar equations give for every
    bank.valid, every port cmd.ready and every arbiter's next grant, and compare with the real thing."""
    xb    = dut.crossbar
    itf   = dut.crossbar.controller
    arbs  = [m for _, m in xb._submodules if isinstance(m, RoundRobin)]
    nb    = 2**dut.bankbits
    nm    = len(dut.ports)
    assert len(arbs) == nb
    banks = [getattr(itf, "bank%d" % b) for b in range(nb)]
    prev  = None
    dut.xbar_checked = 0
    dut.ce_diff = 0
    dut.strobes = 0
    for cyc in range(ncycles):
        lock, bval, brdy, grant, mval, mrdy, mba, ce, areq = [], [], [], [], [], [], [], [], []
        for i, b in enumerate(banks):
            lock.append((yield b.lock))
            bval.append((yield b.valid))
            brdy.append((yield b.ready))
            strobe = (yield b.wdata_ready) | (yield b.rdata_valid)
            dut.strobes += strobe
            assert not strobe or lock[-1], "cycle %d: bank %d returns a strobe while not locked" % (cyc, i)
        for a in arbs:
            grant.append((yield a.grant))
            ce.append((yield a.ce))
            areq.append((yield a.request))
        for i in range(nb):
            ce_orig = int(not bval[i] and not lock[i])
            if ce[i] != ce_orig:
                dut.ce_diff += 1
                assert ce_orig == 1 and ce[i] == 0 and areq[i] == 0, \
                    "cycle %d bank %d: ce=%d, original %d, request=%x" % (cyc, i, ce[i], ce_orig, areq[i])
        for p in dut.ports:
            mval.append((yield p.cmd.valid))
            mrdy.append((yield p.cmd.ready))
            mba.append(((yield p.cmd.addr) >> dut.colbits_p) & (nb - 1))
        if prev is not None:
            assert grant == prev, "cycle %d: grants %r, reference model %r" % (cyc, grant, prev)
        exp_rdy = [0]*nm
        nxt     = list(grant)
        for b in range(nb):
            locked = [any(lock[o] and grant[o] == m for o in range(nb) if o != b) for m in range(nm)]
            sel    = [mba[m] == b and not locked[m] for m in range(nm)]
            req    = [sel[m] and bool(mval[m]) for m in range(nm)]
            assert bool(bval[b]) == req[grant[b]], "cycle %d: bank%d.valid=%d, reference %d" % (
                cyc, b, bval[b], req[grant[b]])
            g = grant[b]
            if sel[g] and brdy[b]:
                exp_rdy[g] = 1
            if not bval[b] and not lock[b]:          # arbiter.ce
                for k in range(1, nm):
                    if req[(g + k) % nm]:
                        nxt[b] = (g + k) % nm
                        break
        assert [bool(r) for r in mrdy] == [bool(r) for r in exp_rdy], "cycle %d: cmd.ready %r, reference %r" % (
            cyc, mrdy, exp_rdy)
        prev = nxt
        dut.xbar_checked += 1
        yield

class XbarOnly(Module):
    """Crossbar alone: the bank side (lock / ready) is driven with random values, which also reaches
    lock/grant combinations the real bank machines never produce."""
    def __init__(self, nports, bankbits):
        phy  = PhySettings(phytype="model", memtype="DDR2", databits=8, dfi_databits=16, nphases=2,
            rdphase=1, wrphase=0, cl=2, cwl=2, read_latency=4, write_latency=1)
        cs   = ControllerSettings(cmd_buffer_depth=4)
        cs.phy, cs.geom = phy, GeomSettings(bankbits=bankbits, rowbits=13, colbits=10)
        self.cs, self.bankbits, self.colbits_p = cs, bankbits, 10 - 2
        self.itf = LiteDRAMInterface(2, cs)
        self.submodules.crossbar = LiteDRAMCrossbar(self.itf)
        self.ports = [self.crossbar.get_port() for _ in range(nports)]


def xbar_random_driver(dut, rng, ncycles):
    nb    = 2**dut.bankbits
    banks = [getattr(dut.itf, "bank%d" % b) for b in range(nb)]
    plock = rng.choice([0.2, 0.5, 0.8])
    cur_lock = [0]*nb
    for cyc in range(ncycles):
        for i, b in enumerate(banks):
            if rng.random() < 0.3:
                cur_lock[i] = int(rng.random() < plock)
                yield b.lock.eq(cur_lock[i])
            yield b.ready.eq(int(rng.random() < 0.6))
            # strobes only under lock, as the bank machines guarantee
            st = rng.choice([0, 0, 1, 2]) if cur_lock[i] else 0
            yield b.wdata_ready.eq(int(st == 1))
            yield b.rdata_valid.eq(int(st == 2))
        for p in dut.ports:
            if rng.random() < 0.5:
                yield p.cmd.valid.eq(int(rng.random() < 0.7))
                yield p.cmd.addr.eq((rng.randrange(nb) << dut.colbits_p) | rng.randrange(4))
        yield


def xbar_only_case(args):
    nports, bankbits, seed, ncycles = args
    try:
        dut = XbarOnly(nports, bankbits)
        run_simulation(dut, [xbar_random_driver(dut, random.Random(seed), ncycles), xbar_monitor(dut, ncycles)])
    except Exception:
        return False, "crossbar-only %d ports %d banks: %s" % (nports, 2**bankbits, traceback.format_exc())
    return dut.xbar_checked == ncycles and dut.strobes > 50, "crossbar-only %d ports, %d banks, random lock/ready/strobes: reference model of the original matched on %d cycles (%d strobes, ce differs from the original in %d idle bank-cycles)" % (
        nports, 2**bankbits, dut.xbar_checked, dut.strobes, dut.ce_diff)


EXTRA_JOBS  = [(xbar_only_case, (np_, bb, 500 + 10*np_ + bb, 1500)) for np_ in (1, 2, 3, 5) for bb in (1, 2, 3)]
MONITOR     = xbar_monitor
MONITORED   = {"P1", "P2", "P3", "P4", "P5", "P6", "S1", "S2", "S3", "S4", "S5", "S6"}
MONITOR_MSG = lambda dut: "original-crossbar reference model matched on %d cycles, strobe => lock on %d strobes, ce differs only in %d idle bank-cycles" % (dut.xbar_checked, dut.strobes, dut.ce_diff)
# ---- main ------------------------------------------------------------------------------------------
import multiprocessing, time, traceback


def system_case(sc):
    name, cfg, kinds, seed, n, private = sc
    try:
        extra = [MONITOR] if name in MONITORED else []
        dut, agents, log = run(cfg, kinds, seed, n, extra_generators=extra)
    except Exception:
        return False, "system %s: %s" % (name, traceback.format_exc())
    offer, data, done = stats(agents, n)
    per = dut.cs.read_time + dut.cs.write_time + 40
    data_bound  = (dut.cs.cmd_buffer_depth + 3)*per
    offer_bound = 2*per
    d  = digest(agents)
    ok = data <= data_bound and done > 50 and log["refresh"] >= 5
    if private:
        # with private banks nothing but the multiplexer can delay a port: both latencies are bounded
        ok = ok and offer <= offer_bound and all(a.n_done > 8 for a in agents)
    same = d == GOLDEN[name]
    ok   = ok and same
    msg = "system %s: trace %s unmodified tree (%s); done=%d max offer->accept=%d%s max accept->data=%d (<=%d)" % (
        name, "IDENTICAL to" if same else "DIFFERS from", d, done, offer,
        " (<=%d)" % offer_bound if private else "", data, data_bound)
    if name in MONITORED:
        msg += "; " + MONITOR_MSG(dut)
    return ok, msg


def _dispatch(job):
    return job[0](job[1])


if __name__ == "__main__":
    t0   = time.time()
    bad  = 0
    jobs = [(system_case, sc) for sc in SCENARIOS] + EXTRA_JOBS
    with multiprocessing.Pool(min(8, os.cpu_count() or 2)) as pool:
        for ok, msg in pool.imap(_dispatch, jobs):
            print("ok  " if ok else "FAIL", msg, flush=True)
            bad += not ok
    print("%d jobs, %d failed, %.0f s" % (len(jobs), bad, time.time() - t0))
    sys.exit(1 if bad else 0)
